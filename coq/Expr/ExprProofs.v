(* Proofs about the shared expression language (Expr/Expr.v):
     evalR_ext, evalR_upd_same      extensionality of the semantics in the environment
     smooth_defined                 smooth -> defined
     D_correct                      the symbolic derivative is the derivative (Coquelicot)
     D_correct_Derive               ... in the form Derive f x = evalR (D x e)
     evalQ_sound                    the rational twin agrees with the real semantics
     simp_correct                   the clean-up pass preserves the semantics
     macro lemmas                   e_sinh = sinh, e_asin = asin, e_max = Rmax, ...
     tactics                        expr_reduce, expr_interval, expr_dom *)
From Coq Require Import Reals QArith Qabs Qpower Qreals ZArith List Bool Lia Lra.
From Coquelicot Require Import Coquelicot.
From Interval Require Import Tactic.
From OMV Require Import Expr.Expr.
Import ListNotations.
Open Scope R_scope.

(* ---------------------------------------------------------------- environments *)

Lemma evalR_ext : forall e rho1 rho2,
  (forall i, rho1 i = rho2 i) -> evalR rho1 e = evalR rho2 e.
Proof.
  induction e; intros rho1 rho2 H; cbn [evalR]; auto;
    try (rewrite (IHe rho1 rho2 H); reflexivity);
    try (rewrite (IHe1 rho1 rho2 H), (IHe2 rho1 rho2 H); reflexivity).
Qed.

Lemma upd_same : forall rho x i, upd rho x (rho x) i = rho i.
Proof.
  intros rho x i. unfold upd. destruct (Nat.eqb i x) eqn:E; auto.
  apply Nat.eqb_eq in E. now subst.
Qed.

Lemma upd_eq : forall rho x t, upd rho x t x = t.
Proof. intros. unfold upd. now rewrite Nat.eqb_refl. Qed.

Lemma upd_neq : forall rho x t i, i <> x -> upd rho x t i = rho i.
Proof. intros. unfold upd. apply Nat.eqb_neq in H. now rewrite H. Qed.

Lemma evalR_upd_same : forall e rho x, evalR (upd rho x (rho x)) e = evalR rho e.
Proof. intros. apply evalR_ext. apply upd_same. Qed.

Lemma smooth_defined : forall e rho, smooth rho e -> defined rho e.
Proof.
  induction e; cbn [smooth defined]; intros; intuition auto with real.
Qed.

(* ---------------------------------------------------------------- elementary derivatives *)

Lemma is_derive_comp1 (f g : R -> R) (x df dg : R) :
  is_derive f (g x) df -> is_derive g x dg ->
  is_derive (fun t => f (g t)) x (df * dg).
Proof.
  intros Hf Hg.
  evar_last. apply (is_derive_comp f g x df dg Hf Hg).
  unfold scal; simpl; unfold mult; simpl. ring.
Qed.

Lemma exp_plus_exp_neg_pos x : 0 < exp x + exp (- x).
Proof. generalize (exp_pos x) (exp_pos (- x)). lra. Qed.

Lemma is_derive_tanh x : is_derive tanh x (1 - tanh x ^ 2).
Proof.
  unfold tanh, sinh, cosh.
  generalize (exp_plus_exp_neg_pos x); intro Hp.
  auto_derive.
  - lra.
  - field. lra.
Qed.

Lemma powerRZ_pos_pow x p : powerRZ x (Zpos p) = x ^ Pos.to_nat p.
Proof. reflexivity. Qed.

Lemma powerRZ_neg_pow x p : powerRZ x (Zneg p) = / x ^ Pos.to_nat p.
Proof. reflexivity. Qed.

Lemma powerRZ_pred_nat x (n : nat) : (0 < n)%nat -> powerRZ x (Z.of_nat n - 1) = x ^ pred n.
Proof.
  intros Hn. replace (Z.of_nat n - 1)%Z with (Z.of_nat (pred n)) by lia.
  symmetry. apply pow_powerRZ.
Qed.

Lemma is_derive_powerRZ (n : Z) (x : R) :
  ((0 <= n)%Z \/ x <> 0) ->
  is_derive (fun t => powerRZ t n) x (IZR n * powerRZ x (n - 1)).
Proof.
  intros H.
  destruct n as [|p|p].
  - simpl. evar_last. apply @is_derive_const. unfold zero; simpl. ring.
  - apply is_derive_ext with (f := fun t => t ^ Pos.to_nat p).
    { intros t. reflexivity. }
    evar_last. apply is_derive_pow. apply @is_derive_id.
    replace (Z.pos p - 1)%Z with (Z.of_nat (Pos.to_nat p) - 1)%Z
      by (rewrite positive_nat_Z; reflexivity).
    rewrite powerRZ_pred_nat by apply Pos2Nat.is_pos.
    rewrite INR_IZR_INZ, positive_nat_Z. unfold one; simpl. ring.
  - assert (Hx : x <> 0) by (destruct H as [H|H]; [lia | exact H]).
    apply is_derive_ext with (f := fun t => / t ^ Pos.to_nat p).
    { intros t. reflexivity. }
    evar_last.
    apply is_derive_inv. apply is_derive_pow. apply @is_derive_id.
    now apply pow_nonzero.
    replace (Z.neg p - 1)%Z with (- (Z.of_nat (S (Pos.to_nat p))))%Z by lia.
    rewrite powerRZ_neg', <- pow_powerRZ.
    change (Z.neg p) with (- Z.pos p)%Z. rewrite opp_IZR.
    rewrite <- positive_nat_Z, <- INR_IZR_INZ.
    destruct (Pos2Nat.is_succ p) as [k Hk]. rewrite Hk.
    cbn [pred]. rewrite <- !tech_pow_Rmult.
    assert (x ^ k <> 0) by now apply pow_nonzero.
    unfold one; cbn -[INR]. field. split; assumption.
Qed.

Lemma sign_div_Rabs x : x <> 0 -> sign x = x / Rabs x.
Proof.
  intros Hx. destruct (Rlt_or_le x 0) as [H|H].
  - rewrite sign_eq_m1 by assumption. rewrite Rabs_left by assumption. field. lra.
  - assert (0 < x) by lra. rewrite sign_eq_1 by assumption.
    rewrite Rabs_pos_eq by lra. field. lra.
Qed.

(* ---------------------------------------------------------------- D_correct *)

Theorem D_correct : forall (e : expr) (rho : env) (x : nat),
  smooth rho e ->
  is_derive (fun t => evalR (upd rho x t) e) (rho x) (evalR rho (D x e)).
Proof.
  induction e; intros rho x Hs; cbn [smooth] in Hs; cbn [evalR D].
  - (* EVar *)
    destruct (Nat.eqb i x) eqn:E; cbn [evalR].
    + apply Nat.eqb_eq in E. subst i.
      apply is_derive_ext with (f := fun t : R => t).
      { intros t. now rewrite upd_eq. }
      evar_last. apply @is_derive_id. unfold Q2R; simpl. unfold one; simpl. field.
    + apply Nat.eqb_neq in E.
      apply is_derive_ext with (f := fun _ : R => rho i).
      { intros t. now rewrite upd_neq. }
      evar_last. apply @is_derive_const. unfold Q2R; simpl. unfold zero; simpl. field.
  - (* ECst *)
    evar_last. apply @is_derive_const. unfold Q2R; simpl. unfold zero; simpl. field.
  - (* EPi *)
    evar_last. apply @is_derive_const. unfold Q2R; simpl. unfold zero; simpl. field.
  - (* ENeg *)
    apply @is_derive_opp. now apply IHe.
  - (* EAdd *)
    destruct Hs as [H1 H2]. apply @is_derive_plus; [now apply IHe1 | now apply IHe2].
  - (* ESub *)
    destruct Hs as [H1 H2]. apply @is_derive_minus; [now apply IHe1 | now apply IHe2].
  - (* EMul *)
    destruct Hs as [H1 H2].
    evar_last. apply Derive.is_derive_mult; [now apply IHe1 | now apply IHe2].
    cbv beta; rewrite ?evalR_upd_same. reflexivity.
  - (* EDiv *)
    destruct Hs as [H1 [H2 H3]].
    evar_last. apply is_derive_div; [now apply IHe1 | now apply IHe2 | ].
    (cbv beta; now rewrite ?evalR_upd_same).
    cbv beta; rewrite ?evalR_upd_same. field. assumption.
  - (* EPow *)
    destruct Hs as [H1 H2].
    destruct (Z.eqb n 0) eqn:En.
    + apply Z.eqb_eq in En. subst n. cbn [evalR powerRZ].
      evar_last. apply @is_derive_const. unfold Q2R; simpl. unfold zero; simpl. field.
    + cbn [evalR e_Z].
      evar_last.
      apply (is_derive_comp1 (fun t => powerRZ t n) (fun t => evalR (upd rho x t) e)).
      apply is_derive_powerRZ. (cbv beta; now rewrite ?evalR_upd_same).
      now apply IHe.
      cbv beta; rewrite ?evalR_upd_same. unfold Q2R; simpl. field.
  - (* EExp *)
    evar_last. apply (is_derive_comp1 exp). apply is_derive_exp. now apply IHe.
    (cbv beta; now rewrite ?evalR_upd_same).
  - (* ELn *)
    destruct Hs as [H1 H2].
    evar_last. apply (is_derive_comp1 ln). apply is_derive_ln.
    (cbv beta; now rewrite ?evalR_upd_same). now apply IHe.
    cbv beta; rewrite ?evalR_upd_same. field. lra.
  - (* ESqrt *)
    destruct Hs as [H1 H2].
    evar_last. apply is_derive_sqrt. now apply IHe. (cbv beta; now rewrite ?evalR_upd_same).
    cbv beta; rewrite ?evalR_upd_same. unfold Q2R; simpl. field.
    generalize (sqrt_lt_R0 _ H2). lra.
  - (* ESin *)
    evar_last. apply (is_derive_comp1 sin). apply is_derive_sin. now apply IHe.
    (cbv beta; now rewrite ?evalR_upd_same).
  - (* ECos *)
    evar_last. apply (is_derive_comp1 cos). apply is_derive_cos. now apply IHe.
    cbv beta; rewrite ?evalR_upd_same. ring.
  - (* ETan *)
    destruct Hs as [H1 H2].
    evar_last. apply (is_derive_comp1 tan). apply is_derive_tan.
    (cbv beta; now rewrite ?evalR_upd_same). now apply IHe.
    cbv beta; rewrite ?evalR_upd_same. unfold Q2R; simpl. field.
  - (* ETanh *)
    evar_last. apply (is_derive_comp1 tanh). apply is_derive_tanh. now apply IHe.
    cbv beta; rewrite ?evalR_upd_same. unfold Q2R; simpl. field.
  - (* EAtan *)
    evar_last. apply (is_derive_comp1 atan). apply is_derive_atan. now apply IHe.
    cbv beta; rewrite ?evalR_upd_same. unfold Q2R, Rsqr; simpl. field.
    generalize (Rle_0_sqr (evalR rho e)). unfold Rsqr. lra.
  - (* EAbs *)
    destruct Hs as [H1 H2].
    evar_last. apply is_derive_Rabs. now apply IHe. (cbv beta; now rewrite ?evalR_upd_same).
    cbv beta; rewrite ?evalR_upd_same. rewrite sign_div_Rabs by assumption. reflexivity.
Qed.

Corollary D_correct_Derive : forall e rho x,
  smooth rho e -> Derive (fun t => evalR (upd rho x t) e) (rho x) = evalR rho (D x e).
Proof. intros. apply is_derive_unique. now apply D_correct. Qed.

Corollary D_correct_ex_derive : forall e rho x,
  smooth rho e -> ex_derive (fun t => evalR (upd rho x t) e) (rho x).
Proof. intros. eexists. now apply D_correct. Qed.

(* Variant at an explicitly given point: derivative of t |-> e[x := t] at t0. *)
Corollary D_correct_at : forall e rho x t0,
  smooth (upd rho x t0) e ->
  is_derive (fun t => evalR (upd rho x t) e) t0 (evalR (upd rho x t0) (D x e)).
Proof.
  intros e rho x t0 Hs.
  generalize (D_correct e (upd rho x t0) x Hs). rewrite upd_eq.
  apply is_derive_ext. intros t. apply evalR_ext. intros i.
  unfold upd. destruct (Nat.eqb i x); reflexivity.
Qed.

(* non-vacuity: a smooth expression exists and the theorem applies to it *)
Example D_correct_nonvacuous :
  smooth (env_of_list [2; 3]) (EDiv (ELn (EVar 0)) (ESqrt (EAdd (EVar 1) (EAbs (EVar 0))))).
Proof. cbn. repeat split; try lra. rewrite Rabs_pos_eq; lra. rewrite Rabs_pos_eq by lra.
  intro H. generalize (sqrt_lt_R0 (3 + 2)). lra. Qed.

(* ---------------------------------------------------------------- evalQ *)

Lemma Qzero_false q : Qzero q = false -> ~ (q == 0)%Q.
Proof.
  unfold Qzero, Qeq. intros H E. simpl in E. apply Z.eqb_neq in H. lia.
Qed.

Lemma Qzero_true q : Qzero q = true -> (q == 0)%Q.
Proof. unfold Qzero, Qeq. intros H. apply Z.eqb_eq in H. simpl. lia. Qed.

Lemma Q2R_pow_pos q p : Q2R (Qpower_positive q p) = Q2R q ^ Pos.to_nat p.
Proof.
  unfold Qpower_positive.
  induction p; cbn [pow_pos].
  - rewrite !Q2R_mult, IHp, Pos2Nat.inj_xI.
    replace (S (2 * Pos.to_nat p)) with (S (Pos.to_nat p + Pos.to_nat p)) by lia.
    rewrite <- tech_pow_Rmult, pow_add. ring.
  - rewrite !Q2R_mult, IHp, Pos2Nat.inj_xO.
    replace (2 * Pos.to_nat p)%nat with (Pos.to_nat p + Pos.to_nat p)%nat by lia.
    rewrite pow_add. ring.
  - rewrite Pos2Nat.inj_1. simpl. ring.
Qed.

Lemma Q2R_power q n : ((0 <= n)%Z \/ ~ (q == 0)%Q) -> Q2R (Qpower q n) = powerRZ (Q2R q) n.
Proof.
  intros H. destruct n as [|p|p]; cbn [Qpower powerRZ].
  - unfold Q2R; simpl. field.
  - apply Q2R_pow_pos.
  - assert (Hq : ~ (q == 0)%Q) by (destruct H as [H|H]; [lia | exact H]).
    rewrite Q2R_inv, Q2R_pow_pos. reflexivity.
    intro E. apply Hq.
    clear H. revert E. generalize (Qpower_not_0_positive q p). intros H E.
    destruct (Qeq_dec q 0) as [Z|NZ]; auto. exfalso. now apply (H NZ).
Qed.

Lemma Q2R_abs q : Q2R (Qabs q) = Rabs (Q2R q).
Proof.
  apply Qabs_case; intros H.
  - rewrite Rabs_pos_eq; auto. replace 0 with (Q2R 0) by (unfold Q2R; simpl; field).
    now apply Qle_Rle.
  - rewrite Q2R_opp. rewrite Rabs_left1; auto.
    replace 0 with (Q2R 0) by (unfold Q2R; simpl; field). now apply Qle_Rle.
Qed.

Theorem evalQ_sound : forall e rq r,
  evalQ rq e = Some r -> evalR (env_of_Q rq) e = Q2R r /\ defined (env_of_Q rq) e.
Proof.
  induction e; intros rq r H; cbn [evalQ] in H; cbn [evalR defined]; try discriminate.
  - inversion H; subst. now split.
  - inversion H; subst. now split.
  - destruct (evalQ rq e) as [u|] eqn:E; try discriminate. inversion H; subst.
    destruct (IHe rq u E) as [V Dn]. rewrite V, Q2R_opp. now split.
  - destruct (evalQ rq e1) as [u|] eqn:E1; try discriminate.
    destruct (evalQ rq e2) as [v|] eqn:E2; try discriminate. inversion H; subst.
    destruct (IHe1 rq u E1) as [V1 D1]. destruct (IHe2 rq v E2) as [V2 D2].
    rewrite V1, V2, Q2R_plus. now split.
  - destruct (evalQ rq e1) as [u|] eqn:E1; try discriminate.
    destruct (evalQ rq e2) as [v|] eqn:E2; try discriminate. inversion H; subst.
    destruct (IHe1 rq u E1) as [V1 D1]. destruct (IHe2 rq v E2) as [V2 D2].
    rewrite V1, V2, Q2R_minus. now split.
  - destruct (evalQ rq e1) as [u|] eqn:E1; try discriminate.
    destruct (evalQ rq e2) as [v|] eqn:E2; try discriminate. inversion H; subst.
    destruct (IHe1 rq u E1) as [V1 D1]. destruct (IHe2 rq v E2) as [V2 D2].
    rewrite V1, V2, Q2R_mult. now split.
  - destruct (evalQ rq e1) as [u|] eqn:E1; try discriminate.
    destruct (evalQ rq e2) as [v|] eqn:E2; try discriminate.
    destruct (Qzero v) eqn:Zv; try discriminate. inversion H; subst.
    destruct (IHe1 rq u E1) as [V1 D1]. destruct (IHe2 rq v E2) as [V2 D2].
    apply Qzero_false in Zv.
    rewrite V1, V2, Q2R_div by assumption. repeat split; auto.
    intro E0. apply Zv. apply eqR_Qeq. rewrite E0. unfold Q2R; simpl; field.
  - destruct (evalQ rq e) as [u|] eqn:E; try discriminate.
    destruct ((n <? 0)%Z && Qzero u) eqn:C; try discriminate. inversion H; subst.
    destruct (IHe rq u E) as [V Dn]. rewrite V.
    assert (Hc : (0 <= n)%Z \/ ~ (u == 0)%Q).
    { apply andb_false_iff in C. destruct C as [C|C].
      - left. apply Z.ltb_ge in C. lia.
      - right. now apply Qzero_false. }
    rewrite Q2R_power by assumption. repeat split; auto.
    destruct Hc as [Hc|Hc]; [now left | right].
    intro E0. apply Hc. apply eqR_Qeq. rewrite E0. unfold Q2R; simpl; field.
  - destruct (evalQ rq e) as [u|] eqn:E; try discriminate. inversion H; subst.
    destruct (IHe rq u E) as [V Dn]. rewrite V, Q2R_abs. now split.
Qed.

(* completeness on the fragment: evalQ answers unless a division by zero occurs *)
Lemma evalQ_env_of_list (l : list Q) (i : nat) :
  env_of_Q (envQ_of_list l) i = env_of_list (map Q2R l) i.
Proof.
  unfold env_of_Q, envQ_of_list, env_of_list.
  replace 0 with (Q2R 0) by (unfold Q2R; simpl; field).
  now rewrite map_nth.
Qed.

(* ---------------------------------------------------------------- simp *)

Lemma is_cst_sound e z rho : is_cst e z = true -> evalR rho e = IZR z.
Proof.
  destruct e; cbn; try discriminate. intros H. apply Qeq_bool_eq in H.
  apply Qeq_eqR in H. rewrite H. unfold Q2R; simpl. field.
Qed.

Ltac cst_cases :=
  repeat match goal with
  | |- context [is_cst ?a ?z] =>
      let E := fresh "E" in destruct (is_cst a z) eqn:E;
      [ apply is_cst_sound with (rho := _) in E | ]
  end.

Lemma mk_add_correct rho a b : evalR rho (mk_add a b) = evalR rho a + evalR rho b.
Proof.
  unfold mk_add.
  destruct (is_cst a 0) eqn:Ea. { rewrite (is_cst_sound _ _ rho Ea). ring. }
  destruct (is_cst b 0) eqn:Eb. { rewrite (is_cst_sound _ _ rho Eb). ring. }
  reflexivity.
Qed.

Lemma mk_sub_correct rho a b : evalR rho (mk_sub a b) = evalR rho a - evalR rho b.
Proof.
  unfold mk_sub.
  destruct (is_cst b 0) eqn:Eb. { rewrite (is_cst_sound _ _ rho Eb). ring. }
  destruct (is_cst a 0) eqn:Ea. { rewrite (is_cst_sound _ _ rho Ea). cbn. ring. }
  reflexivity.
Qed.

Lemma Q2R_0 : Q2R 0 = 0. Proof. unfold Q2R; simpl; field. Qed.
Lemma Q2R_1 : Q2R 1 = 1. Proof. unfold Q2R; simpl; field. Qed.

Lemma mk_mul_correct rho a b : evalR rho (mk_mul a b) = evalR rho a * evalR rho b.
Proof.
  unfold mk_mul.
  destruct (is_cst a 0) eqn:Ea. { rewrite (is_cst_sound _ _ rho Ea). cbn. rewrite Q2R_0. ring. }
  destruct (is_cst b 0) eqn:Eb. { rewrite (is_cst_sound _ _ rho Eb). cbn. rewrite Q2R_0. ring. }
  destruct (is_cst a 1) eqn:Ea1. { rewrite (is_cst_sound _ _ rho Ea1). ring. }
  destruct (is_cst b 1) eqn:Eb1. { rewrite (is_cst_sound _ _ rho Eb1). ring. }
  reflexivity.
Qed.

Lemma mk_neg_correct rho a : evalR rho (mk_neg a) = - evalR rho a.
Proof.
  unfold mk_neg.
  destruct (is_cst a 0) eqn:Ea. { rewrite (is_cst_sound _ _ rho Ea). cbn. rewrite Q2R_0. ring. }
  reflexivity.
Qed.

Lemma mk_div_correct rho a b : evalR rho (mk_div a b) = evalR rho a / evalR rho b.
Proof.
  unfold mk_div.
  destruct (is_cst a 0) eqn:Ea.
  { rewrite (is_cst_sound _ _ rho Ea). cbn. rewrite Q2R_0. unfold Rdiv. ring. }
  reflexivity.
Qed.

Theorem simp_correct : forall e rho, evalR rho (simp e) = evalR rho e.
Proof.
  induction e; intros rho; cbn [simp]; try reflexivity;
    rewrite ?mk_add_correct, ?mk_sub_correct, ?mk_mul_correct, ?mk_neg_correct, ?mk_div_correct;
    cbn [evalR]; rewrite ?IHe, ?IHe1, ?IHe2; reflexivity.
Qed.

(* ---------------------------------------------------------------- derived forms *)

Lemma e_sinh_correct rho a : evalR rho (e_sinh a) = sinh (evalR rho a).
Proof. cbn. unfold sinh. unfold Q2R; simpl. field. Qed.

Lemma e_cosh_correct rho a : evalR rho (e_cosh a) = cosh (evalR rho a).
Proof. cbn. unfold cosh. unfold Q2R; simpl. field. Qed.

Lemma e_expm1_correct rho a : evalR rho (e_expm1 a) = exp (evalR rho a) - 1.
Proof. cbn. unfold Q2R; simpl. field. Qed.

Lemma e_log1p_correct rho a : evalR rho (e_log1p a) = ln (1 + evalR rho a).
Proof. cbn. unfold Q2R; simpl. f_equal. field. Qed.

Lemma e_log10_correct rho a : evalR rho (e_log10 a) = ln (evalR rho a) / ln 10.
Proof. cbn. unfold Q2R; simpl. do 2 f_equal. field. Qed.

Lemma e_rpow_correct rho a b :
  evalR rho (e_rpow a b) = Rpower (evalR rho a) (evalR rho b).
Proof. reflexivity. Qed.

Lemma e_sqr_correct rho a : evalR rho (e_sqr a) = evalR rho a * evalR rho a.
Proof. unfold e_sqr. cbn [evalR]. change (powerRZ ?x 2) with (x ^ 2). ring. Qed.

Lemma e_max_correct rho a b : evalR rho (e_max a b) = Rmax (evalR rho a) (evalR rho b).
Proof.
  cbn. set (u := evalR rho a). set (v := evalR rho b).
  replace (Q2R 2) with 2 by (unfold Q2R; simpl; field).
  unfold Rmax. destruct (Rle_dec u v).
  - rewrite Rabs_left1 by lra. field.
  - rewrite Rabs_pos_eq by lra. field.
Qed.

Lemma e_min_correct rho a b : evalR rho (e_min a b) = Rmin (evalR rho a) (evalR rho b).
Proof.
  cbn. set (u := evalR rho a). set (v := evalR rho b).
  replace (Q2R 2) with 2 by (unfold Q2R; simpl; field).
  unfold Rmin. destruct (Rle_dec u v).
  - rewrite Rabs_left1 by lra. field.
  - rewrite Rabs_pos_eq by lra. field.
Qed.

Lemma e_sign_correct rho a : evalR rho a <> 0 -> evalR rho (e_sign a) = sign (evalR rho a).
Proof. intros H. cbn. now rewrite sign_div_Rabs. Qed.

Lemma e_asin_correct rho a :
  -1 < evalR rho a < 1 -> evalR rho (e_asin a) = asin (evalR rho a).
Proof.
  intros H. unfold e_asin. cbn [evalR]. rewrite asin_atan by assumption.
  replace (Q2R 1) with 1 by (unfold Q2R; simpl; field).
  do 3 f_equal. change (powerRZ ?x 2) with (x ^ 2). unfold Rsqr. ring.
Qed.

Lemma e_acos_correct rho a :
  -1 < evalR rho a < 1 -> evalR rho (e_acos a) = acos (evalR rho a).
Proof.
  intros H. unfold e_acos. cbn [evalR]. rewrite e_asin_correct by assumption.
  replace (Q2R 2) with 2 by (unfold Q2R; simpl; field).
  rewrite acos_asin by lra. reflexivity.
Qed.

Lemma e_asinh_smooth rho a : smooth rho a -> smooth rho (e_asinh a).
Proof.
  intros H. unfold e_asinh. cbn [smooth evalR]. set (u := evalR rho a).
  change (powerRZ u 2) with (u ^ 2).
  replace (Q2R 1) with 1 by (unfold Q2R; simpl; field).
  assert (Hp : 0 < u ^ 2 + 1) by (generalize (pow2_ge_0 u); lra).
  repeat split; auto; try (left; lia).
  assert (Rabs u < sqrt (u ^ 2 + 1)).
  { rewrite <- sqrt_Rsqr_abs. apply sqrt_lt_1_alt. unfold Rsqr.
    generalize (pow2_ge_0 u). intros. split; nra. }
  generalize (Rle_abs (- u)). rewrite Rabs_Ropp. lra.
Qed.

(* ---------------------------------------------------------------- tactics for numeric goals *)

(* Bring a goal that mentions  evalR (env_of_list [...]) e  and  D x e  on literal expressions
   into the form understood by the Interval library: compute D (and simp) by vm_compute on the
   syntax, unfold the semantics, expose rational literals as  IZR n * / IZR d. *)
Ltac expr_reduce :=
  repeat match goal with
  | |- context [simp ?e] =>
      let d := eval vm_compute in (simp e) in change (simp e) with d
  end;
  repeat match goal with
  | |- context [D ?x ?e] =>
      let d := eval vm_compute in (D x e) in change (D x e) with d
  end;
  cbn [evalR smooth defined env_of_list upd nth Nat.eqb
       e_sinh e_cosh e_log10 e_log1p e_expm1 e_rpow e_asin e_acos e_asinh e_acosh
       e_max e_min e_sqr e_e e_sign e_Z e_sum e_dot];
  unfold Q2R; cbn [Qnum Qden inject_Z];
  unfold tanh, sinh, cosh.

Ltac expr_interval := expr_reduce; interval.
Ltac expr_interval_prec p := expr_reduce; interval with (i_prec p).

(* domain side conditions of a literal expression at a literal point *)
Ltac expr_dom :=
  expr_reduce;
  repeat match goal with
  | |- _ /\ _ => split
  | |- True => exact I
  | |- (0 <= _)%Z \/ _ => first [ left; lia | right ]
  end;
  try match goal with
  | |- _ <> _ => first [ apply Rgt_not_eq; interval | apply Rlt_not_eq; interval ]
  | |- _ => interval
  end.
