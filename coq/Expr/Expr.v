(* Shared deep-embedded expression language over the reals (used by C14, C25, C30, C26, C34,
   C12, C16).  DEFINITIONS ONLY; the proofs are in Expr/ExprProofs.v.

   Interface (kept stable):
     expr                       syntax: variables (nat indices), rational constants, PI, + - * /,
                                integer power, exp ln sqrt sin cos tan tanh atan abs
     env := nat -> R            upd rho x t, env_of_list
     evalR  : env -> expr -> R                  real semantics (Coq standard-library functions)
     evalQ  : (nat -> Q) -> expr -> option Q    executable rational twin on the polynomial /
                                                rational / abs fragment (None elsewhere and on
                                                division by zero)
     D      : nat -> expr -> expr               symbolic partial derivative w.r.t. variable x
     defined rho e : Prop       every partial operation is used inside its mathematical domain
     smooth  rho e : Prop       ... and inside its domain of differentiability
     derived forms (macros)     e_sinh e_cosh e_log10 e_log1p e_expm1 e_rpow e_asin e_acos
                                e_asinh e_acosh e_max e_min e_sqr e_Z e_e e_sign
   ExprProofs.v:  D_correct, evalQ_sound, smooth_defined, evalR_ext, macro lemmas,
                  tactics expr_reduce / expr_interval for `interval`-checked numeric goals. *)
From Coq Require Import Reals QArith Qabs Qpower Qreals ZArith List Bool.
Import ListNotations.

Inductive expr : Type :=
| EVar  (i : nat)
| ECst  (q : Q)
| EPi
| ENeg  (a : expr)
| EAdd  (a b : expr)
| ESub  (a b : expr)
| EMul  (a b : expr)
| EDiv  (a b : expr)
| EPow  (a : expr) (n : Z)
| EExp  (a : expr)
| ELn   (a : expr)
| ESqrt (a : expr)
| ESin  (a : expr)
| ECos  (a : expr)
| ETan  (a : expr)
| ETanh (a : expr)
| EAtan (a : expr)
| EAbs  (a : expr).

Definition env := nat -> R.

Definition upd (rho : env) (x : nat) (t : R) : env :=
  fun y => if Nat.eqb y x then t else rho y.

Definition env_of_list (l : list R) : env := fun i => nth i l 0%R.
Definition envQ_of_list (l : list Q) : nat -> Q := fun i => nth i l 0%Q.
Definition env_of_Q (rq : nat -> Q) : env := fun i => Q2R (rq i).

(* ---------------------------------------------------------------- real semantics *)

Fixpoint evalR (rho : env) (e : expr) : R :=
  match e with
  | EVar i   => rho i
  | ECst q   => Q2R q
  | EPi      => PI
  | ENeg a   => (- evalR rho a)%R
  | EAdd a b => (evalR rho a + evalR rho b)%R
  | ESub a b => (evalR rho a - evalR rho b)%R
  | EMul a b => (evalR rho a * evalR rho b)%R
  | EDiv a b => (evalR rho a / evalR rho b)%R
  | EPow a n => powerRZ (evalR rho a) n
  | EExp a   => exp (evalR rho a)
  | ELn a    => ln (evalR rho a)
  | ESqrt a  => sqrt (evalR rho a)
  | ESin a   => sin (evalR rho a)
  | ECos a   => cos (evalR rho a)
  | ETan a   => tan (evalR rho a)
  | ETanh a  => tanh (evalR rho a)
  | EAtan a  => atan (evalR rho a)
  | EAbs a   => Rabs (evalR rho a)
  end.

(* ---------------------------------------------------------------- domains *)

(* The value denoted is the intended mathematical one (Coq's functions are total; outside
   these conditions they return conventional values that no implementation computes). *)
Fixpoint defined (rho : env) (e : expr) : Prop :=
  match e with
  | EVar _ | ECst _ | EPi => True
  | ENeg a | EExp a | ESin a | ECos a | ETanh a | EAtan a | EAbs a => defined rho a
  | EAdd a b | ESub a b | EMul a b => defined rho a /\ defined rho b
  | EDiv a b => defined rho a /\ defined rho b /\ evalR rho b <> 0%R
  | EPow a n => defined rho a /\ ((0 <= n)%Z \/ evalR rho a <> 0%R)
  | ELn a    => defined rho a /\ (0 < evalR rho a)%R
  | ESqrt a  => defined rho a /\ (0 <= evalR rho a)%R
  | ETan a   => defined rho a /\ cos (evalR rho a) <> 0%R
  end.

(* Differentiable at rho (in every variable): additionally sqrt away from 0, abs away from
   its kink. *)
Fixpoint smooth (rho : env) (e : expr) : Prop :=
  match e with
  | EVar _ | ECst _ | EPi => True
  | ENeg a | EExp a | ESin a | ECos a | ETanh a | EAtan a => smooth rho a
  | EAdd a b | ESub a b | EMul a b => smooth rho a /\ smooth rho b
  | EDiv a b => smooth rho a /\ smooth rho b /\ evalR rho b <> 0%R
  | EPow a n => smooth rho a /\ ((0 <= n)%Z \/ evalR rho a <> 0%R)
  | ELn a    => smooth rho a /\ (0 < evalR rho a)%R
  | ESqrt a  => smooth rho a /\ (0 < evalR rho a)%R
  | ETan a   => smooth rho a /\ cos (evalR rho a) <> 0%R
  | EAbs a   => smooth rho a /\ evalR rho a <> 0%R
  end.

(* ---------------------------------------------------------------- executable rational twin *)

Definition Qzero (q : Q) : bool := Z.eqb (Qnum q) 0.

Definition obind {A B} (o : option A) (f : A -> option B) : option B :=
  match o with Some a => f a | None => None end.

Definition olift2 (f : Q -> Q -> Q) (x y : option Q) : option Q :=
  match x, y with Some a, Some b => Some (f a b) | _, _ => None end.

Fixpoint evalQ (rq : nat -> Q) (e : expr) : option Q :=
  match e with
  | EVar i   => Some (rq i)
  | ECst q   => Some q
  | ENeg a   => option_map Qopp (evalQ rq a)
  | EAdd a b => olift2 Qplus (evalQ rq a) (evalQ rq b)
  | ESub a b => olift2 Qminus (evalQ rq a) (evalQ rq b)
  | EMul a b => olift2 Qmult (evalQ rq a) (evalQ rq b)
  | EDiv a b =>
      match evalQ rq a, evalQ rq b with
      | Some u, Some v => if Qzero v then None else Some (u / v)%Q
      | _, _ => None
      end
  | EPow a n =>
      match evalQ rq a with
      | Some u => if (n <? 0)%Z && Qzero u then None else Some (Qpower u n)
      | None => None
      end
  | EAbs a   => option_map Qabs (evalQ rq a)
  | EPi | EExp _ | ELn _ | ESqrt _ | ESin _ | ECos _ | ETan _ | ETanh _ | EAtan _ => None
  end.

(* syntactic membership in the fragment on which evalQ can answer *)
Fixpoint rational_fragment (e : expr) : bool :=
  match e with
  | EVar _ | ECst _ => true
  | ENeg a | EAbs a | EPow a _ => rational_fragment a
  | EAdd a b | ESub a b | EMul a b | EDiv a b => rational_fragment a && rational_fragment b
  | _ => false
  end.

(* ---------------------------------------------------------------- symbolic derivative *)

Definition e_Z (n : Z) : expr := ECst (inject_Z n).

Fixpoint D (x : nat) (e : expr) : expr :=
  match e with
  | EVar i   => if Nat.eqb i x then ECst 1 else ECst 0
  | ECst _   => ECst 0
  | EPi      => ECst 0
  | ENeg a   => ENeg (D x a)
  | EAdd a b => EAdd (D x a) (D x b)
  | ESub a b => ESub (D x a) (D x b)
  | EMul a b => EAdd (EMul (D x a) b) (EMul a (D x b))
  | EDiv a b => EDiv (ESub (EMul (D x a) b) (EMul a (D x b))) (EMul b b)
  | EPow a n => if Z.eqb n 0 then ECst 0
                else EMul (EMul (e_Z n) (EPow a (n - 1))) (D x a)
  | EExp a   => EMul (EExp a) (D x a)
  | ELn a    => EDiv (D x a) a
  | ESqrt a  => EDiv (D x a) (EMul (ECst 2) (ESqrt a))
  | ESin a   => EMul (ECos a) (D x a)
  | ECos a   => ENeg (EMul (ESin a) (D x a))
  | ETan a   => EMul (EAdd (ECst 1) (EPow (ETan a) 2)) (D x a)
  | ETanh a  => EMul (ESub (ECst 1) (EPow (ETanh a) 2)) (D x a)
  | EAtan a  => EDiv (D x a) (EAdd (ECst 1) (EPow a 2))
  | EAbs a   => EMul (EDiv a (EAbs a)) (D x a)
  end.

(* gradient with respect to variables 0 .. n-1 *)
Definition grad (n : nat) (e : expr) : list expr := map (fun x => D x e) (seq 0 n).

(* Light algebraic clean-up of the 0/1 constants that D introduces (semantics preserving
   without side conditions: see simp_correct). *)
Definition is_cst (e : expr) (z : Z) : bool :=
  match e with ECst q => Qeq_bool q (inject_Z z) | _ => false end.

Definition mk_add (a b : expr) : expr :=
  if is_cst a 0 then b else if is_cst b 0 then a else EAdd a b.
Definition mk_sub (a b : expr) : expr :=
  if is_cst b 0 then a else if is_cst a 0 then ENeg b else ESub a b.
Definition mk_mul (a b : expr) : expr :=
  if is_cst a 0 then ECst 0 else if is_cst b 0 then ECst 0
  else if is_cst a 1 then b else if is_cst b 1 then a else EMul a b.
Definition mk_neg (a : expr) : expr := if is_cst a 0 then ECst 0 else ENeg a.
Definition mk_div (a b : expr) : expr := if is_cst a 0 then ECst 0 else EDiv a b.

Fixpoint simp (e : expr) : expr :=
  match e with
  | EVar _ | ECst _ | EPi => e
  | ENeg a   => mk_neg (simp a)
  | EAdd a b => mk_add (simp a) (simp b)
  | ESub a b => mk_sub (simp a) (simp b)
  | EMul a b => mk_mul (simp a) (simp b)
  | EDiv a b => mk_div (simp a) (simp b)
  | EPow a n => EPow (simp a) n
  | EExp a   => EExp (simp a)
  | ELn a    => ELn (simp a)
  | ESqrt a  => ESqrt (simp a)
  | ESin a   => ESin (simp a)
  | ECos a   => ECos (simp a)
  | ETan a   => ETan (simp a)
  | ETanh a  => ETanh (simp a)
  | EAtan a  => EAtan (simp a)
  | EAbs a   => EAbs (simp a)
  end.

(* ---------------------------------------------------------------- derived forms *)

Definition e_sqr (a : expr) : expr := EPow a 2.
Definition e_e : expr := EExp (ECst 1).
Definition e_sinh (a : expr) : expr := EDiv (ESub (EExp a) (EExp (ENeg a))) (ECst 2).
Definition e_cosh (a : expr) : expr := EDiv (EAdd (EExp a) (EExp (ENeg a))) (ECst 2).
Definition e_log10 (a : expr) : expr := EDiv (ELn a) (ELn (ECst 10)).
Definition e_log1p (a : expr) : expr := ELn (EAdd (ECst 1) a).
Definition e_expm1 (a : expr) : expr := ESub (EExp a) (ECst 1).
(* a ** b for a > 0 (real exponent) *)
Definition e_rpow (a b : expr) : expr := EExp (EMul b (ELn a)).
(* -1 < a < 1 *)
Definition e_asin (a : expr) : expr := EAtan (EDiv a (ESqrt (ESub (ECst 1) (EPow a 2)))).
Definition e_acos (a : expr) : expr := ESub (EDiv EPi (ECst 2)) (e_asin a).
Definition e_asinh (a : expr) : expr := ELn (EAdd a (ESqrt (EAdd (EPow a 2) (ECst 1)))).
(* 1 <= a (smooth for 1 < a) *)
Definition e_acosh (a : expr) : expr := ELn (EAdd a (ESqrt (ESub (EPow a 2) (ECst 1)))).
Definition e_max (a b : expr) : expr := EDiv (EAdd (EAdd a b) (EAbs (ESub a b))) (ECst 2).
Definition e_min (a b : expr) : expr := EDiv (ESub (EAdd a b) (EAbs (ESub a b))) (ECst 2).
(* a <> 0 *)
Definition e_sign (a : expr) : expr := EDiv a (EAbs a).

(* sums and dot products of lists of expressions *)
Fixpoint e_sum (l : list expr) : expr :=
  match l with
  | [] => ECst 0
  | a :: l' => EAdd a (e_sum l')
  end.

Fixpoint e_dot (u v : list expr) : expr :=
  match u, v with
  | a :: u', b :: v' => EAdd (EMul a b) (e_dot u' v')
  | _, _ => ECst 0
  end.
