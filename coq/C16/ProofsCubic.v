(* C16 -- the natural cubic spline is linear in the table values: the second derivatives come out of the
   tridiagonal forward / reverse pass (InterpCubic.compute_coeffs), whose pivots depend on the grid only. *)
From Coq Require Import ZArith QArith Qabs List Bool Lia Lqa Field Qfield.
From OMV Require Import Base.Val C15.Model C15.Proofs1D C16.Model C16.Linear.
Import ListNotations.
Open Scope Z_scope.
Open Scope Q_scope.

Section Lin.
  Variable a : Q.

  (* u = a*v + w entrywise *)
  Inductive Lin3 : list Q -> list Q -> list Q -> Prop :=
  | Lin3_nil : Lin3 [] [] []
  | Lin3_cons x y z lu lv lw : x == a * y + z -> Lin3 lu lv lw -> Lin3 (x :: lu) (y :: lv) (z :: lw).

  (* pairs (pivot, rhs): same pivot, linear rhs *)
  Inductive Lin3P : list (Q * Q) -> list (Q * Q) -> list (Q * Q) -> Prop :=
  | Lin3P_nil : Lin3P [] [] []
  | Lin3P_cons s x y z lu lv lw : x == a * y + z -> Lin3P lu lv lw ->
                                  Lin3P ((s, x) :: lu) ((s, y) :: lv) ((s, z) :: lw).

  Lemma Lin3_map {A} (f g h : A -> Q) l :
    (forall x, f x == a * g x + h x) -> Lin3 (map f l) (map g l) (map h l).
  Proof. intros H. induction l; simpl; constructor; auto. Qed.

  Lemma Lin3_nth lu lv lw : Lin3 lu lv lw -> forall n, nth n lu 0 == a * nth n lv 0 + nth n lw 0.
  Proof.
    induction 1 as [| x y z lu lv lw Hx H IH]; intros [| n]; simpl; try ring; auto.
  Qed.

  Lemma fwd_lin mus : forall tu tv tw sdp pu pv pw,
    Lin3 tu tv tw -> pu == a * pv + pw ->
    Lin3P (cubic_fwd mus tu sdp pu) (cubic_fwd mus tv sdp pv) (cubic_fwd mus tw sdp pw).
  Proof.
    induction mus as [| mu mus IH]; intros tu tv tw sdp pu pv pw Ht Hp.
    - cbn [cubic_fwd]. constructor.
    - inversion Ht as [| x y z lu lv lw Hx Hl]; subst; cbn [cubic_fwd]; constructor.
      + rewrite !Qred_correct, Hx, Hp. unfold Qdiv. ring.
      + apply IH; auto. rewrite !Qred_correct, Hx, Hp. unfold Qdiv. ring.
  Qed.

  Lemma back_lin lu lv lw : Lin3P lu lv lw -> Lin3 (cubic_back lu) (cubic_back lv) (cubic_back lw).
  Proof.
    unfold cubic_back. induction 1 as [| s x y z lu lv lw Hx H IH]; cbn [fold_right fst snd].
    - constructor; [ring | constructor].
    - constructor; [| exact IH].
      rewrite !Qred_correct, Hx.
      pose proof (Lin3_nth _ _ _ IH O) as H0.
      assert (E : forall l : list Q, hd 0 l = nth 0 l 0) by (intros [| ? ?]; reflexivity).
      rewrite !E, H0. ring.
  Qed.

  Variables (g us vs ws : list Q).
  Hypothesis Hlin : forall k, (0 <= k)%Z -> vq us k == a * vq vs k + vq ws k.

  Lemma qn_lin (i : nat) : qn us i == a * qn vs i + qn ws i.
  Proof. rewrite !qn_vq. apply Hlin. lia. Qed.

  Lemma tmp_lin (i : nat) : cubic_tmp g us i == a * cubic_tmp g vs i + cubic_tmp g ws i.
  Proof.
    unfold cubic_tmp, cubic_vdiff. rewrite !(qn_lin). unfold Qdiv. ring.
  Qed.

  Lemma sd_lin : Lin3 (cubic_sd g us) (cubic_sd g vs) (cubic_sd g ws).
  Proof.
    unfold cubic_sd. constructor; [ring |].
    apply back_lin, fwd_lin; [| ring].
    apply Lin3_map. apply tmp_lin.
  Qed.

  Lemma cubic1_lin3 idx x : cubic1 g idx x us == a * cubic1 g idx x vs + cubic1 g idx x ws.
  Proof.
    unfold cubic1.
    set (i := if (idx =? zlen g - 1)%Z then (idx - 1)%Z else idx).
    destruct (Z_lt_le_dec i 0) as [Hneg | Hpos].
    - (* negative cell index (never produced by the bracket search): Z.to_nat clips to 0 *)
      unfold cub, vq in *.
      pose proof (Lin3_nth _ _ _ sd_lin (Z.to_nat i)) as S0.
      pose proof (Lin3_nth _ _ _ sd_lin (Z.to_nat (i + 1))) as S1.
      pose proof (Hlin 0%Z ltac:(lia)) as H0. change (Z.to_nat 0) with O in H0.
      assert (E0 : Z.to_nat i = O) by lia. rewrite E0 in *.
      destruct (Z_lt_le_dec (i + 1) 0) as [Hn1 | Hp1].
      + assert (E1 : Z.to_nat (i + 1) = O) by lia. rewrite E1 in *.
        rewrite S0, H0. unfold Qdiv. ring.
      + pose proof (Hlin (i + 1)%Z Hp1) as H1. rewrite S0, S1, H0, H1. unfold Qdiv. ring.
    - unfold cub.
      pose proof (Lin3_nth _ _ _ sd_lin (Z.to_nat i)) as S0.
      pose proof (Lin3_nth _ _ _ sd_lin (Z.to_nat (i + 1))) as S1.
      unfold vq at 3 4 7 8 11 12. 
      rewrite (Hlin i Hpos), (Hlin (i + 1)%Z ltac:(lia)).
      unfold vq in S0, S1 |- *. rewrite S0, S1. unfold Qdiv. ring.
  Qed.
End Lin.

Lemma cubic1_linear g idx x : linearL (cubic1 g idx x).
Proof. intros us vs ws a H. now apply cubic1_lin3. Qed.
