(* C16 -- linear functionals of a table (a list used as a vector; entries beyond its length count as 0). *)
From Coq Require Import ZArith QArith List.
From OMV Require Import Base.Val C15.Model.
Open Scope Z_scope.
Open Scope Q_scope.

Definition linearL (L : list Q -> Q) : Prop :=
  forall us vs ws a, (forall k, (0 <= k)%Z -> vq us k == a * vq vs k + vq ws k) ->
                     L us == a * L vs + L ws.
