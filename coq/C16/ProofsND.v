(* C16 -- tables of any dimension: every gradient entry is the formal derivative of the tensor-product
   interpolant with respect to its coordinate, and training_gradients returns the coefficients of the
   interpolant in the table values (induction on the dimension; methods that are linear in the values). *)
From Coq Require Import ZArith QArith Qabs List Bool Lia Lqa Field Qfield.
From OMV Require Import Base.Val C15.Model C15.Proofs1D C15.ProofsBracket C16.Model C16.Linear C16.Proofs.
Import ListNotations.
Open Scope Z_scope.
Open Scope Q_scope.

(* ------------------------------------------------------------------ lists as vectors *)

Fixpoint addl (p q : list Q) : list Q :=
  match p, q with
  | a :: p', b :: q' => (a + b) :: addl p' q'
  | [], _ => q
  | _, [] => p
  end.

Lemma nth_addl p : forall q n, nth n (addl p q) 0 == nth n p 0 + nth n q 0.
Proof.
  induction p as [| a p IH]; intros q n.
  - simpl. destruct n; ring.
  - destruct q as [| b q].
    + simpl addl. destruct n; simpl; ring.
    + destruct n; simpl; [ring | apply IH].
Qed.

Lemma nth_scale a l : forall n, nth n (map (Qmult a) l) 0 == a * nth n l 0.
Proof. induction l as [| x l IH]; intros [| n]; simpl; try ring. apply IH. Qed.

Lemma vq_addl p q k : vq (addl p q) k == vq p k + vq q k.
Proof. unfold vq. apply nth_addl. Qed.

Lemma vq_scale a l k : vq (map (Qmult a) l) k == a * vq l k.
Proof. unfold vq. apply nth_scale. Qed.

(* a linear functional applied to  A0 + c1 A1 + c2 A2 + c3 A3 *)
Lemma linear4 L : linearL L -> forall U A0 A1 A2 A3 c1 c2 c3,
  (forall k, (0 <= k)%Z -> vq U k == vq A0 k + c1 * vq A1 k + c2 * vq A2 k + c3 * vq A3 k) ->
  L U == L A0 + c1 * L A1 + c2 * L A2 + c3 * L A3.
Proof.
  intros HL U A0 A1 A2 A3 c1 c2 c3 H.
  set (P1 := addl (map (Qmult c1) A1) A0).
  set (P2 := addl (map (Qmult c2) A2) P1).
  assert (E1 : L P1 == c1 * L A1 + L A0).
  { apply HL. intros k Hk. unfold P1. rewrite vq_addl, vq_scale. ring. }
  assert (E2 : L P2 == c2 * L A2 + L P1).
  { apply HL. intros k Hk. unfold P2. rewrite vq_addl, vq_scale. ring. }
  assert (E3 : L U == c3 * L A3 + L P2).
  { apply HL. intros k Hk. rewrite (H k Hk). unfold P2, P1. rewrite !vq_addl, !vq_scale. ring. }
  rewrite E3, E2, E1. ring.
Qed.

(* ------------------------------------------------------------------ families of polynomials *)

Lemma vq_cons x l k : (0 <= k)%Z ->
  vq (x :: l) k = if (k =? 0)%Z then x else vq l (k - 1).
Proof.
  intros Hk. unfold vq. destruct (k =? 0)%Z eqn:E.
  - apply Z.eqb_eq in E. subst. reflexivity.
  - apply Z.eqb_neq in E. replace (Z.to_nat k) with (S (Z.to_nat (k - 1))) by lia. reflexivity.
Qed.

Lemma fderiv_family (subs : list tensor) (f d : tensor -> Q -> Q) :
  (forall s, In s subs -> is_fderiv (f s) (d s)) ->
  exists A0 A1 A2 A3, forall t k, (0 <= k)%Z ->
    vq (map (fun s => f s t) subs) k ==
      vq A0 k + t * vq A1 k + (t * t) * vq A2 k + (t * t * t) * vq A3 k /\
    vq (map (fun s => d s t) subs) k ==
      vq A1 k + (2 * t) * vq A2 k + (3 * (t * t)) * vq A3 k + 0 * vq [] k.
Proof.
  induction subs as [| s subs IH]; intros H.
  - exists [], [], [], []. intros t k Hk. unfold vq. simpl. destruct (Z.to_nat k); split; ring.
  - destruct (H s (or_introl eq_refl)) as (a0 & a1 & a2 & a3 & Hs).
    destruct IH as (A0 & A1 & A2 & A3 & HA); [intros s' Hin; apply H; right; exact Hin |].
    exists (a0 :: A0), (a1 :: A1), (a2 :: A2), (a3 :: A3). intros t k Hk.
    cbn [map]. rewrite !vq_cons by auto.
    destruct (k =? 0)%Z eqn:E.
    + destruct (Hs t) as [F D]. split; [rewrite F | rewrite D]; unfold vq; simpl; ring.
    + apply Z.eqb_neq in E. destruct (HA t (k - 1)%Z ltac:(lia)) as [F D]. split; [rewrite F | rewrite D]; ring.
Qed.

(* ------------------------------------------------------------------ the gradient in n dimensions *)

Fixpoint upd (xs : list Q) (j : nat) (t : Q) : list Q :=
  match xs, j with
  | _ :: xs', O => t :: xs'
  | x :: xs', S j' => x :: upd xs' j' t
  | [], _ => []
  end.

Definition gok (m : method) (g : list Q) : Prop := incr g /\ (kmin m <= zlen g)%Z.
Definition iok (g : list Q) (i : Z) : Prop := (0 <= i <= zlen g - 1)%Z.

Lemma linear_smooth m : linear_method m -> smooth_method m.
Proof. intros [-> | [-> | [-> | ->]]]; discriminate. Qed.

(* Every entry of the gradient returned for a table of any dimension is the formal derivative, with
   respect to its own coordinate, of the interpolant as a function of that coordinate (all other
   coordinates, all cells and the table arbitrary). *)
Theorem gradND_is_formal_derivative m : linear_method m -> forall gs idxs xs T j,
  Forall (gok m) gs -> Forall2 iok gs idxs -> length xs = length gs -> (j < length gs)%nat ->
  is_fderiv (fun t => evalND m gs idxs (upd xs j t) T)
            (fun t => nth j (gradND m gs idxs (upd xs j t) T) 0).
Proof.
  intros Hm. induction gs as [| g gs IH]; intros idxs xs T j Hg Hi Hx Hj; [simpl in Hj; lia |].
  inversion Hg as [| ? ? [Hg1 Hg1'] Hg2]; subst. inversion Hi as [| ? i ? is' Hi1 Hi2]; subst.
  destruct xs as [| x xs']; [discriminate |]. simpl in Hx. injection Hx as Hx.
  destruct j as [| j'].
  - cbn [upd].
    eapply is_fderiv_ext; [| | apply (grad_head_is_formal_derivative m g gs i is' xs' T);
                               auto using linear_smooth].
    + intros t. reflexivity.
    + intros t. cbn [gradND nth hd]. reflexivity.
  - simpl in Hj. assert (Hj' : (j' < length gs)%nat) by lia.
    cbn [upd].
    destruct (fderiv_family (children T)
                (fun s t => evalND m gs is' (upd xs' j' t) s)
                (fun s t => nth j' (gradND m gs is' (upd xs' j' t) s) 0))
      as (A0 & A1 & A2 & A3 & HA).
    { intros s _. apply IH; auto. }
    assert (HL : linearL (interp1 m g i x)).
    { apply interp1_linear; auto. unfold iok in Hi1. lia. }
    exists (interp1 m g i x A0), (interp1 m g i x A1), (interp1 m g i x A2), (interp1 m g i x A3).
    intros t. split.
    + cbn [evalND].
      rewrite (linear4 _ HL _ A0 A1 A2 A3 t (t * t) (t * t * t)); [ring |].
      intros k Hk. destruct (HA t k Hk) as [F _]. rewrite F. ring.
    + cbn [gradND nth].
      rewrite nth_map_seq by auto. rewrite map_map.
      rewrite (linear4 _ HL _ A1 A2 A3 [] (2 * t) (3 * (t * t)) 0).
      * ring.
      * intros k Hk. destruct (HA t k Hk) as [_ D]. rewrite D. ring.
Qed.

(* ------------------------------------------------------------------ training gradients in n dimensions *)

Lemma dotq_app l1 : forall r1 l2 r2, length l1 = length r1 ->
  dotq (l1 ++ l2) (r1 ++ r2) == dotq l1 r1 + dotq l2 r2.
Proof.
  induction l1 as [| a l1 IH]; intros [| b r1] l2 r2 H; simpl in *; try discriminate; [ring |].
  rewrite IH by lia. ring.
Qed.

Lemma dotq_scaled a W : forall r, dotq (map (fun w => Qred (a * w)) W) r == a * dotq W r.
Proof.
  induction W as [| w W IH]; intros [| v r]; cbn [map dotq]; try ring.
  rewrite Qred_correct, IH. ring.
Qed.

Lemma flat_map_flat_map {A B C} (f : B -> list C) (g : A -> list B) l :
  flat_map f (flat_map g l) = flat_map (fun x => flat_map f (g x)) l.
Proof. induction l as [| a l IH]; simpl; [reflexivity |]. now rewrite flat_map_app, IH. Qed.

Lemma tflat_children Ts : (forall T, In T Ts -> exists l, T = Node l) ->
  flat_map tflat Ts = flat_map tflat (flat_map children Ts).
Proof.
  induction Ts as [| T Ts IH]; intros H; [reflexivity |].
  destruct (H T (or_introl eq_refl)) as (l & ->).
  cbn [flat_map children]. rewrite flat_map_app, <- IH; [reflexivity |].
  intros T' Hin. apply H. now right.
Qed.

Lemma weights1_length m g x : length (weights1 m g x) = length g.
Proof. unfold weights1. now rewrite map_length, seq_length. Qed.

(* blocks: acc x W against the concatenated sub-table values *)
Lemma block_dot (W : list Q) (e : tensor -> Q) (h : tensor -> Q) : forall acc Ts,
  length Ts = length acc ->
  (forall T, In T Ts -> length (children T) = length W /\ dotq W (map e (children T)) == h T) ->
  dotq (flat_map (fun a => map (fun w => Qred (a * w)) W) acc) (map e (flat_map children Ts))
  == dotq acc (map h Ts).
Proof.
  induction acc as [| a acc IH]; intros [| T Ts] Hl H; simpl in Hl; try discriminate; [reflexivity |].
  destruct (H T (or_introl eq_refl)) as [HT1 HT2].
  cbn [flat_map map dotq]. rewrite map_app.
  rewrite dotq_app by (rewrite !map_length; lia).
  rewrite dotq_scaled, HT2, IH; [ring | lia |].
  intros T' Hin. apply H. now right.
Qed.

Lemma block_lengths (W : list Q) : forall acc Ts,
  length Ts = length acc -> (forall T, In T Ts -> length (children T) = length W) ->
  length (flat_map children Ts) = length (flat_map (fun a => map (fun w => Qred (a * w)) W) acc).
Proof.
  induction acc as [| a acc IH]; intros [| T Ts] Hl H; simpl in Hl; try discriminate; [reflexivity |].
  cbn [flat_map]. rewrite !app_length, map_length, (H T (or_introl eq_refl)).
  rewrite (IH Ts); [reflexivity | lia |]. intros T' Hin. apply H. now right.
Qed.

Definition zeros (gs : list (list Q)) : list Z := map (fun _ => 0%Z) gs.

Lemma train_flat_dot m : linear_method m -> forall gs xs acc Ts,
  Forall (gok m) gs -> length xs = length gs -> length Ts = length acc -> Forall (shaped gs) Ts ->
  dotq (train_flat m gs xs acc) (flat_map tflat Ts)
  == dotq acc (map (evalND m gs (brackets gs (zeros gs) xs) xs) Ts).
Proof.
  intros Hm. induction gs as [| g gs IH]; intros xs acc Ts Hg Hx Hl Hs.
  - destruct xs; [| discriminate]. cbn [train_flat brackets zeros map].
    revert acc Hl. induction Ts as [| T Ts IHT]; intros [| a acc] Hl; simpl in Hl; try discriminate; [reflexivity |].
    inversion Hs as [| ? ? [q ->] Hs']; subst. cbn [flat_map tflat app map dotq evalND leafval].
    rewrite IHT; auto. reflexivity.
  - inversion Hg as [| ? ? [Hg1 Hg1'] Hg2]; subst.
    destruct xs as [| x xs']; [discriminate |]. simpl in Hx. injection Hx as Hx.
    cbn [train_flat zeros map brackets].
    fold (zeros gs).
    set (idx0 := fst (bracket g 0 x)).
    assert (Hnode : forall T, In T Ts -> exists l, T = Node l /\ length l = length g /\ Forall (shaped gs) l).
    { intros T Hin. rewrite Forall_forall in Hs. exact (Hs T Hin). }
    rewrite tflat_children by (intros T Hin; destruct (Hnode T Hin) as (l & -> & _); eauto).
    rewrite (IH xs' (flat_map (fun a => map (fun w => Qred (a * w)) (weights1 m g x)) acc)
                (flat_map children Ts)); auto.
    + (* blocks *)
      apply block_dot; auto.
      intros T Hin. destruct (Hnode T Hin) as (l & -> & Hlen & Hall). cbn [children].
      split; [now rewrite weights1_length |].
      cbn [evalND children]. symmetry.
      apply weights1_are_coefficients; auto.
      * assert (H2 : (2 <= zlen g)%Z) by (destruct m; simpl in Hg1'; lia).
        assert (R : (0 <= 0 <= zlen g - 1)%Z) by lia.
        pose proof (bracket_spec g 0 x Hg1 H2 R) as B. cbv zeta in B.
        destruct B as [(F & I & X) | [(F & I & X) | (F & I & X)]]; lia.
      * now rewrite map_length.
    + (* lengths *)
      apply block_lengths; auto.
      intros T Hin. destruct (Hnode T Hin) as (l & -> & Hlen & _). cbn [children]. now rewrite weights1_length.
    + (* shapes *)
      apply Forall_forall. intros s Hin. apply in_flat_map in Hin. destruct Hin as (T & HT & Hs').
      destruct (Hnode T HT) as (l & -> & _ & Hall). rewrite Forall_forall in Hall. apply Hall. exact Hs'.
Qed.

(* InterpND.training_gradients (outer products of the one-dimensional unit-table evaluations, each with a
   fresh bracket search) returns the coefficients of the interpolant in the table values, in any dimension. *)
Theorem training_gradients_are_coefficients m gs xs T :
  linear_method m -> Forall (gok m) gs -> length xs = length gs -> shaped gs T ->
  evalND m gs (brackets gs (zeros gs) xs) xs T == dotq (train_flat m gs xs [1]) (tflat T).
Proof.
  intros Hm Hg Hx Hs.
  pose proof (train_flat_dot m Hm gs xs [1] [T] Hg Hx eq_refl (Forall_cons _ Hs (Forall_nil _))) as E.
  cbn [flat_map map dotq] in E. rewrite app_nil_r in E. rewrite E. ring.
Qed.
