(* C16 -- the derivative formulas are the formal derivatives of the cell polynomials; the interpolant is
   linear in the table values and the values on unit tables (what InterpND.training_gradients computes) are
   its coefficients. *)
From Coq Require Import ZArith QArith Qabs List Bool Lia Lqa Field Qfield.
From OMV Require Import Base.Val C15.Model C15.Proofs1D C16.Model C16.Linear C16.ProofsCubic.
Import ListNotations.
Open Scope Z_scope.
Open Scope Q_scope.

(* d is the formal derivative of the polynomial f (degree <= 3) *)
Definition is_fderiv (f d : Q -> Q) : Prop :=
  exists a0 a1 a2 a3, forall x,
      f x == a0 + a1 * x + a2 * (x * x) + a3 * (x * x * x) /\
      d x == a1 + 2 * a2 * x + 3 * a3 * (x * x).

(* witnesses from the functions themselves: a0 = f 0, a1 = d 0, a2, a3 from f 1 and f (-1) *)
Ltac fderiv_witness f d :=
  exists (f 0), (d 0), ((f 1 + f (-1)) / 2 - f 0), ((f 1 - f (-1)) / 2 - d 0).

Lemma slin_fderiv p0 p1 v0 v1 : ~ p1 - p0 == 0 ->
  is_fderiv (slin p0 p1 v0 v1) (dslin p0 p1 v0 v1).
Proof.
  intros N. fderiv_witness (slin p0 p1 v0 v1) (dslin p0 p1 v0 v1).
  intros x. unfold slin, dslin. split; field; auto.
Qed.

Lemma lag2_fderiv p1 p2 p3 v1 v2 v3 :
  ~ p1 - p2 == 0 -> ~ p1 - p3 == 0 -> ~ p2 - p3 == 0 ->
  is_fderiv (lag2 p1 p2 p3 v1 v2 v3) (dlag2 p1 p2 p3 v1 v2 v3).
Proof.
  intros N12 N13 N23. fderiv_witness (lag2 p1 p2 p3 v1 v2 v3) (dlag2 p1 p2 p3 v1 v2 v3).
  intros x. unfold lag2, dlag2. split; field; auto.
Qed.

Lemma lag3_fderiv p1 p2 p3 p4 v1 v2 v3 v4 :
  ~ p1 - p2 == 0 -> ~ p1 - p3 == 0 -> ~ p1 - p4 == 0 ->
  ~ p2 - p3 == 0 -> ~ p2 - p4 == 0 -> ~ p3 - p4 == 0 ->
  is_fderiv (lag3 p1 p2 p3 p4 v1 v2 v3 v4) (dlag3 p1 p2 p3 p4 v1 v2 v3 v4).
Proof.
  intros N12 N13 N14 N23 N24 N34.
  fderiv_witness (lag3 p1 p2 p3 p4 v1 v2 v3 v4) (dlag3 p1 p2 p3 p4 v1 v2 v3 v4).
  intros x. unfold lag3, dlag3. split; field; auto 10.
Qed.

Lemma cub_fderiv p0 p1 v0 v1 s0 s1 : ~ p1 - p0 == 0 ->
  is_fderiv (cub p0 p1 v0 v1 s0 s1) (dcub p0 p1 v0 v1 s0 s1).
Proof.
  intros N. fderiv_witness (cub p0 p1 v0 v1 s0 s1) (dcub p0 p1 v0 v1 s0 s1).
  intros x. unfold cub, dcub. split; field; auto.
Qed.

(* akima: for a fixed cell (extrapolation state and end slopes b, bp1 do not depend on x) *)
Lemma akima_fderiv extrap p0 p1 pf v3 v4 m3 b bp1 : ~ p1 - p0 == 0 ->
  is_fderiv (akima_poly extrap p0 p1 pf v3 v4 m3 b bp1) (dakima_poly extrap p0 p1 pf v3 v4 m3 b bp1).
Proof.
  intros N.
  fderiv_witness (akima_poly extrap p0 p1 pf v3 v4 m3 b bp1) (dakima_poly extrap p0 p1 pf v3 v4 m3 b bp1).
  intros x. unfold akima_poly, dakima_poly.
  destruct (extrap =? 0)%Z; [| destruct (extrap =? 1)%Z]; split; field; auto.
Qed.

Lemma is_fderiv_ext f d f' d' :
  (forall x, f' x == f x) -> (forall x, d' x == d x) -> is_fderiv f d -> is_fderiv f' d'.
Proof.
  intros Hf Hd (a0 & a1 & a2 & a3 & H). exists a0, a1, a2, a3. intros x.
  destruct (H x) as [H1 H2]. rewrite Hf, Hd. auto.
Qed.

(* the derivative returned for coordinate 0 of a table of any dimension, for a fixed cell, as a function of
   the query coordinate: slinear, lagrange2, lagrange3, cubic *)
Definition smooth_method (m : method) : Prop := m <> Akima.

Theorem d1_is_formal_derivative m g idx vs :
  smooth_method m -> incr g -> (kmin m <= zlen g)%Z -> (0 <= idx <= zlen g - 1)%Z ->
  is_fderiv (fun x => interp1 m g idx x vs) (fun x => d1 m g idx x vs).
Proof.
  intros Hm Hg Hn Hi. destruct m; simpl in Hn; try (exfalso; apply Hm; reflexivity).
  - set (i := if (idx =? zlen g - 1)%Z then (idx - 1)%Z else idx).
    assert (Ri : (0 <= i)%Z /\ (i + 1 < zlen g)%Z) by (unfold i; destruct (idx =? zlen g - 1)%Z eqn:E; lia).
    assert (gq g i < gq g (i + 1)) by (apply Hg; lia).
    eapply is_fderiv_ext; [| | apply (slin_fderiv (gq g i) (gq g (i + 1)) (vq vs i) (vq vs (i + 1))); lra].
    + intros x. unfold interp1, slinear1. fold i. apply Qred_correct.
    + intros x. unfold d1. fold i. apply Qred_correct.
  - pose (i := l2idx g idx).
    assert (Ri : (0 <= i)%Z /\ (i + 2 < zlen g)%Z) by (unfold i, l2idx; destruct (idx >? zlen g - 3)%Z eqn:E; lia).
    destruct (l2_sep g i Hg (proj1 Ri) (proj2 Ri)) as (N12 & N13 & N23).
    eapply is_fderiv_ext; [| | apply (lag2_fderiv (gq g i) (gq g (i + 1)) (gq g (i + 2))
                                                   (vq vs i) (vq vs (i + 1)) (vq vs (i + 2))); auto].
    + intros x. unfold interp1, lagrange2_1. apply Qred_correct.
    + intros x. unfold d1. apply Qred_correct.
  - pose (i := l3idx g idx).
    assert (Ri : (1 <= i)%Z /\ (i + 2 < zlen g)%Z).
    { unfold i, l3idx. destruct (idx >? zlen g - 3)%Z eqn:E; [lia |]. destruct (idx =? 0)%Z eqn:E0; lia. }
    destruct (l3_sep g i Hg (proj1 Ri) (proj2 Ri)) as (N12 & N13 & N14 & N23 & N24 & N34).
    eapply is_fderiv_ext; [| | apply (lag3_fderiv (gq g (i - 1)) (gq g i) (gq g (i + 1)) (gq g (i + 2))
                                                   (vq vs (i - 1)) (vq vs i) (vq vs (i + 1)) (vq vs (i + 2))); auto].
    + intros x. unfold interp1, lagrange3_1. apply Qred_correct.
    + intros x. unfold d1. apply Qred_correct.
  - set (i := if (idx =? zlen g - 1)%Z then (idx - 1)%Z else idx).
    assert (Ri : (0 <= i)%Z /\ (i + 1 < zlen g)%Z) by (unfold i; destruct (idx =? zlen g - 1)%Z eqn:E; lia).
    assert (gq g i < gq g (i + 1)) by (apply Hg; lia).
    eapply is_fderiv_ext; [| | apply (cub_fderiv (gq g i) (gq g (i + 1)) (vq vs i) (vq vs (i + 1))
                                                  (vq (cubic_sd g vs) i) (vq (cubic_sd g vs) (i + 1))); lra].
    + intros x. unfold interp1, cubic1. fold i. apply Qred_correct.
    + intros x. unfold d1. fold i. apply Qred_correct.
Qed.

(* in n dimensions the first gradient entry is that derivative applied to the sub-table values *)
Theorem grad_head_is_formal_derivative m g gs i is' xs T :
  smooth_method m -> incr g -> (kmin m <= zlen g)%Z -> (0 <= i <= zlen g - 1)%Z ->
  is_fderiv (fun x => evalND m (g :: gs) (i :: is') (x :: xs) T)
            (fun x => hd 0 (gradND m (g :: gs) (i :: is') (x :: xs) T)).
Proof.
  intros Hm Hg Hn Hi. cbn [evalND gradND hd].
  apply d1_is_formal_derivative; auto.
Qed.

(* ------------------------------------------------------------------ linearity in the table values *)


Lemma slinear1_linear g idx x : linearL (slinear1 g idx x).
Proof.
  intros us vs ws a H. unfold slinear1.
  set (i := if (idx =? zlen g - 1)%Z then (idx - 1)%Z else idx).
  destruct (Z_lt_le_dec i 0) as [Hneg | Hpos].
  - (* negative index (never produced by the bracket search): Z.to_nat clips, treat via k = 0 and i+1 *)
    unfold slin, vq in *. 
    assert (E0 : Z.to_nat i = Z.to_nat 0) by lia. rewrite E0.
    pose proof (H 0%Z ltac:(lia)) as H0.
    destruct (Z_lt_le_dec (i + 1) 0) as [Hn1 | Hp1].
    + assert (E1 : Z.to_nat (i + 1) = Z.to_nat 0) by lia. rewrite E1. rewrite H0. ring.
    + pose proof (H (i + 1)%Z Hp1) as H1. rewrite H0, H1. ring.
  - unfold slin. rewrite (H i Hpos), (H (i + 1)%Z ltac:(lia)). ring.
Qed.

Lemma lagrange2_1_linear g idx x : (3 <= zlen g)%Z -> (0 <= idx)%Z -> linearL (lagrange2_1 g idx x).
Proof.
  intros Hn Hi us vs ws a H. unfold lagrange2_1. fold (l2idx g idx).
  assert (R : (0 <= l2idx g idx)%Z) by (unfold l2idx; destruct (idx >? zlen g - 3)%Z; lia).
  unfold lag2. rewrite (H _ R), (H (l2idx g idx + 1)%Z ltac:(lia)), (H (l2idx g idx + 2)%Z ltac:(lia)).
  unfold Qdiv. ring.
Qed.

Lemma lagrange3_1_linear g idx x : (4 <= zlen g)%Z -> (0 <= idx)%Z -> linearL (lagrange3_1 g idx x).
Proof.
  intros Hn Hi us vs ws a H. unfold lagrange3_1. fold (l3idx g idx).
  assert (R : (1 <= l3idx g idx)%Z).
  { unfold l3idx. destruct (idx >? zlen g - 3)%Z; [lia |]. destruct (idx =? 0)%Z eqn:E0; lia. }
  unfold lag3.
  rewrite (H (l3idx g idx - 1)%Z ltac:(lia)), (H (l3idx g idx) ltac:(lia)),
    (H (l3idx g idx + 1)%Z ltac:(lia)), (H (l3idx g idx + 2)%Z ltac:(lia)).
  ring.
Qed.

(* pointwise facts about lists used as vectors *)
Lemma nth_map_seq (f : nat -> Q) n j : (j < n)%nat -> nth j (map f (seq 0 n)) 0 = f j.
Proof.
  intros H. rewrite (nth_indep _ 0 (f O)) by (rewrite map_length, seq_length; lia).
  rewrite (map_nth f (seq 0 n) O j). now rewrite seq_nth by lia.
Qed.

Lemma vq_unitn n s k : (s < n)%nat -> (0 <= k)%Z ->
  vq (unitn n s) k = if (Z.to_nat k =? s)%nat then 1 else 0.
Proof.
  intros Hs Hk. unfold vq, unitn.
  destruct (Nat.ltb_spec (Z.to_nat k) n) as [L | L].
  - now rewrite nth_map_seq by lia.
  - rewrite nth_overflow by (rewrite map_length, seq_length; lia).
    destruct (Nat.eqb_spec (Z.to_nat k) s); [lia | reflexivity].
Qed.

Lemma nth_zeros_app s (l : list Q) j :
  nth j (repeat 0 s ++ l) 0 = if (j <? s)%nat then 0 else nth (j - s) l 0.
Proof.
  destruct (Nat.ltb_spec j s) as [L | L].
  - rewrite app_nth1 by (rewrite repeat_length; lia). apply nth_repeat.
  - rewrite app_nth2 by (rewrite repeat_length; lia). now rewrite repeat_length.
Qed.

Lemma linear_zero L s : linearL L -> L (repeat 0 s) == 0.
Proof.
  intros HL.
  assert (E : L (repeat 0 s) == 1 * L (repeat 0 s) + L (repeat 0 s)).
  { apply HL. intros k Hk. unfold vq. rewrite nth_repeat. ring. }
  lra.
Qed.

(* a linear functional is the dot product of its values on the unit vectors with the argument *)
Lemma linear_decomp_from L n : linearL L -> forall vs s, (s + length vs <= n)%nat ->
  L (repeat 0 s ++ vs) == dotq (map (fun k => L (unitn n k)) (seq s (length vs))) vs.
Proof.
  intros HL. induction vs as [| v vs IH]; intros s Hs.
  - rewrite app_nil_r. simpl. now apply linear_zero.
  - cbn [length seq map dotq]. simpl in Hs.
    rewrite <- (IH (S s)) by lia.
    rewrite (HL (repeat 0 s ++ v :: vs) (unitn n s) (repeat 0 (S s) ++ vs) v); [ring |].
    intros k Hk. rewrite vq_unitn by lia. unfold vq. rewrite !nth_zeros_app.
    destruct (Nat.eqb_spec (Z.to_nat k) s) as [E | E].
    + rewrite E. replace (s <? s)%nat with false by (symmetry; apply Nat.ltb_ge; lia).
      replace (s <? S s)%nat with true by (symmetry; apply Nat.ltb_lt; lia).
      rewrite Nat.sub_diag. simpl. ring.
    + destruct (Nat.ltb_spec (Z.to_nat k) s) as [L1 | L1].
      * replace (Z.to_nat k <? S s)%nat with true by (symmetry; apply Nat.ltb_lt; lia). ring.
      * replace (Z.to_nat k <? S s)%nat with false by (symmetry; apply Nat.ltb_ge; lia).
        replace (Z.to_nat k - s)%nat with (S (Z.to_nat k - S s)) by lia. simpl. ring.
Qed.

Lemma linear_decomp L vs : linearL L ->
  L vs == dotq (map (fun k => L (unitn (length vs) k)) (seq 0 (length vs))) vs.
Proof. intros HL. apply (linear_decomp_from L (length vs) HL vs 0%nat). lia. Qed.

Definition linear_method (m : method) : Prop := m = Slinear \/ m = Lagrange2 \/ m = Lagrange3 \/ m = Cubic.

Lemma interp1_linear m g idx x :
  linear_method m -> (kmin m <= zlen g)%Z -> (0 <= idx)%Z -> linearL (interp1 m g idx x).
Proof.
  intros Hm Hn Hi us vs ws a H. unfold interp1. rewrite !Qred_correct.
  destruct Hm as [-> | [-> | [-> | ->]]]; simpl in Hn.
  - now apply slinear1_linear.
  - now apply lagrange2_1_linear.
  - now apply lagrange3_1_linear.
  - now apply cubic1_linear.
Qed.

(* interp (a*v + w) = a*interp v + interp w *)
Theorem linear_in_values m g idx x us vs ws a :
  linear_method m -> (kmin m <= zlen g)%Z -> (0 <= idx)%Z ->
  (forall k, (0 <= k)%Z -> vq us k == a * vq vs k + vq ws k) ->
  interp1 m g idx x us == a * interp1 m g idx x vs + interp1 m g idx x ws.
Proof. intros Hm Hn Hi H. now apply interp1_linear. Qed.

(* interp v = sum_k (value of the table e_k) * v_k : the value gradient returned by training_gradients
   (one-dimensional factor [weights1]) consists of the coefficients of the interpolant *)
Theorem d_dvalues_are_coefficients m g idx x vs :
  linear_method m -> (kmin m <= zlen g)%Z -> (0 <= idx)%Z -> length vs = length g ->
  interp1 m g idx x vs ==
  dotq (map (fun k => interp1 m g idx x (unitn (length g) k)) (seq 0 (length g))) vs.
Proof.
  intros Hm Hn Hi Hl. rewrite <- Hl. apply linear_decomp. now apply interp1_linear.
Qed.

Corollary weights1_are_coefficients m g x vs :
  linear_method m -> (kmin m <= zlen g)%Z -> (0 <= fst (bracket g 0 x))%Z -> length vs = length g ->
  interp1 m g (fst (bracket g 0 x)) x vs == dotq (weights1 m g x) vs.
Proof. intros. unfold weights1. now apply d_dvalues_are_coefficients. Qed.

(* non-vacuity *)
Example fderiv_example : is_fderiv (fun x => 2 + 3 * x * x) (fun x => 6 * x).
Proof. exists 2, 0, 3, 0. intros x. split; ring. Qed.
