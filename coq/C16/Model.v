(* C16 -- derivatives returned by the table interpolators (openmdao/components/interp_util): executable
   model over Q of
     * the derivative formulas d/dx of InterpLinear / InterpLagrange2 / InterpLagrange3 / InterpCubic /
       InterpAkima.interpolate (one-dimensional cell formulas),
     * the propagation of sub-table derivatives through a dimension (derivs[..., 1:]) for the methods that
       are linear in the table values,
     * InterpND.training_gradients (the table is evaluated on unit vectors, dimension by dimension, and the
       results are combined by outer products).
   Values, bracket search and the n-D recursion are those of C15.Model.  Definitions only. *)
From Coq Require Import ZArith QArith Qabs List Bool.
From OMV Require Import Base.Val C15.Model.
Import ListNotations.
Open Scope Z_scope.
Open Scope Q_scope.

(* ------------------------------------------------------------------ d/dx of the cell formulas *)

Definition dslin (p0 p1 v0 v1 x : Q) : Q := (v1 - v0) * (1 / (p1 - p0)).

Definition dlag2 (p1 p2 p3 v1 v2 v3 x : Q) : Q :=
  let c12 := p1 - p2 in let c13 := p1 - p3 in let c23 := p2 - p3 in
  let q1 := v1 / (c12 * c13) in
  let q2 := v2 / (c12 * c23) in
  let q3 := v3 / (c13 * c23) in
  q1 * (2 * x - p2 - p3) - q2 * (2 * x - p1 - p3) + q3 * (2 * x - p1 - p2).

Definition dlag3 (p1 p2 p3 p4 v1 v2 v3 v4 x : Q) : Q :=
  let c12 := 1 / (p1 - p2) in let c13 := 1 / (p1 - p3) in let c14 := 1 / (p1 - p4) in
  let c23 := 1 / (p2 - p3) in let c24 := 1 / (p2 - p4) in let c34 := 1 / (p3 - p4) in
  let q1 := v1 * (c12 * c13 * c14) in
  let q2 := v2 * (c12 * c23 * c24) in
  let q3 := v3 * (c13 * c23 * c34) in
  let q4 := v4 * (c14 * c24 * c34) in
  q1 * (x * (3 * x - 2 * (p4 + p3 + p2)) + p4 * (p2 + p3) + p2 * p3)
  - q2 * (x * (3 * x - 2 * (p4 + p3 + p1)) + p4 * (p1 + p3) + p1 * p3)
  + q3 * (x * (3 * x - 2 * (p4 + p2 + p1)) + p4 * (p2 + p1) + p2 * p1)
  - q4 * (x * (3 * x - 2 * (p3 + p2 + p1)) + p1 * (p2 + p3) + p2 * p3).

Definition dcub (p0 p1 v0 v1 s0 s1 x : Q) : Q :=
  let step := p1 - p0 in
  let r_step := 1 / step in
  let a := (p1 - x) * r_step in
  let b := (x - p0) * r_step in
  let fact := 1 / 6 in
  r_step * (v1 - v0) + ((3 * b * b - 1) * s1 - (3 * a * a - 1) * s0) * (step * fact).

(* b + dx*(2c + 3 d dx) *)
Definition dakima_poly (extrap : Z) (p0 p1 pfirst v3 v4 m3 b bp1 x : Q) : Q :=
  if (extrap =? 0)%Z then
    let h := 1 / (p1 - p0) in
    let c := (3 * m3 - 2 * b - bp1) * h in
    let d := (b + bp1 - 2 * m3) * h * h in
    let dx := x - p0 in
    b + dx * (2 * c + 3 * d * dx)
  else if (extrap =? 1)%Z then
    let dx := x - p1 in bp1 + dx * (2 * 0 + 3 * 0 * dx)
  else
    let dx := x - pfirst in b + dx * (2 * 0 + 3 * 0 * dx).

Definition d1 (m : method) (g : list Q) (idx : Z) (x : Q) (vs : list Q) : Q :=
  let n := zlen g in
  Qred match m with
  | Slinear =>
      let i := if (idx =? n - 1)%Z then (idx - 1)%Z else idx in
      dslin (gq g i) (gq g (i + 1)) (vq vs i) (vq vs (i + 1)) x
  | Lagrange2 =>
      let i := if (idx >? n - 3)%Z then (n - 3)%Z else idx in
      dlag2 (gq g i) (gq g (i + 1)) (gq g (i + 2)) (vq vs i) (vq vs (i + 1)) (vq vs (i + 2)) x
  | Lagrange3 =>
      let i := if (idx >? n - 3)%Z then (n - 3)%Z else if (idx =? 0)%Z then 1%Z else idx in
      dlag3 (gq g (i - 1)) (gq g i) (gq g (i + 1)) (gq g (i + 2))
            (vq vs (i - 1)) (vq vs i) (vq vs (i + 1)) (vq vs (i + 2)) x
  | Cubic =>
      let i := if (idx =? n - 1)%Z then (idx - 1)%Z else idx in
      let sd := cubic_sd g vs in
      dcub (gq g i) (gq g (i + 1)) (vq vs i) (vq vs (i + 1)) (vq sd i) (vq sd (i + 1)) x
  | Akima =>
      let extrap := if (idx =? n - 1)%Z then 1%Z
                    else if (idx =? 0)%Z && Qltb x (gq g 0) then (-1)%Z else 0%Z in
      let i := if (idx =? n - 1)%Z then (n - 2)%Z else idx in
      dakima_poly extrap (gq g i) (gq g (i + 1)) (gq g 0) (vq vs i) (vq vs (i + 1))
                  (akima_m3 g vs i) (akima_b g vs i) (akima_bp1 g vs i) x
  end.

(* ------------------------------------------------------------------ gradient in n dimensions
   derivs[..., 0] is the cell derivative applied to the sub-table values; derivs[..., 1:] applies this
   dimension's interpolation formula to the sub-table derivatives (slinear, lagrange2, lagrange3 and cubic:
   for cubic the code splines the sub-derivatives with compute_coeffs, which is cubic1 on them). *)
Fixpoint gradND (m : method) (gs : list (list Q)) (idxs : list Z) (xs : list Q) (T : tensor) : list Q :=
  match gs, idxs, xs with
  | g :: gs', i :: is', x :: xs' =>
      let subs := children T in
      let vals := map (evalND m gs' is' xs') subs in
      let grads := map (gradND m gs' is' xs') subs in
      d1 m g i x vals ::
      map (fun j => interp1 m g i x (map (fun gr => nth j gr 0) grads)) (seq 0 (length gs'))
  | _, _, _ => []
  end.

Fixpoint grad_points (m : method) (gs : list (list Q)) (T : tensor) (lasts : list Z)
         (pts : list (list Q)) : list (list Q) :=
  match pts with
  | [] => []
  | xs :: pts' =>
      let idxs := brackets gs lasts xs in
      (evalND m gs idxs xs T :: gradND m gs idxs xs T) :: grad_points m gs T idxs pts'
  end.

(* InterpND.interpolate(x, compute_derivative=True): per point [value; d/dx_0; ...; d/dx_{n-1}] *)
Definition run_grad (m : method) (gs : list (list Q)) (T : tensor) (pts : list (list Q)) : val :=
  VL (map vqs (grad_points m gs T (map (fun _ => 0%Z) gs) pts)).

(* ------------------------------------------------------------------ training gradients *)

Definition unitn (n k : nat) : list Q := map (fun j => if Nat.eqb j k then 1 else 0) (seq 0 n).

(* deriv_i[j] = value of a fresh one-dimensional table with values e_j at pt[i] *)
Definition weights1 (m : method) (g : list Q) (x : Q) : list Q :=
  let idx := fst (bracket g 0 x) in
  map (fun k => interp1 m g idx x (unitn (length g) k)) (seq 0 (length g)).

(* deriv_running = outer(deriv_running, deriv_i), flattened *)
Fixpoint train_flat (m : method) (gs : list (list Q)) (xs : list Q) (acc : list Q) : list Q :=
  match gs, xs with
  | g :: gs', x :: xs' =>
      train_flat m gs' xs' (flat_map (fun a => map (fun w => Qred (a * w)) (weights1 m g x)) acc)
  | _, _ => acc
  end.

Definition run_train (m : method) (gs : list (list Q)) (xs : list Q) : val :=
  vqs (train_flat m gs xs [1]).

(* row-major flattening of a table and the dot product *)
Fixpoint tflat (T : tensor) : list Q :=
  match T with
  | Leaf q => [q]
  | Node l => flat_map tflat l
  end.

Fixpoint dotq (ws vs : list Q) : Q :=
  match ws, vs with
  | w :: ws', v :: vs' => w * v + dotq ws' vs'
  | _, _ => 0
  end.
