(* C16 -- property theorems (statements only). *)
From Coq Require Import ZArith QArith List.
From OMV Require Import Base.Val C15.Model C15.Proofs1D C16.Model C16.Proofs.
Import ListNotations.
Open Scope Z_scope.
Open Scope Q_scope.

(* The derivative returned with respect to the query coordinate is the formal derivative of the cell
   polynomial: slinear, lagrange2, lagrange3 and the natural cubic spline, every strictly increasing grid,
   every cell, every table (as functions of the query coordinate x, all x). *)
Theorem C16_d_dx_is_formal_derivative : forall (m : method) (g : list Q) (idx : Z) (vs : list Q),
  smooth_method m -> incr g -> (kmin m <= zlen g)%Z -> (0 <= idx <= zlen g - 1)%Z ->
  is_fderiv (fun x => interp1 m g idx x vs) (fun x => d1 m g idx x vs).
Proof. exact d1_is_formal_derivative. Qed.
Print Assumptions C16_d_dx_is_formal_derivative.

(* Akima: for a fixed cell (its end slopes b, bp1 and extrapolation state do not depend on x). *)
Theorem C16_akima_d_dx_is_formal_derivative : forall (extrap : Z) (p0 p1 pf v3 v4 m3 b bp1 : Q),
  ~ p1 - p0 == 0 ->
  is_fderiv (akima_poly extrap p0 p1 pf v3 v4 m3 b bp1) (dakima_poly extrap p0 p1 pf v3 v4 m3 b bp1).
Proof. exact akima_fderiv. Qed.
Print Assumptions C16_akima_d_dx_is_formal_derivative.

(* Tables of any dimension: the first gradient entry is the formal derivative with respect to the first
   query coordinate (the remaining coordinates and all cells fixed). *)
Theorem C16_grad_head_partial : forall (m : method) (g : list Q) (gs : list (list Q)) (i : Z) (is' : list Z)
                                  (xs : list Q) (T : tensor),
  smooth_method m -> incr g -> (kmin m <= zlen g)%Z -> (0 <= i <= zlen g - 1)%Z ->
  is_fderiv (fun x => evalND m (g :: gs) (i :: is') (x :: xs) T)
            (fun x => hd 0 (gradND m (g :: gs) (i :: is') (x :: xs) T)).
Proof. exact grad_head_is_formal_derivative. Qed.
Print Assumptions C16_grad_head_partial.

(* The interpolant is linear in the table values ... *)
Theorem C16_linear_in_values : forall (m : method) (g : list Q) (idx : Z) (x : Q) (us vs ws : list Q) (a : Q),
  linear_method m -> (kmin m <= zlen g)%Z -> (0 <= idx)%Z ->
  (forall k, (0 <= k)%Z -> vq us k == a * vq vs k + vq ws k) ->
  interp1 m g idx x us == a * interp1 m g idx x vs + interp1 m g idx x ws.
Proof. exact linear_in_values. Qed.
Print Assumptions C16_linear_in_values.

(* ... and the values on the unit tables (what training_gradients returns) are its coefficients. *)
Theorem C16_d_dvalues_are_coefficients : forall (m : method) (g : list Q) (idx : Z) (x : Q) (vs : list Q),
  linear_method m -> (kmin m <= zlen g)%Z -> (0 <= idx)%Z -> length vs = length g ->
  interp1 m g idx x vs ==
  dotq (map (fun k => interp1 m g idx x (unitn (length g) k)) (seq 0 (length g))) vs.
Proof. exact d_dvalues_are_coefficients. Qed.
Print Assumptions C16_d_dvalues_are_coefficients.

(* Every linear functional of the table is the dot product with its values on the unit vectors (the
   argument used by InterpND.training_gradients for every method). *)
Theorem C16_linear_decomposition : forall (L : list Q -> Q) (vs : list Q),
  linearL L -> L vs == dotq (map (fun k => L (unitn (length vs) k)) (seq 0 (length vs))) vs.
Proof. exact linear_decomp. Qed.
Print Assumptions C16_linear_decomposition.
