(* C16 -- property theorems (statements only). *)
From Coq Require Import ZArith QArith List.
From OMV Require Import Base.Val C15.Model C15.Proofs1D C16.Model C16.Linear C16.Proofs C16.ProofsND.
Import ListNotations.
Open Scope Z_scope.
Open Scope Q_scope.

(* The derivative returned with respect to the query coordinate is the formal derivative of the cell
   polynomial: slinear, lagrange2, lagrange3 and the natural cubic spline, every strictly increasing grid,
   every cell, every table (as functions of the query coordinate x, all x). *)
Theorem C16_d_dx_is_formal_derivative : forall (m : method) (g : list Q) (idx : Z) (vs : list Q),
  smooth_method m -> incr g -> (kmin m <= zlen g)%Z -> (0 <= idx <= zlen g - 1)%Z ->
  is_fderiv (fun x => interp1 m g idx x vs) (fun x => d1 m g idx x vs).
Proof. exact d1_is_formal_derivative. Qed.
Print Assumptions C16_d_dx_is_formal_derivative.

(* Akima: for a fixed cell (its end slopes b, bp1 and extrapolation state do not depend on x). *)
Theorem C16_akima_d_dx_is_formal_derivative : forall (extrap : Z) (p0 p1 pf v3 v4 m3 b bp1 : Q),
  ~ p1 - p0 == 0 ->
  is_fderiv (akima_poly extrap p0 p1 pf v3 v4 m3 b bp1) (dakima_poly extrap p0 p1 pf v3 v4 m3 b bp1).
Proof. exact akima_fderiv. Qed.
Print Assumptions C16_akima_d_dx_is_formal_derivative.

(* Tables of any dimension: the first gradient entry is the formal derivative with respect to the first
   query coordinate (the remaining coordinates and all cells fixed). *)
Theorem C16_grad_head_partial : forall (m : method) (g : list Q) (gs : list (list Q)) (i : Z) (is' : list Z)
                                  (xs : list Q) (T : tensor),
  smooth_method m -> incr g -> (kmin m <= zlen g)%Z -> (0 <= i <= zlen g - 1)%Z ->
  is_fderiv (fun x => evalND m (g :: gs) (i :: is') (x :: xs) T)
            (fun x => hd 0 (gradND m (g :: gs) (i :: is') (x :: xs) T)).
Proof. exact grad_head_is_formal_derivative. Qed.
Print Assumptions C16_grad_head_partial.

(* The interpolant is linear in the table values (slinear, lagrange2, lagrange3 and the natural cubic
   spline, the latter through the tridiagonal forward / reverse pass) ... *)
Theorem C16_linear_in_values : forall (m : method) (g : list Q) (idx : Z) (x : Q) (us vs ws : list Q) (a : Q),
  linear_method m -> (kmin m <= zlen g)%Z -> (0 <= idx)%Z ->
  (forall k, (0 <= k)%Z -> vq us k == a * vq vs k + vq ws k) ->
  interp1 m g idx x us == a * interp1 m g idx x vs + interp1 m g idx x ws.
Proof. exact linear_in_values. Qed.
Print Assumptions C16_linear_in_values.

(* ... and the values on the unit tables (what training_gradients returns) are its coefficients. *)
Theorem C16_d_dvalues_are_coefficients : forall (m : method) (g : list Q) (idx : Z) (x : Q) (vs : list Q),
  linear_method m -> (kmin m <= zlen g)%Z -> (0 <= idx)%Z -> length vs = length g ->
  interp1 m g idx x vs ==
  dotq (map (fun k => interp1 m g idx x (unitn (length g) k)) (seq 0 (length g))) vs.
Proof. exact d_dvalues_are_coefficients. Qed.
Print Assumptions C16_d_dvalues_are_coefficients.

(* Every linear functional of the table is the dot product with its values on the unit vectors (the
   argument used by InterpND.training_gradients for every method). *)
Theorem C16_linear_decomposition : forall (L : list Q -> Q) (vs : list Q),
  linearL L -> L vs == dotq (map (fun k => L (unitn (length vs) k)) (seq 0 (length vs))) vs.
Proof. exact linear_decomp. Qed.
Print Assumptions C16_linear_decomposition.

(* Tables of any dimension (induction on the dimension), slinear / lagrange2 / lagrange3 / cubic: EVERY entry j of
   the returned gradient is the formal derivative of the tensor-product interpolant with respect to
   coordinate j, as a function of that coordinate (other coordinates, cells and table arbitrary). *)
Theorem C16_gradient_is_formal_derivative : forall (m : method), linear_method m ->
  forall (gs : list (list Q)) (idxs : list Z) (xs : list Q) (T : tensor) (j : nat),
  Forall (gok m) gs -> Forall2 iok gs idxs -> length xs = length gs -> (j < length gs)%nat ->
  is_fderiv (fun t => evalND m gs idxs (upd xs j t) T)
            (fun t => nth j (gradND m gs idxs (upd xs j t) T) 0).
Proof. exact gradND_is_formal_derivative. Qed.
Print Assumptions C16_gradient_is_formal_derivative.

(* InterpND.training_gradients in any dimension: the outer product of the one-dimensional unit-table
   evaluations (each with its own fresh bracket search) is the coefficient vector of the interpolant in the
   (row-major flattened) table values. *)
Theorem C16_training_gradients_are_coefficients : forall (m : method) (gs : list (list Q)) (xs : list Q) (T : tensor),
  linear_method m -> Forall (gok m) gs -> length xs = length gs -> shaped gs T ->
  evalND m gs (brackets gs (zeros gs) xs) xs T == dotq (train_flat m gs xs [1]) (tflat T).
Proof. exact training_gradients_are_coefficients. Qed.
Print Assumptions C16_training_gradients_are_coefficients.
