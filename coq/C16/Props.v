From Coq Require Import ZArith QArith List.
From OMV Require Import Base.Val C15.Model C16.Model.
Theorem C16_placeholder : True. Proof. exact I. Qed.
Print Assumptions C16_placeholder.
