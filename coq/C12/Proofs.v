(* C12 — theorems about the regenerated stencil table, the step rules, _run_point, the save/restore
   state machine and coloured vs uncoloured columns. *)
From Coq Require Import ZArith QArith Qabs List String Bool Lia Lqa.
From OMV Require Import C12.GenFDCoeffs C12.Model C12.ProofsPoly.
Import ListNotations.
Open Scope Q_scope.

(* ---------------------------------------------------------------- the regenerated FD_COEFFS table *)

Definition consistentb (f : fdform) : bool :=
  Qeq_bool (moment f 0) 0 && Qeq_bool (moment f 1) 1
  && Nat.eqb (List.length (f_deltas f)) (List.length (f_coeffs f)).

(* the entry labelled (form, order) has vanishing moments 2..order *)
Definition order_okb (e : (string * Z) * fdform) : bool :=
  forallb (fun n => Qeq_bool (moment (snd e) n) 0) (seq 2 (Z.to_nat (snd (fst e)) - 1)).

Definition centralb (e : (string * Z) * fdform) : bool :=
  if String.eqb (fst (fst e)) "central" then Qeq_bool (moment (snd e) 2) 0 else true.

Lemma table_checked :
  forallb (fun e => consistentb (snd e) && order_okb e && centralb e) fd_table = true.
Proof. vm_compute. reflexivity. Qed.

Lemma table_entry : forall k f, In (k, f) fd_table ->
  consistentb f = true /\ order_okb (k, f) = true /\ centralb (k, f) = true.
Proof.
  intros k f H. pose proof table_checked as T. rewrite forallb_forall in T.
  specialize (T _ H). simpl in T. rewrite !andb_true_iff in T. tauto.
Qed.

Lemma stencil_consistent : forall k f, In (k, f) fd_table ->
  moment f 0 == 0 /\ moment f 1 == 1 /\ List.length (f_deltas f) = List.length (f_coeffs f).
Proof.
  intros k f H. destruct (table_entry k f H) as [C _]. unfold consistentb in C.
  rewrite !andb_true_iff in C. destruct C as [[C0 C1] C2].
  apply Qeq_bool_iff in C0. apply Qeq_bool_iff in C1. apply Nat.eqb_eq in C2. auto.
Qed.

Lemma table_consistent : forall k f, In (k, f) fd_table -> consistent f.
Proof. intros k f H. destruct (stencil_consistent k f H) as [A [B _]]. split; assumption. Qed.

Lemma stencil_order : forall form order f n, In ((form, order), f) fd_table ->
  (2 <= n)%nat -> (Z.of_nat n <= order)%Z -> moment f n == 0.
Proof.
  intros form order f n H H2 Hn. destruct (table_entry _ f H) as [_ [O _]].
  unfold order_okb in O. rewrite forallb_forall in O. simpl in O.
  apply Qeq_bool_iff, O, in_seq. lia.
Qed.

Lemma central_second_order : forall order f, In (("central"%string, order), f) fd_table ->
  moment f 2 == 0.
Proof.
  intros order f H. destruct (table_entry _ f H) as [_ [_ Cn]].
  unfold centralb in Cn. simpl in Cn. apply Qeq_bool_iff. exact Cn.
Qed.

Lemma lookup_in : forall tbl form order f, lookup_form tbl form order = Some f ->
  In ((form, order), f) tbl.
Proof.
  induction tbl as [|[[k o] g] t IH]; intros form order f H; simpl in H; [discriminate|].
  destruct (String.eqb k form && Z.eqb o order)%bool eqn:E.
  - apply andb_true_iff in E. destruct E as [E1 E2]. apply String.eqb_eq in E1. apply Z.eqb_eq in E2.
    inversion H; subst. left. reflexivity.
  - right. apply IH. exact H.
Qed.

(* every stencil the code can select: exact on affine functions for every non-zero step *)
Lemma fd_exact_on_affine_table : forall form order f g a0 a1 h,
  generate_fd_coeff form order = Some f ->
  (forall t, g t == a0 + a1 * t) -> ~ h == 0 -> fd_apply f g h == a1.
Proof.
  intros form order f g a0 a1 h L Hg Hh.
  apply (fd_exact_on_affine f g a0 a1 h); auto.
  apply (table_consistent (form, order)), lookup_in, L.
Qed.

(* every stencil labelled with order p is exact on polynomials of degree <= p *)
Lemma fd_exact_to_labelled_order : forall form order f g a h,
  generate_fd_coeff form order = Some f ->
  (Z.of_nat (List.length a) <= order + 1)%Z -> (forall t, g t == peval a t) -> ~ h == 0 ->
  fd_apply f g h == nth 1 a 0.
Proof.
  intros form order f g a h L Hl Hg Hh. apply lookup_in in L.
  apply (fd_exact_up_to_order f g a h (Z.to_nat order)); auto.
  - apply (table_consistent _ _ L).
  - intros k Hk. apply (stencil_order form order f k L); lia.
  - lia.
Qed.

Lemma central_exact_on_quadratic : forall order f g a0 a1 a2 h,
  generate_fd_coeff "central" order = Some f ->
  (forall t, g t == a0 + a1 * t + a2 * t * t) -> ~ h == 0 -> fd_apply f g h == a1.
Proof.
  intros order f g a0 a1 a2 h L Hg Hh. apply lookup_in in L.
  apply (fd_exact_on_quadratic f g a0 a1 a2 h); auto.
  - apply (table_consistent _ _ L).
  - apply (central_second_order order f L).
Qed.

Lemma fd_truncation_table : forall form order f p x h,
  generate_fd_coeff form order = Some f -> ~ h == 0 ->
  fd_apply f (fun t => peval p (x + t)) h ==
  peval (pderiv p) x + h * peval (skipn 2 (fd_series f (pshift p x))) h.
Proof.
  intros form order f p x h L Hh. apply fd_truncation; auto.
  apply (table_consistent (form, order)), lookup_in, L.
Qed.

(* non-vacuity: the three forms are present, with their default orders *)
Example table_has_forms :
  (exists f, generate_fd_coeff "forward" 1 = Some f) /\
  (exists f, generate_fd_coeff "backward" 1 = Some f) /\
  (exists f, generate_fd_coeff "central" 2 = Some f) /\
  resolve_order "forward" None = Some 1%Z /\ resolve_order "backward" None = Some 1%Z /\
  resolve_order "central" None = Some 2%Z.
Proof. repeat split; eexists; reflexivity. Qed.

(* ---------------------------------------------------------------- step rules *)

Lemma Qltb_lt : forall a b, Qltb a b = true <-> a < b.
Proof.
  intros a b. unfold Qltb. rewrite negb_true_iff. split; intro H.
  - apply Qnot_le_lt. intro L. apply Qle_bool_iff in L. congruence.
  - destruct (Qle_bool b a) eqn:E; [|reflexivity]. apply Qle_bool_iff in E.
    exfalso. apply (Qlt_not_le _ _ H E).
Qed.

(* floor_min is the maximum of the computed step and minimum_step *)
Lemma floor_min_spec : forall s m,
  s <= floor_min s m /\ m <= floor_min s m /\ (floor_min s m = s \/ floor_min s m = m).
Proof.
  intros s m. unfold floor_min. destruct (Qltb s m) eqn:E.
  - apply Qltb_lt in E. split; [apply Qlt_le_weak, E|]. split; [apply Qle_refl|right; reflexivity].
  - assert (~ s < m) by (intro L; apply Qltb_lt in L; congruence).
    apply Qnot_lt_le in H. split; [apply Qle_refl|]. split; [exact H|left; reflexivity].
Qed.

Lemma floor_min_pos : forall s m, 0 < m -> 0 < floor_min s m.
Proof.
  intros s m Hm. destruct (floor_min_spec s m) as [_ [H _]]. eapply Qlt_le_trans; eauto.
Qed.

Lemma step_abs : forall s m v, scalar_step SC_abs s m v = Some s.
Proof. reflexivity. Qed.

Lemma step_rel_avg : forall s m v,
  scalar_step SC_rel_avg s m v
  = Some (floor_min (s * (sumabs v / inject_Z (Z.of_nat (List.length v)))) m)
  /\ scalar_step SC_rel s m v = scalar_step SC_rel_avg s m v.
Proof. split; reflexivity. Qed.

Lemma qsqrt_exact_spec : forall q r, qsqrt_exact q = Some r -> r * r == q /\ 0 <= r.
Proof.
  intros q r. unfold qsqrt_exact.
  destruct (Qnum (Qred q) <? 0)%Z eqn:En; [discriminate|].
  destruct ((Z.sqrt (Qnum (Qred q)) * Z.sqrt (Qnum (Qred q)) =? Qnum (Qred q))%Z &&
            (Z.sqrt (Z.pos (Qden (Qred q))) * Z.sqrt (Z.pos (Qden (Qred q))) =? Z.pos (Qden (Qred q)))%Z)%bool
    eqn:E; [|discriminate].
  intro H. inversion H; subst; clear H.
  apply andb_true_iff in E. destruct E as [E1 E2]. apply Z.eqb_eq in E1. apply Z.eqb_eq in E2.
  apply Z.ltb_ge in En.
  set (sn := Z.sqrt (Qnum (Qred q))) in *. set (sd := Z.sqrt (Z.pos (Qden (Qred q)))) in *.
  assert (Hsd : (0 < sd)%Z).
  { assert (0 <= sd)%Z by apply Z.sqrt_nonneg. destruct (Z.eq_dec sd 0) as [Z0|]; [|lia].
    rewrite Z0 in E2. simpl in E2. lia. }
  assert (Hsn : (0 <= sn)%Z) by apply Z.sqrt_nonneg.
  split.
  - transitivity (Qred q); [|apply Qred_correct]. unfold Qeq, Qmult. simpl.
    rewrite Pos2Z.inj_mul. change (Z.pos (Pos.sqrt (Qden (Qred q)))) with sd.
    rewrite E2, E1. reflexivity.
  - unfold Qle. simpl. lia.
Qed.

Lemma step_rel_legacy : forall s m v r, scalar_step SC_rel_legacy s m v = Some r ->
  exists nrm, nrm * nrm == sumsq v /\ 0 <= nrm /\ r = floor_min (s * nrm) m.
Proof.
  intros s m v r H. simpl in H. destruct (qsqrt_exact (sumsq v)) as [nrm|] eqn:E; [|discriminate].
  inversion H; subst. exists nrm. destruct (qsqrt_exact_spec _ _ E). auto.
Qed.

Lemma step_rel_element : forall s m v j,
  nth j (element_steps s m v) (floor_min (Qabs 0 * s) m) = floor_min (Qabs (nth j v 0) * s) m.
Proof. intros. unfold element_steps. apply (map_nth (fun x => floor_min (Qabs x * s) m)). Qed.

(* with a positive minimum_step every relative step is positive (never zero) *)
Lemma rel_steps_positive : forall s m v, 0 < m ->
  Forall (fun x => 0 < x) (element_steps s m v) /\
  (forall r, scalar_step SC_rel_avg s m v = Some r -> 0 < r) /\
  (forall r, scalar_step SC_rel_legacy s m v = Some r -> 0 < r).
Proof.
  intros s m v Hm. repeat split.
  - unfold element_steps. apply Forall_forall. intros x Hx. apply in_map_iff in Hx.
    destruct Hx as [y [<- _]]. apply floor_min_pos, Hm.
  - intros r H. inversion H. apply floor_min_pos, Hm.
  - intros r H. apply step_rel_legacy in H. destruct H as [n [_ [_ ->]]]. apply floor_min_pos, Hm.
Qed.

(* the data handed to _run_point for every scalar step_calc: deltas*h, coeffs/h, current_coeff/h *)
Definition scalar_adata (f : fdform) (s : Q) : adata :=
  mkadata (map (fun d => [d * s]) (f_deltas f)) (map (fun c => [c / s]) (f_coeffs f)) [f_cur f / s].

Lemma approx_data_scalar : forall f sc s m v h, sc <> SC_rel_element ->
  scalar_step sc s m v = Some h -> approx_data f sc s m v = Some (scalar_adata f h).
Proof.
  intros f sc s m v h Hsc H. destruct sc; try congruence; unfold approx_data; rewrite H; reflexivity.
Qed.

(* ---------------------------------------------------------------- _run_point computes fd_apply *)

Lemma nth_vadd : forall a b r, List.length a = List.length b ->
  nth r (vadd a b) 0 == nth r a 0 + nth r b 0.
Proof.
  induction a as [|x a IH]; intros [|y b] r H; simpl in H; try discriminate.
  - destruct r; simpl; ring.
  - destruct r; simpl; [ring|]. apply IH. lia.
Qed.

Lemma nth_vscale : forall c v r, nth r (vscale c v) 0 == nth r v 0 * c.
Proof.
  induction v as [|x v IH]; intros [|r]; simpl; try ring. apply IH.
Qed.

Lemma nth_vzero : forall v r, nth r (vzero v) 0 == 0.
Proof. induction v as [|x v IH]; intros [|r]; simpl; try reflexivity. apply IH. Qed.

Lemma length_vadd : forall a b, List.length a = List.length b -> List.length (vadd a b) = List.length a.
Proof.
  induction a as [|x a IH]; intros [|y b] H; simpl in *; try discriminate; auto.
Qed.

Lemma length_vscale : forall c v, List.length (vscale c v) = List.length v.
Proof. intros. unfold vscale. apply map_length. Qed.

Lemma any_nonzero_single : forall c, any_nonzero [c] = false -> c == 0.
Proof.
  intros c H. unfold any_nonzero in H. simpl in H. rewrite orb_false_r in H.
  apply negb_false_iff in H. apply Qeq_bool_iff. exact H.
Qed.

Section RunPoint.
  Variable G : list Q -> list Q.
  Variable m : nat.
  Hypothesis G_len : forall y, List.length (G y) = m.

  Lemma run_point_fold : forall (x : list Q) (j r : nat) (s : Q) ds cs acc,
    List.length acc = m ->
    nth r (fold_left
             (fun acc dc =>
                vadd acc (vscale (pick false 0 (snd dc)) (G (add_at_all x [j] (pick false 0 (fst dc))))))
             (combine (map (fun d => [d * s]) ds) (map (fun c => [c / s]) cs)) acc) 0
    == nth r acc 0 + fd_points ds cs (fun t => nth r (G (add_at x j t)) 0) s.
  Proof.
    intros x j r s. induction ds as [|d ds IH]; intros [|c cs] acc Hacc; cbn [map combine fold_left fd_points];
      try ring.
    rewrite IH.
    - cbn [pick snd fst nth add_at_all fold_left]. rewrite nth_vadd.
      + rewrite nth_vscale. ring.
      + rewrite length_vscale, G_len. exact Hacc.
    - rewrite length_vadd; [exact Hacc|]. rewrite length_vscale, G_len. exact Hacc.
  Qed.

  (* for every scalar step rule, row r of the column produced by _run_point when entry j is perturbed
     is the FD formula applied to t |-> G_r(x + t e_j) *)
  Lemma run_point_fd_apply : forall (base x : list Q) (j r loc : nat) (f : fdform) (s : Q),
    List.length base = m ->
    nth r base 0 == nth r (G (add_at x j 0)) 0 ->
    nth r (run_point G base x [j] (scalar_adata f s) loc) 0
    == fd_apply f (fun t => nth r (G (add_at x j t)) 0) s.
  Proof.
    intros base x j r loc f s Hb Hbase. unfold run_point, scalar_adata, is_rel_element.
    cbn [a_cur a_deltas a_coeffs List.length Nat.ltb Nat.leb pick nth].
    unfold fd_apply.
    destruct (any_nonzero [f_cur f / s]) eqn:E.
    - rewrite run_point_fold by (rewrite length_vscale; exact Hb).
      rewrite nth_vscale, Hbase. ring.
    - rewrite run_point_fold by (unfold vzero; rewrite map_length; exact Hb).
      rewrite nth_vzero. apply any_nonzero_single in E. rewrite E. ring.
  Qed.
End RunPoint.

(* ---------------------------------------------------------------- save / restore *)

(* after any non-empty sequence of sub-points, whatever the perturbations and whatever the system does
   to the three vectors, they hold the starting values; the empty sequence leaves them untouched *)
Lemma fd_restore_frame : forall start total pts st,
  st = start -> fst (fd_frames start total pts st) = start.
Proof.
  intros start total pts. induction pts as [|[pe ru] t IH]; intros st H; cbn [fd_frames fst snd].
  - exact H.
  - apply IH. unfold fd_sub_point. cbn [fst]. destruct start; reflexivity.
Qed.

Lemma fd_restore_frame_any : forall start total pts st, pts <> [] ->
  fst (fd_frames start total pts st) = start.
Proof.
  intros start total [|[pe ru] t] st H; [congruence|]. cbn [fd_frames fst snd].
  apply fd_restore_frame. unfold fd_sub_point. cbn [fst]. destruct start; reflexivity.
Qed.

Lemma fd_frames_count : forall start total pts st,
  List.length (snd (fd_frames start total pts st)) = List.length pts.
Proof.
  intros start total pts. induction pts as [|[pe ru] t IH]; intros st; cbn [fd_frames fst snd List.length]; auto.
Qed.

Lemma cs_restore_frame : forall saved pts st, cs_frames saved pts st = saved.
Proof. intros. unfold cs_frames. destruct saved; reflexivity. Qed.

(* inside the complex-step loop the inputs are restored by subtraction: exact in Q[i] *)
Lemma cadd_at_undo : forall (x : list C) j d,
  Forall2 ceq (cadd_at (cadd_at x j d) j (csub (cofq 0) d)) x.
Proof.
  induction x as [|a x IH]; intros [|j] d; cbn [cadd_at].
  - constructor.
  - constructor.
  - constructor.
    + unfold ceq, cadd, csub, cofq, cre, cim; destruct a, d; simpl; split; ring.
    + clear. induction x; constructor; [split; reflexivity|assumption].
  - constructor; [split; reflexivity|apply IH].
Qed.

(* ---------------------------------------------------------------- coloured = uncoloured *)

(* G_r does not depend on entry k *)
Definition indep (g : list Q -> Q) (k : nat) : Prop := forall y d, g (add_at y k d) = g y.

Lemma add_at_all_indep : forall (g : list Q -> Q) cols x d,
  (forall k, In k cols -> indep g k) -> g (add_at_all x cols d) = g x.
Proof.
  intros g cols. induction cols as [|k cols IH]; intros x d H; cbn [add_at_all fold_left]; [reflexivity|].
  change (fold_left (fun acc j => add_at acc j d) cols (add_at x k d)) with (add_at_all (add_at x k d) cols d).
  rewrite IH; [apply H; left; reflexivity|]. intros k' Hk'. apply H. right. exact Hk'.
Qed.

Lemma add_at_comm : forall x j k d e, add_at (add_at x j d) k e = add_at (add_at x k e) j d \/ j = k.
Proof.
  induction x as [|a x IH]; intros [|j] [|k] d e; cbn [add_at]; auto.
  destruct (IH j k d e) as [H|H]; [left; rewrite H; reflexivity|right; congruence].
Qed.

(* perturbing a whole colour group is invisible to a row that depends on only one column of it *)
Lemma add_at_all_single : forall (g : list Q -> Q) cols j x d,
  NoDup cols -> In j cols -> (forall k, In k cols -> k <> j -> indep g k) ->
  g (add_at_all x cols d) = g (add_at x j d).
Proof.
  intros g cols. induction cols as [|k cols IH]; intros j x d Hnd Hin Hind; [destruct Hin|].
  inversion Hnd as [|? ? Hk Hnd']; subst.
  cbn [add_at_all fold_left].
  change (fold_left (fun acc j => add_at acc j d) cols (add_at x k d)) with (add_at_all (add_at x k d) cols d).
  destruct Hin as [->|Hin].
  - apply add_at_all_indep. intros k' Hk'. apply Hind; [right; exact Hk'|]. intro; subst; contradiction.
  - rewrite (IH j (add_at x k d) d Hnd' Hin).
    + assert (k <> j) by (intro; subst; contradiction).
      destruct (add_at_comm x k j d d) as [E|E]; [|contradiction]. rewrite E.
      apply Hind; [left; reflexivity|assumption].
    + intros k' Hk' Hne. apply Hind; [right; exact Hk'|exact Hne].
Qed.

Lemma nth_mask_from : forall rows res s r,
  nth r (map (fun ir : nat * Q => if existsb (Nat.eqb (fst ir)) rows then snd ir else 0)
             (combine (seq s (List.length res)) res)) 0
  == if existsb (Nat.eqb (s + r)%nat) rows then nth r res 0 else 0.
Proof.
  intros rows. induction res as [|a res IH]; intros s r; cbn [List.length seq combine map].
  - destruct r; simpl; destruct (existsb _ rows); reflexivity.
  - destruct r as [|r]; cbn [nth fst snd].
    + rewrite Nat.add_0_r. reflexivity.
    + rewrite IH. rewrite Nat.add_succ_r. reflexivity.
Qed.

Lemma nth_mask_rows : forall rows res r,
  nth r (mask_rows rows res) 0 == if existsb (Nat.eqb r) rows then nth r res 0 else 0.
Proof. intros. unfold mask_rows. apply (nth_mask_from rows res 0%nat r). Qed.

Section Colored.
  Variable G : list Q -> list Q.
  Variable m : nat.
  Hypothesis G_len : forall y, List.length (G y) = m.

  Lemma fold_row_ext : forall (x : list Q) cols cols' relel loc r pts acc acc',
    (forall d, nth r (G (add_at_all x cols d)) 0 == nth r (G (add_at_all x cols' d)) 0) ->
    List.length acc = m -> List.length acc' = m -> nth r acc 0 == nth r acc' 0 ->
    nth r (fold_left (fun acc dc =>
             vadd acc (vscale (pick relel loc (snd dc)) (G (add_at_all x cols (pick relel loc (fst dc))))))
             pts acc) 0
    == nth r (fold_left (fun acc dc =>
             vadd acc (vscale (pick relel loc (snd dc)) (G (add_at_all x cols' (pick relel loc (fst dc))))))
             pts acc') 0.
  Proof.
    intros x cols cols' relel loc r pts. induction pts as [|dc pts IH]; intros acc acc' H La La' E;
      cbn [fold_left]; [exact E|].
    apply IH; auto.
    - rewrite length_vadd; auto. rewrite length_vscale, G_len. exact La.
    - rewrite length_vadd; auto. rewrite length_vscale, G_len. exact La'.
    - rewrite !nth_vadd by (rewrite length_vscale, G_len; assumption).
      rewrite !nth_vscale, E, H. reflexivity.
  Qed.

  Lemma run_point_row_ext : forall base x cols cols' a loc r,
    List.length base = m ->
    (forall d, nth r (G (add_at_all x cols d)) 0 == nth r (G (add_at_all x cols' d)) 0) ->
    nth r (run_point G base x cols a loc) 0 == nth r (run_point G base x cols' a loc) 0.
  Proof.
    intros base x cols cols' a loc r Lb H. unfold run_point.
    apply fold_row_ext; auto.
    - destruct (is_rel_element a); [destruct (Qeq_bool _ 0)|destruct (any_nonzero _)];
        unfold vzero; rewrite ?length_vscale, ?map_length; exact Lb.
    - destruct (is_rel_element a); [destruct (Qeq_bool _ 0)|destruct (any_nonzero _)];
        unfold vzero; rewrite ?length_vscale, ?map_length; exact Lb.
    - reflexivity.
  Qed.

  (* One coloured run perturbs every column of the group at once.  For a column j of the group with
     declared nonzero rows [rows]: if every row in [rows] is independent of the other columns of the group
     and every row outside [rows] is independent of column j, then the masked coloured column equals the
     uncoloured column of j, entry by entry (consistent stencil, any non-zero step). *)
  Theorem colored_column_eq_uncolored :
    forall (f : fdform) (s : Q) (base x : list Q) (cols rows : list nat) (j r : nat),
      consistent f -> ~ s == 0 -> List.length base = m ->
      NoDup cols -> In j cols ->
      nth r base 0 == nth r (G (add_at x j 0)) 0 ->
      (forall r', In r' rows -> forall k, In k cols -> k <> j -> indep (fun y => nth r' (G y) 0) k) ->
      (forall r', ~ In r' rows -> indep (fun y => nth r' (G y) 0) j) ->
      nth r (mask_rows rows (run_point G base x cols (scalar_adata f s) 0)) 0
      == nth r (run_point G base x [j] (scalar_adata f s) 0) 0.
  Proof.
    intros f s base x cols rows j r Hc Hs Lb Hnd Hin Hbase Hrows Hout.
    rewrite nth_mask_rows.
    destruct (existsb (Nat.eqb r) rows) eqn:E.
    - apply existsb_exists in E. destruct E as [r' [Hr' Er]]. apply Nat.eqb_eq in Er. subst r'.
      apply run_point_row_ext; auto. intros d.
      cbn [add_at_all fold_left].
      rewrite (add_at_all_single (fun y => nth r (G y) 0) cols j x d Hnd Hin (Hrows r Hr')). reflexivity.
    - assert (Hr : ~ In r rows).
      { intro Hr. assert (existsb (Nat.eqb r) rows = true); [|congruence].
        apply existsb_exists. exists r. split; [exact Hr|apply Nat.eqb_refl]. }
      rewrite (run_point_fd_apply G m G_len base x j r 0 f s Lb Hbase).
      symmetry. apply (fd_exact_on_affine f _ (nth r (G x) 0) 0 s Hc); [|exact Hs].
      intros t. rewrite (Hout r Hr x t). ring.
  Qed.
End Colored.
