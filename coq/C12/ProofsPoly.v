(* C12 — univariate polynomial calculus over Q: FD stencils and the complex step as exact identities. *)
From Coq Require Import ZArith QArith Qabs List Lia Lqa.
From OMV Require Import C12.Model.
Import ListNotations.
Open Scope Q_scope.

(* ---------------------------------------------------------------- basic evaluation lemmas *)

Lemma peval_padd : forall p q t, peval (padd p q) t == peval p t + peval q t.
Proof.
  induction p as [|a p IH]; intros [|b q] t; simpl; try ring.
  rewrite IH. ring.
Qed.

Local Arguments padd : simpl never.

Lemma peval_pscale : forall c p t, peval (pscale c p) t == c * peval p t.
Proof.
  induction p as [|a p IH]; intros t; simpl; try ring.
  unfold pscale in IH. rewrite IH. ring.
Qed.

Lemma peval_0 : forall p, peval p 0 == nth 0 p 0.
Proof. destruct p; simpl; ring. Qed.

Lemma peval_ext : forall p t t', t == t' -> peval p t == peval p t'.
Proof.
  induction p as [|a p IH]; intros t t' H; simpl; [reflexivity|].
  rewrite (IH t t' H), H. reflexivity.
Qed.

Lemma peval_all_zero : forall p t, Forall (fun c => c == 0) p -> peval p t == 0.
Proof.
  induction 1 as [|c p Hc _ IH]; simpl; [reflexivity|]. rewrite Hc, IH. ring.
Qed.

(* ---------------------------------------------------------------- Taylor shift and formal derivative *)

Lemma pshift_eval : forall p x t, peval (pshift p x) t == peval p (x + t).
Proof.
  induction p as [|a p IH]; intros x t; [reflexivity|].
  simpl pshift. rewrite !peval_padd. simpl peval. rewrite peval_pscale, IH. ring.
Qed.

Lemma pshift_coeff0 : forall p x, nth 0 (pshift p x) 0 == peval p x.
Proof.
  intros. rewrite <- peval_0, pshift_eval. apply peval_ext. ring.
Qed.

Lemma nth1_padd : forall p q, nth 1 (padd p q) 0 == nth 1 p 0 + nth 1 q 0.
Proof.
  intros [|a [|a' p]] [|b [|b' q]]; simpl; ring.
Qed.

Lemma nth_pscale : forall c p n, nth n (pscale c p) 0 == c * nth n p 0.
Proof.
  induction p as [|a p IH]; intros [|n]; simpl; try ring. apply IH.
Qed.

Lemma pderiv_from_succ : forall q k x,
  peval (pderiv_from (S k) q) x == peval (pderiv_from k q) x + peval q x.
Proof.
  induction q as [|b q IH]; intros k x; cbn [pderiv_from peval]; [ring|].
  rewrite (IH (S k)). rewrite Nat2Z.inj_succ. unfold Z.succ. rewrite inject_Z_plus. ring.
Qed.

Lemma pderiv_cons : forall a p x,
  peval (pderiv (a :: p)) x == peval p x + x * peval (pderiv p) x.
Proof.
  intros a [|b q] x; cbn [pderiv pderiv_from peval]; [ring|].
  rewrite (pderiv_from_succ q 1). change (inject_Z (Z.of_nat 1)) with 1. ring.
Qed.

Lemma pshift_coeff1 : forall p x, nth 1 (pshift p x) 0 == peval (pderiv p) x.
Proof.
  induction p as [|a p IH]; intros x; [reflexivity|].
  rewrite pderiv_cons. simpl pshift. rewrite !nth1_padd.
  change (nth 1 [a] 0) with 0.
  change (nth 1 (0 :: pshift p x) 0) with (nth 0 (pshift p x) 0).
  rewrite nth_pscale, pshift_coeff0, IH. ring.
Qed.

(* ---------------------------------------------------------------- the FD value of a polynomial *)

(* sum_k c_k * d_k^n * a(d_k h) *)
Fixpoint tsum (ds cs : list Q) (n : nat) (a : poly) (h : Q) : Q :=
  match ds, cs with
  | d :: ds', c :: cs' => c * qpow d n * peval a (d * h) + tsum ds' cs' n a h
  | _, _ => 0
  end.

Lemma tsum_nil : forall ds cs n h, tsum ds cs n [] h == 0.
Proof.
  induction ds as [|d ds IH]; intros [|c cs] n h; simpl; try reflexivity.
  rewrite IH. ring.
Qed.

Lemma tsum_cons : forall ds cs n a0 a h,
  tsum ds cs n (a0 :: a) h == a0 * moment_points ds cs n + h * tsum ds cs (S n) a h.
Proof.
  induction ds as [|d ds IH]; intros [|c cs] n a0 a h; cbn [tsum moment_points peval qpow]; try ring.
  rewrite IH. ring.
Qed.

Lemma series_tsum : forall f a n h,
  peval (fd_series_from f (S n) a) h == tsum (f_deltas f) (f_coeffs f) (S n) a h.
Proof.
  induction a as [|a0 a IH]; intros n h; cbn [fd_series_from peval].
  - rewrite tsum_nil. reflexivity.
  - rewrite tsum_cons, IH. unfold moment. ring.
Qed.

Lemma fd_points_ext : forall ds cs g g' h,
  (forall t, g t == g' t) -> fd_points ds cs g h == fd_points ds cs g' h.
Proof.
  induction ds as [|d ds IH]; intros [|c cs] g g' h H; simpl; try reflexivity.
  rewrite (IH cs g g' h H), (H (d * h)). reflexivity.
Qed.

Lemma fd_points_tsum : forall ds cs a h, ~ h == 0 ->
  h * fd_points ds cs (peval a) h == tsum ds cs 0 a h.
Proof.
  induction ds as [|d ds IH]; intros [|c cs] a h Hh; cbn [fd_points tsum qpow]; try ring.
  rewrite <- (IH cs a h Hh). field. exact Hh.
Qed.

(* h * FD(h) = sum_n a_n * moment_n * h^n : an exact identity for every stencil and every h <> 0 *)
Lemma fd_series_identity : forall f g a h,
  (forall t, g t == peval a t) -> ~ h == 0 ->
  h * fd_apply f g h == peval (fd_series f a) h.
Proof.
  intros f g a h Hg Hh. unfold fd_apply.
  rewrite (fd_points_ext _ _ g (peval a) h Hg), (Hg 0).
  rewrite Qmult_plus_distr_r, (fd_points_tsum _ _ a h Hh).
  destruct a as [|a0 a]; unfold fd_series; cbn [fd_series_from peval].
  - rewrite tsum_nil. field. exact Hh.
  - rewrite tsum_cons, series_tsum. unfold moment. field. exact Hh.
Qed.

(* a stencil is consistent when its zeroth moment (including the current point) vanishes and its
   first moment is one *)
Definition consistent (f : fdform) : Prop := moment f 0 == 0 /\ moment f 1 == 1.

Lemma fd_value : forall f g a h,
  consistent f -> (forall t, g t == peval a t) -> ~ h == 0 ->
  fd_apply f g h == nth 1 a 0 + h * peval (skipn 2 (fd_series f a)) h.
Proof.
  intros f g a h [H0 H1] Hg Hh.
  pose proof (fd_series_identity f g a h Hg Hh) as E.
  apply (Qmult_inj_l _ _ h Hh). rewrite E.
  destruct a as [|a0 [|a1 a]]; unfold fd_series; cbn [fd_series_from peval skipn nth].
  - ring.
  - rewrite H0. ring.
  - rewrite H0, H1. ring.
Qed.

(* exactness up to the order of accuracy: if the moments 2..p vanish, the FD value of a polynomial of
   degree <= p is its linear Taylor coefficient, for every h <> 0 *)
Lemma series_from_zero : forall f a n,
  (forall k, (n <= k < n + List.length a)%nat -> moment f k == 0) ->
  Forall (fun c => c == 0) (fd_series_from f n a).
Proof.
  induction a as [|a0 a IH]; intros n H; cbn [fd_series_from]; constructor.
  - rewrite (H n). ring. simpl. lia.
  - apply IH. intros k Hk. apply H. simpl. lia.
Qed.

Lemma fd_exact_up_to_order : forall f g a h (p : nat),
  consistent f -> (forall k, (2 <= k <= p)%nat -> moment f k == 0) ->
  (List.length a <= S p)%nat -> (forall t, g t == peval a t) -> ~ h == 0 ->
  fd_apply f g h == nth 1 a 0.
Proof.
  intros f g a h p Hc Hm Hl Hg Hh.
  rewrite (fd_value f g a h Hc Hg Hh).
  assert (Z0 : peval (skipn 2 (fd_series f a)) h == 0).
  { destruct a as [|a0 [|a1 a]]; unfold fd_series; cbn [fd_series_from skipn]; try reflexivity.
    apply peval_all_zero, series_from_zero. intros k Hk. apply Hm. simpl in Hl. lia. }
  rewrite Z0. ring.
Qed.

Lemma fd_exact_on_affine : forall f g a0 a1 h,
  consistent f -> (forall t, g t == a0 + a1 * t) -> ~ h == 0 -> fd_apply f g h == a1.
Proof.
  intros f g a0 a1 h Hc Hg Hh.
  apply (fd_exact_up_to_order f g [a0; a1] h 1 Hc); auto.
  - intros k Hk. lia.
  - intros t. rewrite Hg. simpl. ring.
Qed.

Lemma fd_exact_on_quadratic : forall f g a0 a1 a2 h,
  consistent f -> moment f 2 == 0 -> (forall t, g t == a0 + a1 * t + a2 * t * t) -> ~ h == 0 ->
  fd_apply f g h == a1.
Proof.
  intros f g a0 a1 a2 h Hc H2 Hg Hh.
  apply (fd_exact_up_to_order f g [a0; a1; a2] h 2 Hc); auto.
  - intros k Hk. assert (k = 2)%nat by lia. subst. exact H2.
  - intros t. rewrite Hg. simpl. ring.
Qed.

(* FD of p at x: derivative plus an explicit remainder polynomial in h *)
Lemma fd_truncation : forall f p x h,
  consistent f -> ~ h == 0 ->
  fd_apply f (fun t => peval p (x + t)) h ==
  peval (pderiv p) x + h * peval (skipn 2 (fd_series f (pshift p x))) h.
Proof.
  intros f p x h Hc Hh.
  rewrite (fd_value f _ (pshift p x) h Hc); [|intros t; symmetry; apply pshift_eval|exact Hh].
  rewrite pshift_coeff1. reflexivity.
Qed.

(* the n-th entry of the remainder series is the Taylor coefficient times the stencil moment *)
Lemma fd_series_nth : forall f a n k,
  nth k (fd_series_from f n a) 0 == nth k a 0 * moment f (n + k).
Proof.
  induction a as [|a0 a IH]; intros n [|k]; cbn [fd_series_from nth]; try ring.
  - rewrite Nat.add_0_r. reflexivity.
  - rewrite IH. rewrite Nat.add_succ_r. reflexivity.
Qed.

(* ---------------------------------------------------------------- complex step over Q[i] *)

Definition ceq (a b : C) : Prop := cre a == cre b /\ cim a == cim b.

Lemma cs_gen : forall a n h,
  cim (cmul (ipow n) (cpeval a (0, h))) == peval (cs_series_from n a) h.
Proof.
  induction a as [|a0 a IH]; intros n h.
  - cbn [cpeval cs_series_from peval]. unfold cmul, cofq, cim, cre. simpl. ring.
  - cbn [cpeval cs_series_from peval]. rewrite <- (IH (S n) h).
    cbn [ipow]. destruct (ipow n) as [u v]. destruct (cpeval a (0, h)) as [pr pi].
    unfold cmul, cadd, cofq, cim, cre. simpl. ring.
Qed.

(* Im a(ih) = a1 h - a3 h^3 + a5 h^5 - ... *)
Lemma cs_identity : forall a h, cim (cpeval a (0, h)) == peval (cs_series a) h.
Proof.
  intros. unfold cs_series. rewrite <- cs_gen.
  cbn [ipow]. destruct (cpeval a (0, h)) as [pr pi]. unfold cmul, cim, cre. simpl. ring.
Qed.

(* Im a(ih) / h = a1 + h^2 * ( -a3 + a5 h^2 - ... ) *)
Lemma cs_value : forall a h, ~ h == 0 ->
  cim (cpeval a (0, h)) * (1 / h) == nth 1 a 0 + h * h * peval (skipn 3 (cs_series a)) h.
Proof.
  intros a h Hh. rewrite cs_identity.
  destruct a as [|a0 [|a1 [|a2 a]]]; unfold cs_series; cbn [cs_series_from peval skipn nth ipow cim cre fst snd];
    field; exact Hh.
Qed.

Lemma cs_exact_on_quadratic : forall a0 a1 a2 h, ~ h == 0 ->
  cim (cpeval [a0; a1; a2] (0, h)) * (1 / h) == a1.
Proof.
  intros. rewrite cs_value by assumption. simpl. ring.
Qed.

Lemma cs_cubic_term : forall a, nth 0 (skipn 3 (cs_series a)) 0 == - nth 3 a 0.
Proof.
  intros [|a0 [|a1 [|a2 [|a3 a]]]]; unfold cs_series; cbn [cs_series_from skipn nth ipow cim cre fst snd]; ring.
Qed.

(* complex evaluation commutes with the Taylor shift: p(x + ih) = (pshift p x)(ih) *)
Lemma cpeval_padd : forall p q z, ceq (cpeval (padd p q) z) (cadd (cpeval p z) (cpeval q z)).
Proof.
  induction p as [|a p IH]; intros [|b q] z; unfold padd; fold padd; cbn [cpeval].
  - split; unfold cadd, cofq, cre, cim; simpl; ring.
  - split; unfold cadd, cofq, cre, cim; simpl; ring.
  - split; unfold cadd, cofq, cre, cim; simpl; ring.
  - destruct (IH q z) as [Hr Hi]. destruct z as [zr zi].
    destruct (cpeval (padd p q) (zr, zi)) as [sr si]. destruct (cpeval p (zr, zi)) as [pr pi].
    destruct (cpeval q (zr, zi)) as [qr qi]. unfold ceq, cadd, cmul, cofq, cre, cim in *. cbn [fst snd] in *.
    split; [rewrite Hr, Hi | rewrite Hr, Hi]; ring.
Qed.

Lemma cpeval_pscale : forall c p z, ceq (cpeval (pscale c p) z) (cmul (cofq c) (cpeval p z)).
Proof.
  induction p as [|a p IH]; intros z; cbn [pscale map cpeval].
  - split; unfold cmul, cofq, cre, cim; simpl; ring.
  - destruct (IH z) as [Hr Hi]. destruct z as [zr zi]. unfold pscale in *.
    destruct (cpeval (map (fun a => c * a) p) (zr, zi)) as [sr si]. destruct (cpeval p (zr, zi)) as [pr pi].
    unfold ceq, cadd, cmul, cofq, cre, cim in *. cbn [fst snd] in *.
    split; [rewrite Hr, Hi | rewrite Hr, Hi]; ring.
Qed.

Lemma cpshift_eval : forall p x z, ceq (cpeval (pshift p x) z) (cpeval p (cadd (cofq x) z)).
Proof.
  induction p as [|a p IH]; intros x z; [split; reflexivity|].
  cbn [pshift cpeval].
  destruct (cpeval_padd [a] (padd (pscale x (pshift p x)) (0 :: pshift p x)) z) as [A1 A2].
  destruct (cpeval_padd (pscale x (pshift p x)) (0 :: pshift p x) z) as [B1 B2].
  destruct (cpeval_pscale x (pshift p x) z) as [C1 C2].
  destruct (IH x z) as [D1 D2].
  cbn [cpeval] in A1, A2, B1, B2.
  remember (cpeval p (cadd (cofq x) z)) as T eqn:ET. clear ET. destruct T as [t1 t2].
  destruct z as [zr zi].
  destruct (cpeval (padd [a] (padd (pscale x (pshift p x)) (0 :: pshift p x))) (zr, zi)) as [e1 e2].
  destruct (cpeval (padd (pscale x (pshift p x)) (0 :: pshift p x)) (zr, zi)) as [f1 f2].
  destruct (cpeval (pscale x (pshift p x)) (zr, zi)) as [g1 g2].
  destruct (cpeval (pshift p x) (zr, zi)) as [s1 s2].
  unfold ceq, cadd, cmul, cofq, cre, cim in *. cbn [fst snd] in *.
  split.
  - rewrite ?A1, ?B1, ?C1, ?C2, ?D1, ?D2. ring.
  - rewrite ?A2, ?B2, ?C1, ?C2, ?D1, ?D2. ring.
Qed.

(* Im p(x + ih) / h = p'(x) + h^2 * (explicit remainder), for every polynomial and every h <> 0 *)
Lemma cs_truncation : forall p x h, ~ h == 0 ->
  cim (cpeval p (x, h)) * (1 / h) ==
  peval (pderiv p) x + h * h * peval (skipn 3 (cs_series (pshift p x))) h.
Proof.
  intros p x h Hh.
  destruct (cpshift_eval p x (0, h)) as [_ Hi].
  assert (E : cim (cpeval p (x, h)) == cim (cpeval (pshift p x) (0, h))).
  { rewrite Hi. unfold cadd, cofq, cre, cim. simpl.
    assert (X : forall z z', fst z == fst z' -> snd z == snd z' -> ceq (cpeval p z) (cpeval p z')).
    { clear. induction p as [|a p IH]; intros z z' H1 H2; cbn [cpeval]; [split; reflexivity|].
      destruct (IH z z' H1 H2) as [Hr Hi]. destruct z as [zr zi], z' as [zr' zi'].
      destruct (cpeval p (zr, zi)) as [u v], (cpeval p (zr', zi')) as [u' v'].
      unfold ceq, cadd, cmul, cofq, cre, cim in *. cbn [fst snd] in *.
      split; rewrite H1, H2, Hr, Hi; reflexivity. }
    destruct (X (x, h) (x + 0, 0 + h)) as [_ Y]; simpl; try ring. exact Y. }
  rewrite E, (cs_value (pshift p x) h Hh), pshift_coeff1. reflexivity.
Qed.
