(* C12 — property theorems (statements only; proofs by [exact] of lemmas in Proofs*.v).
   [fd_table] / [generate_fd_coeff] are built from GenFDCoeffs.v, which is regenerated from
   FD_COEFFS in openmdao/approximation_schemes/finite_difference.py on every run. *)
From Coq Require Import ZArith QArith Qabs List String.
From OMV Require Import C12.GenFDCoeffs C12.Model C12.ProofsPoly C12.Proofs.
Import ListNotations.
Open Scope Q_scope.

(* Every entry of the regenerated table: the coefficients (including the current point) sum to zero,
   sum coeff*delta = 1, and deltas/coeffs have the same length. *)
Theorem C12_stencil_consistent :
  forall k f, In (k, f) fd_table ->
    moment f 0 == 0 /\ moment f 1 == 1 /\ List.length (f_deltas f) = List.length (f_coeffs f).
Proof. exact stencil_consistent. Qed.
Print Assumptions C12_stencil_consistent.

(* An entry labelled (form, order) has vanishing moments 2..order; central entries have sum coeff*delta^2 = 0. *)
Theorem C12_stencil_order :
  forall form order f n, In ((form, order), f) fd_table ->
    (2 <= n)%nat -> (Z.of_nat n <= order)%Z -> moment f n == 0.
Proof. exact stencil_order. Qed.
Print Assumptions C12_stencil_order.

Theorem C12_central_second_order :
  forall order f, In (("central"%string, order), f) fd_table -> moment f 2 == 0.
Proof. exact central_second_order. Qed.
Print Assumptions C12_central_second_order.

(* Any stencil the code can select is exact on affine functions, for every step h <> 0. *)
Theorem C12_fd_exact_on_affine :
  forall form order f g a0 a1 h,
    generate_fd_coeff form order = Some f ->
    (forall t, g t == a0 + a1 * t) -> ~ h == 0 -> fd_apply f g h == a1.
Proof. exact fd_exact_on_affine_table. Qed.
Print Assumptions C12_fd_exact_on_affine.

(* The central stencils are exact on quadratics, for every step h <> 0. *)
Theorem C12_central_exact_on_quadratic :
  forall order f g a0 a1 a2 h,
    generate_fd_coeff "central" order = Some f ->
    (forall t, g t == a0 + a1 * t + a2 * t * t) -> ~ h == 0 -> fd_apply f g h == a1.
Proof. exact central_exact_on_quadratic. Qed.
Print Assumptions C12_central_exact_on_quadratic.

(* A stencil labelled with order p is exact on every polynomial of degree <= p. *)
Theorem C12_fd_exact_to_labelled_order :
  forall form order f g a h,
    generate_fd_coeff form order = Some f ->
    (Z.of_nat (List.length a) <= order + 1)%Z -> (forall t, g t == peval a t) -> ~ h == 0 ->
    fd_apply f g h == nth 1 a 0.
Proof. exact fd_exact_to_labelled_order. Qed.
Print Assumptions C12_fd_exact_to_labelled_order.

(* Truncation error as an exact identity: for every polynomial p, point x and step h <> 0 the FD value is
   p'(x) plus h times an explicit remainder polynomial whose n-th coefficient is (Taylor coefficient n of
   p at x) * (n-th moment of the stencil). *)
Theorem C12_fd_truncation :
  forall form order f p x h,
    generate_fd_coeff form order = Some f -> ~ h == 0 ->
    fd_apply f (fun t => peval p (x + t)) h ==
    peval (pderiv p) x + h * peval (skipn 2 (fd_series f (pshift p x))) h.
Proof. exact fd_truncation_table. Qed.
Print Assumptions C12_fd_truncation.

Theorem C12_fd_series_coefficients :
  forall f a n k, nth k (fd_series_from f n a) 0 == nth k a 0 * moment f (n + k).
Proof. exact fd_series_nth. Qed.
Print Assumptions C12_fd_series_coefficients.

(* Complex step: Im p(x + ih)/h = p'(x) + h^2 * (explicit remainder, leading term -p'''(x)/6), for every
   polynomial over Q[i] and every h <> 0. *)
Theorem C12_cs_exact_on_polys :
  forall p x h, ~ h == 0 ->
    cim (cpeval p (x, h)) * (1 / h) ==
    peval (pderiv p) x + h * h * peval (skipn 3 (cs_series (pshift p x))) h.
Proof. exact cs_truncation. Qed.
Print Assumptions C12_cs_exact_on_polys.

Theorem C12_cs_cubic_term :
  forall a, nth 0 (skipn 3 (cs_series a)) 0 == - nth 3 a 0.
Proof. exact cs_cubic_term. Qed.
Print Assumptions C12_cs_cubic_term.

(* Step rules. *)
Theorem C12_floor_min_is_max :
  forall s m, s <= floor_min s m /\ m <= floor_min s m /\ (floor_min s m = s \/ floor_min s m = m).
Proof. exact floor_min_spec. Qed.
Print Assumptions C12_floor_min_is_max.

Theorem C12_step_rel_legacy :
  forall s m v r, scalar_step SC_rel_legacy s m v = Some r ->
    exists nrm, nrm * nrm == sumsq v /\ 0 <= nrm /\ r = floor_min (s * nrm) m.
Proof. exact step_rel_legacy. Qed.
Print Assumptions C12_step_rel_legacy.

Theorem C12_rel_steps_positive :
  forall s m v, 0 < m ->
    Forall (fun x => 0 < x) (element_steps s m v) /\
    (forall r, scalar_step SC_rel_avg s m v = Some r -> 0 < r) /\
    (forall r, scalar_step SC_rel_legacy s m v = Some r -> 0 < r).
Proof. exact rel_steps_positive. Qed.
Print Assumptions C12_rel_steps_positive.

(* _run_point with the data of any scalar step rule computes the FD formula, row by row, for any system
   function G with a fixed number of rows. *)
Theorem C12_run_point_is_fd_apply :
  forall (G : list Q -> list Q) (m : nat), (forall y, List.length (G y) = m) ->
    forall (base x : list Q) (j r loc : nat) (f : fdform) (s : Q),
      List.length base = m ->
      nth r base 0 == nth r (G (add_at x j 0)) 0 ->
      nth r (run_point G base x [j] (scalar_adata f s) loc) 0
      == fd_apply f (fun t => nth r (G (add_at x j t)) 0) s.
Proof. exact run_point_fd_apply. Qed.
Print Assumptions C12_run_point_is_fd_apply.

(* Save/restore: after any sequence of sub-points - whatever is perturbed and whatever the system does to
   inputs, outputs and residuals - the three vectors hold the starting values. *)
Theorem C12_fd_restore_frame :
  forall start total pts st, st = start -> fst (fd_frames start total pts st) = start.
Proof. exact fd_restore_frame. Qed.
Print Assumptions C12_fd_restore_frame.

Theorem C12_cs_restore_frame :
  forall saved pts st, cs_frames saved pts st = saved.
Proof. exact cs_restore_frame. Qed.
Print Assumptions C12_cs_restore_frame.

Theorem C12_cs_perturbation_undone :
  forall (x : list C) j d, Forall2 ceq (cadd_at (cadd_at x j d) j (csub (cofq 0) d)) x.
Proof. exact cadd_at_undo. Qed.
Print Assumptions C12_cs_perturbation_undone.

(* Coloured approximation = uncoloured approximation, entry by entry, whenever the colouring is valid for
   the structure of G (rows declared nonzero for a column do not depend on the other columns of its
   colour; rows not declared do not depend on the column). *)
Theorem C12_colored_column_eq_uncolored :
  forall (G : list Q -> list Q) (m : nat), (forall y, List.length (G y) = m) ->
    forall (f : fdform) (s : Q) (base x : list Q) (cols rows : list nat) (j r : nat),
      consistent f -> ~ s == 0 -> List.length base = m ->
      NoDup cols -> In j cols ->
      nth r base 0 == nth r (G (add_at x j 0)) 0 ->
      (forall r', In r' rows -> forall k, In k cols -> k <> j -> indep (fun y => nth r' (G y) 0) k) ->
      (forall r', ~ In r' rows -> indep (fun y => nth r' (G y) 0) j) ->
      nth r (mask_rows rows (run_point G base x cols (scalar_adata f s) 0)) 0
      == nth r (run_point G base x [j] (scalar_adata f s) 0) 0.
Proof. exact colored_column_eq_uncolored. Qed.
Print Assumptions C12_colored_column_eq_uncolored.
