(* C12 — executable model of openmdao/approximation_schemes/{finite_difference,complex_step,
   approximation_scheme}.py.  Definitions only (no proofs).

   * the stencil table is NOT written here: it is GenFDCoeffs.v, regenerated from FD_COEFFS on every run;
   * [approx_data]      = FiniteDifference._get_approx_data   (step_calc rules, minimum_step floor);
   * [run_point]        = FiniteDifference._run_point / _run_sub_point (value computed);
   * [fd_jac_uncolored] = ApproximationScheme._uncolored_column_iter, one column per perturbed entry;
   * [fd_jac_colored]   = ApproximationScheme._colored_column_iter, one run per colour, rows masked by nzrows;
   * [cs_*]             = ComplexStep._get_approx_data/_run_point/_get_multiplier/_transform_result over Q[i];
   * [fd_frames], [cs_frames] = the save / perturb / run / restore state machine on (inputs, outputs, residuals). *)
From Coq Require Import ZArith QArith Qabs List String Bool.
From OMV Require Import Base.Val C12.GenFDCoeffs.
Import ListNotations.
Open Scope Q_scope.

(* ------------------------------------------------------------------ stencil table *)

Record fdform := mkform { f_deltas : list Q; f_coeffs : list Q; f_cur : Q }.

Definition form_of_raw (r : (list Q * list Q) * Q) : fdform :=
  mkform (fst (fst r)) (snd (fst r)) (snd r).

Definition fd_table : list ((string * Z) * fdform) :=
  map (fun e => (fst e, form_of_raw (snd e))) fd_coeffs_raw.

Fixpoint lookup_form (tbl : list ((string * Z) * fdform)) (form : string) (order : Z) : option fdform :=
  match tbl with
  | [] => None
  | (k, f) :: t => if (String.eqb (fst k) form && Z.eqb (snd k) order)%bool then Some f
                   else lookup_form t form order
  end.

(* _generate_fd_coeff: FD_COEFFS[form, order], KeyError -> ValueError (None) *)
Definition generate_fd_coeff (form : string) (order : Z) : option fdform :=
  lookup_form fd_table form order.

Fixpoint lookup_order (tbl : list (string * Z)) (form : string) : option Z :=
  match tbl with
  | [] => None
  | (k, o) :: t => if String.eqb k form then Some o else lookup_order t form
  end.

(* add_approximation: order None -> DEFAULT_ORDER[form] (unknown form rejected) *)
Definition resolve_order (form : string) (order : option Z) : option Z :=
  match order with
  | Some o => Some o
  | None => lookup_order fd_default_order_raw form
  end.

(* ------------------------------------------------------------------ small vector helpers *)

Definition qsum (l : list Q) : Q := fold_left Qplus l 0.
Definition Qltb (a b : Q) : bool := negb (Qle_bool b a).
Definition vscale (c : Q) (v : list Q) : list Q := map (fun x => x * c) v.
Fixpoint vadd (a b : list Q) : list Q :=
  match a, b with
  | x :: a', y :: b' => (x + y) :: vadd a' b'
  | _, _ => []
  end.
Fixpoint vsub (a b : list Q) : list Q :=
  match a, b with
  | x :: a', y :: b' => (x - y) :: vsub a' b'
  | _, _ => []
  end.
Definition vzero (v : list Q) : list Q := map (fun _ => 0) v.

(* vec.iadd(delta, idx) for one index / a list of indices *)
Fixpoint add_at (x : list Q) (j : nat) (d : Q) : list Q :=
  match x, j with
  | [], _ => []
  | a :: t, O => (a + d) :: t
  | a :: t, S k => a :: add_at t k d
  end.
Definition add_at_all (x : list Q) (cols : list nat) (d : Q) : list Q :=
  fold_left (fun acc j => add_at acc j d) cols x.

(* ------------------------------------------------------------------ step rules (_get_approx_data) *)

Inductive step_calc := SC_abs | SC_rel | SC_rel_avg | SC_rel_legacy | SC_rel_element.

(* if step < minimum_step: step = minimum_step *)
Definition floor_min (step minimum : Q) : Q := if Qltb step minimum then minimum else step.

(* exact square root of a rational that is a perfect square (np.linalg.norm on the generated data is
   exact there); None otherwise (such cases are not generated) *)
Definition qsqrt_exact (q : Q) : option Q :=
  let r := Qred q in
  let n := Qnum r in
  let d := Zpos (Qden r) in
  if (n <? 0)%Z then None
  else
    let sn := Z.sqrt n in
    let sd := Z.sqrt d in
    if ((sn * sn =? n) && (sd * sd =? d))%Z%bool then Some (sn # Z.to_pos sd) else None.

Definition sumsq (v : list Q) : Q := qsum (map (fun x => x * x) v).
Definition sumabs (v : list Q) : Q := qsum (map Qabs v).

(* the scalar step of every step_calc except rel_element *)
Definition scalar_step (sc : step_calc) (step minimum : Q) (v : list Q) : option Q :=
  match sc with
  | SC_abs => Some step
  | SC_rel_legacy =>
      match qsqrt_exact (sumsq v) with
      | Some nrm => Some (floor_min (step * nrm) minimum)
      | None => None
      end
  | SC_rel | SC_rel_avg =>
      Some (floor_min (step * (sumabs v / inject_Z (Z.of_nat (List.length v)))) minimum)
  | SC_rel_element => None
  end.

(* step = abs(wrt_val) * step ; step[step < minimum_step] = minimum_step *)
Definition element_steps (step minimum : Q) (v : list Q) : list Q :=
  map (fun x => floor_min (Qabs x * step) minimum) v.

(* (deltas, coeffs, current_coeff): one row per stencil point; a row has one entry per element of the
   wrt variable for rel_element and a single entry otherwise *)
Record adata := mkadata { a_deltas : list (list Q); a_coeffs : list (list Q); a_cur : list Q }.

Definition approx_data (f : fdform) (sc : step_calc) (step minimum : Q) (v : list Q) : option adata :=
  match sc with
  | SC_rel_element =>
      let steps := element_steps step minimum v in
      let sdiv := map (fun s => 1 / s) steps in
      Some (mkadata (map (fun d => map (fun s => d * s) steps) (f_deltas f))
                    (map (fun c => map (fun s => c * s) sdiv) (f_coeffs f))
                    (map (fun s => f_cur f * s) sdiv))
  | _ =>
      match scalar_step sc step minimum v with
      | Some s => Some (mkadata (map (fun d => [d * s]) (f_deltas f))
                                (map (fun c => [c / s]) (f_coeffs f))
                                [f_cur f / s])
      | None => None
      end
  end.

Definition parse_step_calc (s : string) : option step_calc :=
  if String.eqb s "abs" then Some SC_abs
  else if String.eqb s "rel" then Some SC_rel
  else if String.eqb s "rel_avg" then Some SC_rel_avg
  else if String.eqb s "rel_legacy" then Some SC_rel_legacy
  else if String.eqb s "rel_element" then Some SC_rel_element
  else None.

(* add_approximation + _get_approx_data from the raw options *)
Definition approx_data_opts (form : string) (order : option Z) (sc : string) (step minimum : Q)
           (v : list Q) : option adata :=
  match resolve_order form order, parse_step_calc sc with
  | Some o, Some c =>
      match generate_fd_coeff form o with
      | Some f => approx_data f c step minimum v
      | None => None
      end
  | _, _ => None
  end.

(* ------------------------------------------------------------------ _run_point (value) *)

Definition any_nonzero (l : list Q) : bool := existsb (fun c => negb (Qeq_bool c 0)) l.

(* rel_element = vec_curr and current_coeff.size > 1 *)
Definition is_rel_element (a : adata) : bool := (1 <? List.length (a_cur a))%nat.
Definition pick (relel : bool) (loc : nat) (l : list Q) : Q := if relel then nth loc l 0 else nth 0 l 0.

(* G: the function the system evaluates on the perturbable vector (residuals for partials, outputs
   for totals); base: the current contents of that vector; cols: the perturbed entries;
   loc: index of the perturbed entry inside its variable (used by rel_element only) *)
Definition run_point (G : list Q -> list Q) (base : list Q) (x : list Q) (cols : list nat)
           (a : adata) (loc : nat) : list Q :=
  let relel := is_rel_element a in
  let cc := pick relel loc (a_cur a) in
  let init :=
    if relel then (if Qeq_bool cc 0 then vzero base else vscale cc base)
    else if any_nonzero (a_cur a) then vscale cc base else vzero base in
  fold_left
    (fun acc dc =>
       vadd acc (vscale (pick relel loc (snd dc)) (G (add_at_all x cols (pick relel loc (fst dc))))))
    (combine (a_deltas a) (a_coeffs a)) init.

(* one jacobian column per entry j of the perturbable vector; [vars] = (offset, size) of each wrt
   variable with its approximation data *)
Definition var_columns (G : list Q -> list Q) (base x : list Q) (off size : nat) (a : adata)
  : list (list Q) :=
  map (fun loc => run_point G base x [(off + loc)%nat] a loc) (seq 0 size).

Definition fd_jac_uncolored (G : list Q -> list Q) (base x : list Q)
           (vars : list ((nat * nat) * adata)) : list (list Q) :=
  flat_map (fun v => var_columns G base x (fst (fst v)) (snd (fst v)) (snd v)) vars.

(* coloured: one run per colour; column j of the group keeps only its nzrows *)
Definition mask_rows (rows : list nat) (res : list Q) : list Q :=
  map (fun ir => if existsb (Nat.eqb (fst ir)) rows then snd ir else 0)
      (combine (seq 0 (List.length res)) res).

Definition fd_jac_colored (G : list Q -> list Q) (base x : list Q) (a : adata)
           (groups : list (list (nat * list nat))) : list (nat * list Q) :=
  flat_map (fun g =>
              let res := run_point G base x (map fst g) a 0 in
              map (fun cr => (fst cr, mask_rows (snd cr) res)) g) groups.

(* ------------------------------------------------------------------ generated polynomial systems *)

Definition mterm := (Q * list (nat * nat))%type.     (* coefficient, [(variable, exponent)] *)
Definition mpoly := list mterm.

Fixpoint qpow (x : Q) (n : nat) : Q := match n with O => 1 | S k => qpow x k * x end.

Definition meval_term (env : list Q) (t : mterm) : Q :=
  fold_left (fun acc ve => acc * qpow (nth (fst ve) env 0) (snd ve)) (snd t) (fst t).
Definition meval (env : list Q) (p : mpoly) : Q :=
  fold_left (fun acc t => acc + meval_term env t) p 0.

(* feed-forward stages: every stage sees the perturbable vector followed by all earlier stage outputs *)
Definition run_stages (stages : list (list mpoly)) (z : list Q) : list Q :=
  fold_left (fun env st => app env (map (meval env) st)) stages z.

Definition sel_entries (sel : list nat) (env : list Q) : list Q := map (fun i => nth i env 0) sel.

(* what the system leaves in the observed vector: selected entries minus an offset
   (explicit component residual = f(x) - outputs; offset 0 for implicit residuals and for outputs) *)
Definition sysfun (stages : list (list mpoly)) (sel : list nat) (y0 : list Q) (z : list Q) : list Q :=
  vsub (sel_entries sel (run_stages stages z)) y0.

(* ------------------------------------------------------------------ complex step over Q[i] *)

Definition C := (Q * Q)%type.
Definition cre (z : C) := fst z.
Definition cim (z : C) := snd z.
Definition cadd (a b : C) : C := (cre a + cre b, cim a + cim b).
Definition csub (a b : C) : C := (cre a - cre b, cim a - cim b).
Definition cmul (a b : C) : C := (cre a * cre b - cim a * cim b, cre a * cim b + cim a * cre b).
Definition cofq (q : Q) : C := (q, 0).

Fixpoint cpow (x : C) (n : nat) : C := match n with O => cofq 1 | S k => cmul (cpow x k) x end.
Definition ceval_term (env : list C) (t : mterm) : C :=
  fold_left (fun acc ve => cmul acc (cpow (nth (fst ve) env (cofq 0)) (snd ve))) (snd t) (cofq (fst t)).
Definition ceval (env : list C) (p : mpoly) : C :=
  fold_left (fun acc t => cadd acc (ceval_term env t)) p (cofq 0).
Definition crun_stages (stages : list (list mpoly)) (z : list C) : list C :=
  fold_left (fun env st => app env (map (ceval env) st)) stages z.

Fixpoint cadd_at (x : list C) (j : nat) (d : C) : list C :=
  match x, j with
  | [], _ => []
  | a :: t, O => cadd a d :: t
  | a :: t, S k => a :: cadd_at t k d
  end.
Definition cadd_at_all (x : list C) (cols : list nat) (d : C) : list C :=
  fold_left (fun acc j => cadd_at acc j d) cols x.

(* _get_approx_data: step * 1j ; _get_multiplier: (1/delta * 1j).real = 1/step ;
   _run_point: perturb, run, read; _transform_result: imaginary part *)
Definition cs_run_point (stages : list (list mpoly)) (sel : list nat) (x : list Q) (cols : list nat)
           (step : Q) : list Q :=
  let z := cadd_at_all (map cofq x) cols (0, step) in
  let env := crun_stages stages z in
  map (fun i => cim (nth i env (cofq 0)) * (1 / step)) sel.

Definition cs_jac_uncolored (stages : list (list mpoly)) (sel : list nat) (x : list Q) (step : Q)
  : list (list Q) :=
  map (fun j => cs_run_point stages sel x [j] step) (seq 0 (List.length x)).

Definition cs_jac_colored (stages : list (list mpoly)) (sel : list nat) (x : list Q) (step : Q)
           (groups : list (list (nat * list nat))) : list (nat * list Q) :=
  flat_map (fun g =>
              let res := cs_run_point stages sel x (map fst g) step in
              map (fun cr => (fst cr, mask_rows (snd cr) res)) g) groups.

(* ------------------------------------------------------------------ univariate calculus for the theorems *)

Definition poly := list Q.                      (* a0 + a1 t + a2 t^2 + ... *)
Fixpoint peval (p : poly) (t : Q) : Q :=
  match p with [] => 0 | a :: p' => a + t * peval p' t end.

(* the FD formula of _run_point for a scalar function g at 0 with scalar step h:
   current_coeff/h * g(0) + sum coeff_k/h * g(delta_k * h) *)
Fixpoint fd_points (ds cs : list Q) (g : Q -> Q) (h : Q) : Q :=
  match ds, cs with
  | d :: ds', c :: cs' => (c / h) * g (d * h) + fd_points ds' cs' g h
  | _, _ => 0
  end.
Definition fd_apply (f : fdform) (g : Q -> Q) (h : Q) : Q :=
  (f_cur f / h) * g 0 + fd_points (f_deltas f) (f_coeffs f) g h.

(* n-th moment of a stencil: sum coeff_k * delta_k^n  (+ current_coeff for n = 0) *)
Fixpoint moment_points (ds cs : list Q) (n : nat) : Q :=
  match ds, cs with
  | d :: ds', c :: cs' => c * qpow d n + moment_points ds' cs' n
  | _, _ => 0
  end.
Definition moment (f : fdform) (n : nat) : Q :=
  (match n with O => f_cur f | _ => 0 end) + moment_points (f_deltas f) (f_coeffs f) n.

(* Taylor shift: coefficients of p(x + t) as a polynomial in t, and the formal derivative *)
Fixpoint padd (p q : poly) : poly :=
  match p, q with
  | [], _ => q
  | _, [] => p
  | a :: p', b :: q' => (a + b) :: padd p' q'
  end.
Definition pscale (c : Q) (p : poly) : poly := map (fun a => c * a) p.
Fixpoint pshift (p : poly) (x : Q) : poly :=
  match p with
  | [] => []
  | a :: p' => let s := pshift p' x in padd [a] (padd (pscale x s) (0 :: s))
  end.
Fixpoint pderiv_from (k : nat) (p : poly) : poly :=
  match p with [] => [] | a :: p' => (inject_Z (Z.of_nat k) * a) :: pderiv_from (S k) p' end.
Definition pderiv (p : poly) : poly := match p with [] => [] | _ :: p' => pderiv_from 1 p' end.

(* the series  sum_n a_n * moment_n * h^n  of an FD stencil applied to the polynomial with Taylor
   coefficients a (this is h times the FD value) *)
Fixpoint fd_series_from (f : fdform) (n : nat) (a : poly) : poly :=
  match a with [] => [] | c :: a' => (c * moment f n) :: fd_series_from f (S n) a' end.
Definition fd_series (f : fdform) (a : poly) : poly := fd_series_from f 0 a.

(* i^n = (ire n, iim n) *)
Fixpoint ipow (n : nat) : C := match n with O => (1, 0) | S k => (- cim (ipow k), cre (ipow k)) end.
Fixpoint cpeval (p : poly) (z : C) : C :=
  match p with [] => cofq 0 | a :: p' => cadd (cofq a) (cmul z (cpeval p' z)) end.
(* sum_n a_n * Im(i^n) * h^n  =  a1 h - a3 h^3 + a5 h^5 - ... *)
Fixpoint cs_series_from (n : nat) (a : poly) : poly :=
  match a with [] => [] | c :: a' => (c * cim (ipow n)) :: cs_series_from (S n) a' end.
Definition cs_series (a : poly) : poly := cs_series_from 0 a.

(* ------------------------------------------------------------------ save / restore state machine *)

Record frame := mkframe { fr_in : list Q; fr_out : list Q; fr_res : list Q }.

(* one _run_sub_point: perturb (any perturbation of inputs/outputs), run the system (any effect on the
   three vectors), copy the observed vector to _results_tmp, then
   residuals.set_val(starting_resids); inputs.set_val(starting_ins); outputs.set_val(starting_outs) *)
Definition fd_sub_point (start : frame) (total : bool) (perturb run : frame -> frame) (st : frame)
  : frame * list Q :=
  let st2 := run (perturb st) in
  (mkframe (fr_in start) (fr_out start) (fr_res start), if total then fr_out st2 else fr_res st2).

(* any sequence of sub-points (a column = one or more sub-points; an approximation = many columns) *)
Fixpoint fd_frames (start : frame) (total : bool) (pts : list ((frame -> frame) * (frame -> frame)))
         (st : frame) : frame * list (list Q) :=
  match pts with
  | [] => (st, [])
  | (perturb, run) :: t =>
      let r := fd_sub_point start total perturb run st in
      let r' := fd_frames start total t (fst r) in
      (fst r', snd r :: snd r')
  end.

(* complex step keeps complex frames; a point adds delta, runs, subtracts delta (ComplexStep._run_point);
   after every yielded column the outputs are reset to the saved outputs; after the loop the three
   saved vectors are written back (compute_approx_col_iter) *)
Record cframe := mkcframe { cf_in : list C; cf_out : list C; cf_res : list C }.

Definition cs_point (saved : cframe) (idx : list nat) (delta : C) (run : cframe -> cframe) (st : cframe)
  : cframe :=
  let st1 := mkcframe (cadd_at_all (cf_in st) idx delta) (cf_out st) (cf_res st) in
  let st2 := run st1 in
  let st3 := mkcframe (cadd_at_all (cf_in st2) idx (csub (cofq 0) delta)) (cf_out st2) (cf_res st2) in
  mkcframe (cf_in st3) (cf_out saved) (cf_res st3).

Definition cs_frames (saved : cframe) (pts : list ((list nat * C) * (cframe -> cframe))) (st : cframe)
  : cframe :=
  let st' := fold_left (fun s p => cs_point saved (fst (fst p)) (snd (fst p)) (snd p) s) pts st in
  mkcframe (cf_in saved) (cf_out saved) (cf_res saved).

(* ------------------------------------------------------------------ run functions for the correspondence *)

Definition vrows (m : list (list Q)) : val := VL (map vqs m).

Definition v_adata (o : option adata) : val :=
  match o with
  | None => VE 1
  | Some a => VL [vrows (a_deltas a); vrows (a_coeffs a); vqs (a_cur a)]
  end.

(* coefficients are produced by one or two correctly rounded float divisions of exact data; they are
   compared through their defining relation instead of a tolerance *)
Definition rel_close (ulps : Q) (got want : Q) : bool :=
  Qle_bool (Qabs (got - want)) (ulps * (1 # 9007199254740992) * Qabs want).
Fixpoint rows_close (ulps : Q) (got want : list (list Q)) : bool :=
  match got, want with
  | [], [] => true
  | g :: got', w :: want' =>
      ((fix go (g w : list Q) : bool :=
          match g, w with
          | [], [] => true
          | a :: g', b :: w' => rel_close ulps a b && go g' w'
          | _, _ => false
          end) g w) && rows_close ulps got' want'
  | _, _ => false
  end.

(* deltas exact; coeffs / current_coeff of the implementation within [ulps] roundings of the model *)
Definition v_adata_check (ulps : Q) (o : option adata) (icoeffs : list (list Q)) (icur : list Q) : val :=
  match o with
  | None => VE 1
  | Some a => VL [vrows (a_deltas a);
                  VB (rows_close ulps icoeffs (a_coeffs a));
                  VB (rows_close ulps [icur] [a_cur a])]
  end.

Definition opt_all {A} (l : list (option A)) : option (list A) :=
  fold_right (fun o acc => match o, acc with Some a, Some r => Some (a :: r) | _, _ => None end)
             (Some []) l.

(* vars: (offset, size) of every wrt variable; the step rules see the variable's own value *)
Definition fd_jac_opts (stages : list (list mpoly)) (sel : list nat) (y0 base x : list Q)
           (form : string) (order : option Z) (sc : string) (step minimum : Q)
           (vars : list (nat * nat)) : val :=
  let datas := opt_all (map (fun v => approx_data_opts form order sc step minimum
                                        (firstn (snd v) (skipn (fst v) x))) vars) in
  match datas with
  | None => VE 1
  | Some ds => vrows (fd_jac_uncolored (sysfun stages sel y0) base x (combine vars ds))
  end.

Definition v_colored (cols : list (nat * list Q)) : val :=
  VL (map (fun c => VL [VZ (Z.of_nat (fst c)); vqs (snd c)]) cols).

Definition fd_jac_colored_opts (stages : list (list mpoly)) (sel : list nat) (y0 base x : list Q)
           (form : string) (order : option Z) (step minimum : Q)
           (first_var : nat * nat) (groups : list (list (nat * list nat))) : val :=
  match approx_data_opts form order "abs" step minimum
                         (firstn (snd first_var) (skipn (fst first_var) x)) with
  | None => VE 1
  | Some a => v_colored (fd_jac_colored (sysfun stages sel y0) base x a groups)
  end.

(* per-variable approximation options (a component may declare different fd options per wrt variable;
   a partial colouring covers only some of them) *)
Definition fd_jac_varopts (stages : list (list mpoly)) (sel : list nat) (y0 base x : list Q)
           (vars : list ((nat * nat) * ((string * string) * (Q * Q)))) : val :=
  let datas := opt_all (map (fun v => approx_data_opts (fst (fst (snd v))) None (snd (fst (snd v)))
                                        (fst (snd (snd v))) (snd (snd (snd v)))
                                        (firstn (snd (fst v)) (skipn (fst (fst v)) x))) vars) in
  match datas with
  | None => VE 1
  | Some ds => vrows (fd_jac_uncolored (sysfun stages sel y0) base x (combine (map fst vars) ds))
  end.
