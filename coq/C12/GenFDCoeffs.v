(* GENERATED on every run by props/C12/translate.py from
   openmdao/approximation_schemes/finite_difference.py (FD_COEFFS, DEFAULT_ORDER).  Do not edit. *)
From Coq Require Import ZArith QArith List String.
Import ListNotations.
Open Scope string_scope.

(* key (form, order)  ->  ((deltas, coeffs), current_coeff) *)
Definition fd_coeffs_raw : list ((string * Z) * ((list Q * list Q) * Q)) := [
  (("forward", (1)%Z), (([((1) # 1)], [((1) # 1)]), ((-1) # 1)));
  (("backward", (1)%Z), (([((-1) # 1)], [((-1) # 1)]), ((1) # 1)));
  (("central", (2)%Z), (([((1) # 1); ((-1) # 1)], [((1) # 2); ((-1) # 2)]), ((0) # 1)))
].

Definition fd_default_order_raw : list (string * Z) := [
  ("forward", (1)%Z);
  ("backward", (1)%Z);
  ("central", (2)%Z)
].
