(* C06 — the printed name of a unit evaluates back to the same factor.

   [ksem] is the factor an expression denotes over a table (names denote the factor of their table
   entry, numbers themselves).  (P1) evaluation agrees with it; (P2) the expression that name()
   prints denotes exactly the product its names dictionary stands for; with the invariant of
   ProofsNames (the factor of every evaluated unit is that product) the round trip follows. *)
From Coq Require Import ZArith QArith Qpower Qreduction Qfield List String Bool Lia Setoid.
From OMV Require Import Base.Val C06.Model C06.Proofs C06.ProofsNames.
Import ListNotations.
Open Scope Q_scope.

(* ---------------------------------------------------------------- as_int *)

Lemma as_int_compat : forall a b, a == b -> as_int a = as_int b.
Proof. intros a b H. unfold as_int. rewrite (Qred_complete a b H). reflexivity. Qed.

Lemma as_int_inject_Z : forall z, as_int (inject_Z z) = Some z.
Proof.
  intro z. unfold as_int, inject_Z, Qred.
  pose proof (Z.ggcd_gcd z 1) as Hg. pose proof (Z.ggcd_correct_divisors z 1) as Hd.
  destruct (Z.ggcd z 1) as [g [aa bb]]. simpl in *.
  rewrite Z.gcd_1_r in Hg. subst g. destruct Hd as [Ha Hb].
  rewrite Z.mul_1_l in Ha, Hb. subst aa bb. reflexivity.
Qed.

Lemma as_int_spec : forall q n, as_int q = Some n -> q == inject_Z n.
Proof.
  unfold as_int. intros q n H. destruct (Pos.eqb (Qden (Qred q)) 1) eqn:E; [|discriminate].
  injection H as <-. apply Pos.eqb_eq in E. rewrite <- (Qred_correct q) at 1.
  destruct (Qred q) as [a d]. simpl in *. subst d. reflexivity.
Qed.

(* ---------------------------------------------------------------- the factor an expression denotes *)

Fixpoint ksem (t : table) (e : expr) : Q :=
  match e with
  | EName s => kf_of t (KU s)
  | ENum q i => kf_of t (KN q i)
  | EMul a b => ksem t a * ksem t b
  | EDiv a b => ksem t a / ksem t b
  | EPow a b => match as_int (ksem t b) with Some n => Qpower (ksem t a) n | None => 1 end
  | ENeg a => - ksem t a
  end.

Definition vfac (v : pyv) : Q := match v with PNum q _ => q | PUnit u _ => u_factor u end.

Lemma table_factor : forall t s i u, table_named t -> tbl_get t s = Some (i, u) -> kf_of t (KU s) == u_factor u.
Proof.
  intros t s i u Ht Hg. destruct (Ht _ _ _ Hg) as [Hnz _]. simpl. rewrite Hg.
  rewrite (qz_of_neq _ Hnz). reflexivity.
Qed.

(* (P1) whatever eval returns has the factor the expression denotes *)
Lemma eval_ksem : forall t e v,
  table_named t -> lits_nz e -> eval None t e = Ok v -> vfac v == ksem t e.
Proof.
  intros t e. induction e as [s|q i|a IHa b IHb|a IHa b IHb|a IHa b IHb|a IHa]; intros v Ht Hl H;
    simpl in H.
  - destruct (tbl_get t s) as [[j u]|] eqn:Eg; [|discriminate]. inversion H; subst. simpl vfac.
    symmetry. eapply table_factor; eauto.
  - inversion H; subst. simpl. simpl in Hl. rewrite (qz_of_neq _ Hl). reflexivity.
  - destruct Hl as [La Lb].
    destruct (eval None t a) as [x|] eqn:Ea; [|discriminate]. destruct (eval None t b) as [y|] eqn:Eb; [|discriminate].
    specialize (IHa _ Ht La eq_refl). specialize (IHb _ Ht Lb eq_refl). simpl ksem. rewrite <- IHa, <- IHb.
    destruct x as [qa ia|ua oa], y as [qb ib|ub ob]; simpl in H.
    + inversion H; subst. reflexivity.
    + unfold u_mul_num in H. destruct (negb (qz (u_offset ub))); [discriminate|]. inversion H; subst. simpl. ring.
    + unfold u_mul_num in H. destruct (negb (qz (u_offset ua))); [discriminate|]. inversion H; subst. simpl. ring.
    + unfold u_mul in H. destruct (negb (qz (u_offset ua)) || negb (qz (u_offset ub))); [discriminate|].
      inversion H; subst. reflexivity.
  - destruct Hl as [La Lb].
    destruct (eval None t a) as [x|] eqn:Ea; [|discriminate]. destruct (eval None t b) as [y|] eqn:Eb; [|discriminate].
    specialize (IHa _ Ht La eq_refl). specialize (IHb _ Ht Lb eq_refl). simpl ksem. rewrite <- IHa, <- IHb.
    destruct x as [qa ia|ua oa], y as [qb ib|ub ob]; simpl in H.
    + destruct (qz qb); [discriminate|]. inversion H; subst. reflexivity.
    + unfold u_rdiv_num in H. destruct (qz (u_factor ub)); [discriminate|]. inversion H; subst. reflexivity.
    + unfold u_div_num in H. destruct (negb (qz (u_offset ua))); [discriminate|].
      destruct (qz qb); [discriminate|]. inversion H; subst. reflexivity.
    + unfold u_div in H. destruct (negb (qz (u_offset ua)) || negb (qz (u_offset ub))); [discriminate|].
      destruct (qz (u_factor ub)); [discriminate|]. inversion H; subst. reflexivity.
  - destruct Hl as [La Lb].
    destruct (eval None t a) as [x|] eqn:Ea; [|discriminate]. destruct (eval None t b) as [y|] eqn:Eb; [|discriminate].
    specialize (IHa _ Ht La eq_refl). specialize (IHb _ Ht Lb eq_refl). simpl ksem.
    destruct x as [qa ia|ua oa], y as [qb ib|ub ob]; simpl in H; try discriminate;
      simpl vfac in IHa, IHb; rewrite <- (as_int_compat _ _ IHb).
    + destruct (as_int qb) as [n|]; [|discriminate]. destruct (qz qa && (n <? 0)%Z); [discriminate|].
      inversion H; subst. simpl. rewrite IHa. reflexivity.
    + destruct (as_int qb) as [n|]; [|discriminate].
      destruct (ib || (n =? 1)%Z || (n =? -1)%Z); [|discriminate].
      unfold u_pow in H. destruct (negb (qz (u_offset ua))); [discriminate|].
      destruct (qz (u_factor ua) && (n <? 0)%Z); [discriminate|].
      inversion H; subst. simpl. rewrite IHa. reflexivity.
  - destruct (eval None t a) as [x|] eqn:Ea; [|discriminate].
    specialize (IHa _ Ht Hl eq_refl). destruct x as [qa ia|ua oa]; simpl in H; [|discriminate].
    inversion H; subst. simpl in *. rewrite IHa. reflexivity.
Qed.

(* ---------------------------------------------------------------- (P2) the printed name *)

Section Name.
  Variable t : table.
  Let kf := kf_of t.

  Fixpoint posprod (d : ndict) : Q :=
    match d with
    | [] => 1
    | (k, p) :: r => (if (0 <? p)%Z then Qpower (kf k) p else 1) * posprod r
    end.

  Fixpoint negprod (d : ndict) : Q :=
    match d with
    | [] => 1
    | (k, p) :: r => (if (p <? 0)%Z then Qpower (kf k) (- p) else 1) * negprod r
    end.

  Lemma negprod_nz : forall d, ~ negprod d == 0.
  Proof.
    induction d as [|[k p] r IH]; simpl; [discriminate|].
    intro E. apply Qmult_integral in E. destruct E as [E|E]; [|tauto].
    destruct (p <? 0)%Z; [|discriminate]. revert E. apply Qpower_not_0, kf_of_nz.
  Qed.

  Lemma den_f_split : forall d, den_f kf d == posprod d / negprod d.
  Proof.
    induction d as [|[k p] r IH]; simpl.
    - field.
    - rewrite IH. pose proof (negprod_nz r) as Hn.
      destruct (0 <? p)%Z eqn:E1, (p <? 0)%Z eqn:E2; try lia.
      + field. exact Hn.
      + replace p with (- - p)%Z at 1 by lia. rewrite Qpower_opp. field.
        split; [exact Hn|apply Qpower_not_0, kf_of_nz].
      + assert (p = 0)%Z by lia. subst p. simpl. field. exact Hn.
  Qed.

  Lemma ksem_key : forall k, ksem t (key_expr k) = kf k.
  Proof. intros [s|q i]; reflexivity. Qed.

  Lemma ksem_pow_expr : forall k p, (0 < p)%Z -> ksem t (pow_expr k p) == Qpower (kf k) p.
  Proof.
    intros k p Hp. unfold pow_expr. destruct (1 <? p)%Z eqn:E.
    - simpl ksem. assert (Hz : ~ inject_Z p == 0).
      { intro Hc. unfold Qeq, inject_Z in Hc. simpl in Hc. lia. }
      rewrite (qz_of_neq _ Hz). rewrite as_int_inject_Z. rewrite ksem_key. reflexivity.
    - assert (p = 1)%Z by lia. subst p. rewrite ksem_key. rewrite Qpower_1_r. reflexivity.
  Qed.

  Definition osem (acc : option expr) : Q := match acc with Some e => ksem t e | None => 1 end.

  Lemma num_chain_sem : forall d acc, osem (num_chain acc d) == osem acc * posprod d.
  Proof.
    induction d as [|[k p] r IH]; intro acc; simpl.
    - ring.
    - destruct (0 <? p)%Z eqn:E.
      + rewrite IH. destruct acc as [a|]; simpl osem.
        * rewrite ksem_pow_expr by lia. ring.
        * rewrite ksem_pow_expr by lia. ring.
      + rewrite IH. ring.
  Qed.

  Lemma den_chain_sem : forall d acc, ksem t (den_chain acc d) == ksem t acc / negprod d.
  Proof.
    induction d as [|[k p] r IH]; intro acc; simpl.
    - field.
    - pose proof (negprod_nz r) as Hn. destruct (p <? 0)%Z eqn:E.
      + rewrite IH. simpl ksem. rewrite ksem_pow_expr by lia. field.
        split; [exact Hn|apply Qpower_not_0, kf_of_nz].
      + rewrite IH. field. exact Hn.
  Qed.

  (* the expression printed by name() denotes the product of the names dictionary *)
  Lemma name_expr_sem : forall u, ksem t (name_expr u) == den_f kf (u_names u).
  Proof.
    intro u. unfold name_expr. rewrite den_chain_sem, den_f_split.
    pose proof (num_chain_sem (u_names u) None) as H. simpl osem in H.
    destruct (num_chain None (u_names u)) as [e|]; simpl osem in H.
    - rewrite H. field. apply negprod_nz.
    - assert (Hp : posprod (u_names u) == 1)
        by (transitivity (1 * posprod (u_names u)); [ring|symmetry; exact H]).
      rewrite Hp. simpl ksem. change (qz 1) with false. cbv iota. reflexivity.
  Qed.
End Name.

(* ---------------------------------------------------------------- number keys stay non-zero *)

Definition keys_nz (d : ndict) : Prop :=
  Forall (fun kv => match fst kv with KN q _ => ~ q == 0 | KU _ => True end) d.

Lemma keys_nz_set : forall d k v,
  keys_nz d -> (match k with KN q _ => ~ q == 0 | KU _ => True end) -> keys_nz (nd_set d k v).
Proof.
  induction d as [|[k' p] r IH]; intros k v Hd Hk; simpl.
  - constructor; [exact Hk|constructor].
  - inversion Hd; subst. destruct (key_eqb k' k); constructor; auto. apply IH; assumption.
Qed.

Lemma keys_nz_add : forall b a, keys_nz a -> keys_nz b -> keys_nz (nd_add a b).
Proof.
  unfold nd_add. induction b as [|[k p] r IH]; intros a Ha Hb; simpl; [exact Ha|].
  inversion Hb; subst. apply IH; [|assumption]. apply keys_nz_set; assumption.
Qed.

Lemma keys_nz_sub : forall b a, keys_nz a -> keys_nz b -> keys_nz (nd_sub a b).
Proof.
  unfold nd_sub. induction b as [|[k p] r IH]; intros a Ha Hb; simpl; [exact Ha|].
  inversion Hb; subst. apply IH; [|assumption]. apply keys_nz_set; assumption.
Qed.

Lemma keys_nz_scale : forall n a, keys_nz a -> keys_nz (nd_scale n a).
Proof.
  unfold nd_scale, keys_nz. intros n a H. induction H; simpl; constructor; auto.
Qed.

Definition vkeys (v : pyv) : Prop := match v with PNum _ _ => True | PUnit u _ => keys_nz (u_names u) end.

Lemma keys_nz_single : forall n i, ~ n == 0 -> keys_nz [(KN n i, 1%Z)].
Proof. intros. constructor; [exact H|constructor]. Qed.
Lemma keys_nz_single' : forall n i z, ~ n == 0 -> keys_nz [(KN n i, z)].
Proof. intros. constructor; [exact H|constructor]. Qed.

Lemma eval_keys : forall t e v,
  table_named t -> lits_nz e -> eval None t e = Ok v -> vkeys v.
Proof.
  intros t e. induction e as [s|q i|a IHa b IHb|a IHa b IHb|a IHa b IHb|a IHa]; intros v Ht Hl H;
    simpl in H.
  - destruct (tbl_get t s) as [[j u]|] eqn:Eg; [|discriminate]. inversion H; subst. simpl.
    destruct (Ht _ _ _ Eg) as (_ & s' & j' & w & Hn & _). rewrite Hn. constructor; [exact I|constructor].
  - inversion H; subst. exact I.
  - destruct Hl as [La Lb].
    destruct (eval None t a) as [x|] eqn:Ea; [|discriminate]. destruct (eval None t b) as [y|] eqn:Eb; [|discriminate].
    assert (Va := eval_vok None t a x Ht (fun p E => ltac:(discriminate)) La Ea).
    assert (Vb := eval_vok None t b y Ht (fun p E => ltac:(discriminate)) Lb Eb).
    specialize (IHa _ Ht La eq_refl). specialize (IHb _ Ht Lb eq_refl).
    destruct x as [qa ia|ua oa], y as [qb ib|ub ob]; simpl in H, IHa, IHb, Va, Vb.
    + inversion H; subst. exact I.
    + unfold u_mul_num in H. destruct (negb (qz (u_offset ub))); [discriminate|]. inversion H; subst. simpl.
      apply keys_nz_set; [exact IHb|exact Va].
    + unfold u_mul_num in H. destruct (negb (qz (u_offset ua))); [discriminate|]. inversion H; subst. simpl.
      apply keys_nz_set; [exact IHa|exact Vb].
    + unfold u_mul in H. destruct (negb (qz (u_offset ua)) || negb (qz (u_offset ub))); [discriminate|].
      inversion H; subst. simpl. apply keys_nz_add; assumption.
  - destruct Hl as [La Lb].
    destruct (eval None t a) as [x|] eqn:Ea; [|discriminate]. destruct (eval None t b) as [y|] eqn:Eb; [|discriminate].
    assert (Va := eval_vok None t a x Ht (fun p E => ltac:(discriminate)) La Ea).
    assert (Vb := eval_vok None t b y Ht (fun p E => ltac:(discriminate)) Lb Eb).
    specialize (IHa _ Ht La eq_refl). specialize (IHb _ Ht Lb eq_refl).
    destruct x as [qa ia|ua oa], y as [qb ib|ub ob]; simpl in H, IHa, IHb, Va, Vb.
    + destruct (qz qb); [discriminate|]. inversion H; subst. exact I.
    + unfold u_rdiv_num in H. destruct (qz (u_factor ub)); [discriminate|]. inversion H; subst. simpl.
      apply keys_nz_sub; [apply keys_nz_single; exact Va|exact IHb].
    + unfold u_div_num in H. destruct (negb (qz (u_offset ua))); [discriminate|].
      destruct (qz qb); [discriminate|]. inversion H; subst. simpl.
      apply keys_nz_set; [exact IHa|exact Vb].
    + unfold u_div in H. destruct (negb (qz (u_offset ua)) || negb (qz (u_offset ub))); [discriminate|].
      destruct (qz (u_factor ub)); [discriminate|]. inversion H; subst. simpl. apply keys_nz_sub; assumption.
  - destruct Hl as [La Lb].
    destruct (eval None t a) as [x|] eqn:Ea; [|discriminate]. destruct (eval None t b) as [y|] eqn:Eb; [|discriminate].
    specialize (IHa _ Ht La eq_refl). specialize (IHb _ Ht Lb eq_refl).
    destruct x as [qa ia|ua oa], y as [qb ib|ub ob]; simpl in H, IHa, IHb; try discriminate.
    + destruct (as_int qb) as [n|]; [|discriminate]. destruct (qz qa && (n <? 0)%Z); [discriminate|].
      inversion H; subst. exact I.
    + destruct (as_int qb) as [n|]; [|discriminate].
      destruct (ib || (n =? 1)%Z || (n =? -1)%Z); [|discriminate].
      unfold u_pow in H. destruct (negb (qz (u_offset ua))); [discriminate|].
      destruct (qz (u_factor ua) && (n <? 0)%Z); [discriminate|].
      inversion H; subst. simpl. apply keys_nz_scale. exact IHa.
  - destruct (eval None t a) as [x|] eqn:Ea; [|discriminate].
    destruct x as [qa ia|ua oa]; simpl in H; [|discriminate]. inversion H; subst. exact I.
Qed.

(* the printed expression only has non-zero literals when the number keys are non-zero *)
Lemma lits_pow_expr : forall k p, (0 < p)%Z ->
  (match k with KN q _ => ~ q == 0 | KU _ => True end) -> lits_nz (pow_expr k p).
Proof.
  intros k p Hp Hk. unfold pow_expr. destruct (1 <? p)%Z eqn:E.
  - simpl. split; [destruct k; simpl; auto|]. intro Hc. unfold Qeq, inject_Z in Hc. simpl in Hc. lia.
  - destruct k; simpl; auto.
Qed.

Lemma lits_num_chain : forall d acc,
  keys_nz d -> (match acc with Some e => lits_nz e | None => True end) ->
  match num_chain acc d with Some e => lits_nz e | None => True end.
Proof.
  induction d as [|[k p] r IH]; intros acc Hd Ha; simpl; [exact Ha|].
  inversion Hd; subst. simpl in H1. destruct (0 <? p)%Z eqn:E.
  - apply IH; [assumption|]. destruct acc; simpl; [split; [exact Ha|]|]; apply lits_pow_expr; auto; lia.
  - apply IH; assumption.
Qed.

Lemma lits_den_chain : forall d acc, keys_nz d -> lits_nz acc -> lits_nz (den_chain acc d).
Proof.
  induction d as [|[k p] r IH]; intros acc Hd Ha; simpl; [exact Ha|].
  inversion Hd; subst. simpl in H1. destruct (p <? 0)%Z eqn:E.
  - apply IH; [assumption|]. simpl. split; [exact Ha|]. apply lits_pow_expr; auto; lia.
  - apply IH; assumption.
Qed.

Lemma lits_name_expr : forall u, keys_nz (u_names u) -> lits_nz (name_expr u).
Proof.
  intros u H. unfold name_expr. apply lits_den_chain; [exact H|].
  pose proof (lits_num_chain (u_names u) None H I) as Hn.
  destruct (num_chain None (u_names u)); [exact Hn|]. simpl. discriminate.
Qed.

(* ---------------------------------------------------------------- the round trip *)

(* Whenever the name that name() prints for an evaluated unit can itself be evaluated, the value it
   gives has exactly the factor of the unit (for every table whose entries are named by table names,
   every expression with non-zero literals). *)
Theorem name_evaluates_to_same_factor : forall t e u o v',
  table_named t -> lits_nz e ->
  eval None t e = Ok (PUnit u o) ->
  eval None t (name_expr u) = Ok v' ->
  vfac v' == u_factor u.
Proof.
  intros t e u o v' Ht Hl He Hn.
  assert (Hpi : forall p : Q, @None Q = Some p -> ~ p == 0) by (intros p E; discriminate).
  pose proof (eval_vok None t e _ Ht Hpi Hl He) as Hok. simpl in Hok. unfold tnames_ok, names_ok in Hok.
  pose proof (eval_keys t e _ Ht Hl He) as Hk. simpl in Hk.
  rewrite (eval_ksem t (name_expr u) v' Ht (lits_name_expr u Hk) Hn).
  rewrite name_expr_sem. symmetry. exact Hok.
Qed.
