(* C06 — prefix expansion and the (repaired) simplify_unit. *)
From Coq Require Import ZArith QArith Qpower Qfield List String Bool Lia.
From OMV Require Import Base.Val C06.Model C06.Proofs.
Import ListNotations.
Open Scope Q_scope.

Lemma tbl_get_set_same : forall t s x, tbl_get (tbl_set t s x) s = Some x.
Proof.
  induction t as [|[n y] r IH]; intros s x; simpl.
  - rewrite String.eqb_refl. reflexivity.
  - destruct (String.eqb n s) eqn:E; simpl; rewrite E; [reflexivity|apply IH].
Qed.

Lemma tbl_get_set_other : forall t s x s', s' <> s -> tbl_get (tbl_set t s x) s' = tbl_get t s'.
Proof.
  induction t as [|[n y] r IH]; intros s x s' H; simpl.
  - destruct (String.eqb s s') eqn:E; [apply String.eqb_eq in E; congruence|reflexivity].
  - destruct (String.eqb n s) eqn:E; simpl.
    + apply String.eqb_eq in E. subst n. destruct (String.eqb s s') eqn:E'; [apply String.eqb_eq in E'; congruence|reflexivity].
    + destruct (String.eqb n s'); [reflexivity|apply IH; exact H].
Qed.

(* A prefixed name that is not yet in the table is added with the prefix factor times the factor of
   its base unit, the powers of the base unit, offset 0 and its own name; nothing else changes.
   Units with an offset cannot be prefixed. *)
Theorem prefix_factor : forall t item pf bu t',
  tbl_get t item = None -> add_prefixed t item pf bu = Ok t' ->
  (exists j u, tbl_get t' item = Some (j, u) /\ u_factor u == u_factor bu * pf /\
               u_powers u = u_powers bu /\ u_offset u == 0 /\ u_names u = [(KU item, 1%Z)]) /\
  u_offset bu == 0 /\
  (forall s, s <> item -> tbl_get t' s = tbl_get t s).
Proof.
  unfold add_prefixed, u_mul_num, register. intros t item pf bu t' Hn H.
  destruct (qz (u_offset bu)) eqn:Eo; simpl in H; [|discriminate].
  rewrite Hn in H. injection H as <-. apply qz_true in Eo. split; [|split].
  - eexists _, _. split. { apply tbl_get_set_same. } simpl. repeat split; try reflexivity.
    rewrite Eo. ring.
  - exact Eo.
  - intros s Hs. apply tbl_get_set_other. exact Hs.
Qed.

Theorem prefix_refuses_offset : forall t item pf bu,
  ~ u_offset bu == 0 -> add_prefixed t item pf bu = Err ErrRaise.
Proof. unfold add_prefixed, u_mul_num. intros. rewrite (qz_of_neq _ H). reflexivity. Qed.

(* one step of the regex scan of _find_unit on an unknown single-letter-prefixed item *)
Theorem scan_prefixed : forall pfx t item pf i bu,
  tbl_get t item = None ->
  pfx_get pfx (str_take 1 item) = Some pf ->
  tbl_get t (rstrip_us (str_tail item)) = Some (i, bu) ->
  u_offset bu == 0 ->
  exists t', scan pfx t [item] = SDone t' /\ add_prefixed t item pf bu = Ok t'.
Proof.
  intros pfx t item pf i bu Hn Hp Hb Ho. simpl. unfold tbl_mem. rewrite Hn, Hp, Hb.
  unfold add_prefixed, u_mul_num, register. assert (Hq : qz (u_offset bu) = true).
  { unfold qz. apply Qeq_bool_iff. exact Ho. }
  rewrite Hq. simpl. rewrite Hn. eexists. split; reflexivity.
Qed.

(* ---------------------------------------------------------------- simplify_unit (repaired) *)

Lemma unit_same_spec : forall a b, unit_same a b = true ->
  u_powers a = u_powers b /\ u_offset a == u_offset b /\ u_factor a == u_factor b.
Proof.
  unfold unit_same. intros a b H. apply andb_true_iff in H. destruct H as [H Hf].
  apply andb_true_iff in H. destruct H as [Hp Ho].
  repeat split; [apply list_eqb_Z_eq; exact Hp| |]; apply Qeq_bool_iff; assumption.
Qed.

(* What the repaired simplify_unit returns is either the original string, or a name whose
   expression, looked up again in the same table, is a unit with the same dimension, offset and
   factor (the name string is the print of [name_expr u]; that print/parse pair is tied to the code
   by the correspondence, not proved). *)
Theorem simplify_fixed_sound : forall pfx t orig u s,
  simplify_fixed pfx t orig u = Some s ->
  s = orig \/
  exists u', fst (find_unit pfx t (name_expr u)) = FOk u' /\
             u_powers u' = u_powers u /\ u_offset u' == u_offset u /\ u_factor u' == u_factor u.
Proof.
  unfold simplify_fixed. intros pfx t orig u s H.
  destruct (simplify_str u); [|discriminate].
  destruct (fst (find_unit pfx t (name_expr u))) as [u'| |] eqn:E; try (left; congruence).
  destruct (unit_same u' u) eqn:Es; [|left; congruence].
  right. exists u'. split; [reflexivity|]. apply unit_same_spec. exact Es.
Qed.
