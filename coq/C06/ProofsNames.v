(* C06 — the NumberDict of names is a faithful bookkeeping of the factor: products, quotients and
   integer powers of units act on the names exactly as on the factors they denote. *)
From Coq Require Import ZArith QArith Qpower Qfield List String Bool Lia Setoid.
From OMV Require Import Base.Val C06.Model C06.Proofs.
Import ListNotations.
Open Scope Q_scope.

Section Den.
  (* the factor a key stands for: any assignment that respects key equality and is never zero *)
  Variable kf : key -> Q.
  Hypothesis kf_compat : forall a b, key_eqb a b = true -> kf a == kf b.
  Hypothesis kf_nz : forall k, ~ kf k == 0.

  Fixpoint den_f (d : ndict) : Q :=
    match d with
    | [] => 1
    | (k, p) :: r => Qpower (kf k) p * den_f r
    end.

  Lemma den_f_nz : forall d, ~ den_f d == 0.
  Proof.
    induction d as [|[k p] r IH]; simpl.
    - discriminate.
    - intro E. apply Qmult_integral in E. destruct E as [E|E]; [|tauto].
      revert E. apply Qpower_not_0. apply kf_nz.
  Qed.

  Lemma den_set : forall d k v,
    den_f (nd_set d k v) == den_f d * Qpower (kf k) (v - nd_get d k).
  Proof.
    induction d as [|[k' p] r IH]; intros k v; simpl.
    - rewrite Z.sub_0_r. ring.
    - destruct (key_eqb k' k) eqn:E; simpl.
      + rewrite (kf_compat _ _ E).
        replace v with (p + (v - p))%Z at 1 by lia.
        rewrite Qpower_plus by apply kf_nz. ring.
      + rewrite IH. ring.
  Qed.

  Lemma den_add : forall b a, den_f (nd_add a b) == den_f a * den_f b.
  Proof.
    unfold nd_add. induction b as [|[k p] r IH]; intro a; simpl.
    - ring.
    - rewrite IH, den_set. replace (nd_get a k + p - nd_get a k)%Z with p by lia. ring.
  Qed.

  Lemma den_sub : forall b a, den_f (nd_sub a b) == den_f a / den_f b.
  Proof.
    unfold nd_sub. induction b as [|[k p] r IH]; intro a; simpl.
    - field.
    - rewrite IH, den_set. replace (nd_get a k - p - nd_get a k)%Z with (- p)%Z by lia.
      rewrite Qpower_opp. field. split; [apply den_f_nz|apply Qpower_not_0, kf_nz].
  Qed.

  Lemma den_scale : forall n a, den_f (nd_scale n a) == Qpower (den_f a) n.
  Proof.
    unfold nd_scale. induction a as [|[k p] r IH]; simpl.
    - rewrite Qpower_1. reflexivity.
    - rewrite IH, Qmult_power. rewrite Z.mul_comm, Qpower_mult. reflexivity.
  Qed.

  Lemma den_single : forall k p, den_f [(k, p)] == Qpower (kf k) p.
  Proof. intros. simpl. ring. Qed.

  (* A unit whose factor is the one its names denote keeps that property under the unit
     arithmetic: this is why name() can be read back as the same unit. *)
  Definition names_ok (u : unit) : Prop := u_factor u == den_f (u_names u).

  Lemma names_ok_mk : forall nm f o p, f == den_f nm -> names_ok (mkU nm f o p).
  Proof. intros nm f o p H. exact H. Qed.

  Lemma mul_names_ok : forall a b c, names_ok a -> names_ok b -> u_mul a b = Ok c -> names_ok c.
  Proof.
    unfold u_mul. intros a b c Ha Hb H. unfold names_ok in Ha, Hb.
    destruct (negb (qz (u_offset a)) || negb (qz (u_offset b))); [discriminate|].
    injection H as <-. apply names_ok_mk. rewrite den_add, <- Ha, <- Hb. reflexivity.
  Qed.

  Lemma div_names_ok : forall a b c, names_ok a -> names_ok b -> u_div a b = Ok c -> names_ok c.
  Proof.
    unfold u_div. intros a b c Ha Hb H. unfold names_ok in Ha, Hb.
    destruct (negb (qz (u_offset a)) || negb (qz (u_offset b))); [discriminate|].
    destruct (qz (u_factor b)); [discriminate|].
    injection H as <-. apply names_ok_mk. rewrite den_sub, <- Ha, <- Hb. reflexivity.
  Qed.

  Lemma pow_names_ok : forall a n c, names_ok a -> u_pow a n = Ok c -> names_ok c.
  Proof.
    unfold u_pow. intros a n c Ha H. unfold names_ok in Ha.
    destruct (negb (qz (u_offset a))); [discriminate|].
    destruct (qz (u_factor a) && (n <? 0)%Z); [discriminate|].
    injection H as <-. apply names_ok_mk. rewrite den_scale, <- Ha. reflexivity.
  Qed.

  Lemma mul_num_names_ok : forall a n i c,
    names_ok a -> kf (KN n i) == n -> u_mul_num a n i = Ok c -> names_ok c.
  Proof.
    unfold u_mul_num. intros a n i c Ha Hn H. unfold names_ok in Ha.
    destruct (negb (qz (u_offset a))); [discriminate|].
    injection H as <-. apply names_ok_mk. rewrite den_set, <- Ha. replace (nd_get (u_names a) (KN n i) + 1 - nd_get (u_names a) (KN n i))%Z with 1%Z by lia.
    rewrite Qpower_1_r, Hn. reflexivity.
  Qed.

  Lemma div_num_names_ok : forall a n i c,
    names_ok a -> kf (KN n i) == n -> u_div_num a n i = Ok c -> names_ok c.
  Proof.
    unfold u_div_num. intros a n i c Ha Hn H. unfold names_ok in Ha.
    destruct (negb (qz (u_offset a))); [discriminate|].
    destruct (qz n) eqn:En; [discriminate|]. apply qz_false in En.
    injection H as <-. apply names_ok_mk. rewrite den_set, <- Ha. replace (nd_get (u_names a) (KN n i) + -1 - nd_get (u_names a) (KN n i))%Z with (- (1))%Z by lia.
    rewrite Qpower_opp, Qpower_1_r, Hn. field. exact En.
  Qed.

  Lemma rdiv_num_names_ok : forall a n i c,
    names_ok a -> kf (KN n i) == n -> u_rdiv_num a n i = Ok c -> names_ok c.
  Proof.
    unfold u_rdiv_num. intros a n i c Ha Hn H. unfold names_ok in Ha.
    destruct (qz (u_factor a)) eqn:Ef; [discriminate|].
    injection H as <-. apply names_ok_mk. rewrite den_sub, <- Ha, den_single, Hn. rewrite Qpower_1_r. reflexivity.
  Qed.
End Den.

(* ---------------------------------------------------------------- evaluation keeps names faithful *)

(* the factor a key denotes in a table: the factor of the unit bound to the name, the number itself *)
Definition kf_of (t : table) (k : key) : Q :=
  match k with
  | KU s => match tbl_get t s with
            | Some (_, u) => if qz (u_factor u) then 1 else u_factor u
            | None => 1
            end
  | KN q _ => if qz q then 1 else q
  end.

Lemma kf_of_compat : forall t a b, key_eqb a b = true -> kf_of t a == kf_of t b.
Proof.
  intros t [s|q i] [s'|r j] H; simpl in H; try discriminate.
  - apply String.eqb_eq in H. subst. reflexivity.
  - apply andb_true_iff in H. destruct H as [H _]. apply Qeq_bool_iff in H. unfold kf_of, qz.
    destruct (Qeq_bool q 0) eqn:E1, (Qeq_bool r 0) eqn:E2; try reflexivity; try exact H.
    + apply Qeq_bool_iff in E1. rewrite H in E1. apply Qeq_bool_iff in E1. congruence.
    + apply Qeq_bool_iff in E2. rewrite <- H in E2. apply Qeq_bool_iff in E2. congruence.
Qed.

Lemma kf_of_nz : forall t k, ~ kf_of t k == 0.
Proof.
  intros t [s|q i]; simpl.
  - destruct (tbl_get t s) as [[j u]|]; [|discriminate].
    destruct (qz (u_factor u)) eqn:E; [discriminate|]. apply qz_false. exact E.
  - destruct (qz q) eqn:E; [discriminate|]. apply qz_false. exact E.
Qed.

Lemma kf_of_num : forall t n i, ~ n == 0 -> kf_of t (KN n i) == n.
Proof. intros t n i H. simpl. rewrite (qz_of_neq _ H). reflexivity. Qed.

Definition tnames_ok (t : table) : unit -> Prop := names_ok (kf_of t).

(* every entry of the table is named by a table name that carries its factor (part of table_wf) *)
Definition table_named (t : table) : Prop :=
  forall s i u, tbl_get t s = Some (i, u) ->
    ~ u_factor u == 0 /\
    exists s' j w, u_names u = [(KU s', 1%Z)] /\ tbl_get t s' = Some (j, w) /\ u_factor w == u_factor u.

Lemma tbl_get_In : forall t s x, tbl_get t s = Some x -> In (s, x) t.
Proof.
  induction t as [|[n y] r IH]; simpl; intros s x H; [discriminate|].
  destruct (String.eqb n s) eqn:E.
  - apply String.eqb_eq in E. inversion H; subst. left. reflexivity.
  - right. apply IH. exact H.
Qed.

Lemma table_wf_named : forall n t, table_wf n t = true -> table_named t.
Proof.
  unfold table_wf, table_named. intros n t H s i u Hg.
  apply tbl_get_In in Hg. rewrite forallb_forall in H. specialize (H _ Hg).
  unfold unit_wf in H. cbn [snd fst] in H.
  apply andb_true_iff in H. destruct H as [H Hn]. apply andb_true_iff in H. destruct H as [Hf _].
  split. { apply qz_false. destruct (qz (u_factor u)); [discriminate|reflexivity]. }
  destruct (u_names u) as [|[k p] rest]; [discriminate|].
  destruct k as [s'|q b]; [|discriminate].
  destruct p as [|p|p]; try discriminate. destruct p; try discriminate.
  destruct rest; [|discriminate].
  destruct (tbl_get t s') as [[j w]|] eqn:Eg; [|discriminate].
  exists s', j, w. repeat split; auto.
  repeat (apply andb_true_iff in Hn; destruct Hn as [Hn ?]).
  apply Qeq_bool_iff. assumption.
Qed.

Lemma table_unit_names_ok : forall t s i u, table_named t -> tbl_get t s = Some (i, u) -> tnames_ok t u.
Proof.
  intros t s i u Ht Hg. destruct (Ht _ _ _ Hg) as (Hnz & s' & j & w & Hn & Hg' & Hf).
  unfold tnames_ok, names_ok. rewrite Hn. simpl. rewrite Hg'.
  assert (Hw : ~ u_factor w == 0) by (rewrite Hf; exact Hnz).
  rewrite (qz_of_neq _ Hw). rewrite Hf. ring.
Qed.

(* literals of an expression are non-zero numbers *)
Fixpoint lits_nz (e : expr) : Prop :=
  match e with
  | EName _ => True
  | ENum q _ => ~ q == 0
  | EMul a b | EDiv a b | EPow a b => lits_nz a /\ lits_nz b
  | ENeg a => lits_nz a
  end.

Definition vok (t : table) (v : pyv) : Prop :=
  match v with
  | PNum q _ => ~ q == 0
  | PUnit u _ => tnames_ok t u
  end.

Lemma eval_vok : forall pi t e v,
  table_named t -> (forall p, pi = Some p -> ~ p == 0) -> lits_nz e ->
  eval pi t e = Ok v -> vok t v.
Proof.
  intros pi t e. induction e as [s|q i|a IHa b IHb|a IHa b IHb|a IHa b IHb|a IHa]; intros v Ht Hpi Hl H;
    simpl in H.
  - destruct (tbl_get t s) as [[j u]|] eqn:Eg.
    + inversion H; subst. simpl. eapply table_unit_names_ok; eauto.
    + destruct pi as [p|]; [|discriminate]. destruct (String.eqb s "pi"); [|discriminate].
      inversion H; subst. simpl. apply Hpi. reflexivity.
  - inversion H; subst. exact Hl.
  - destruct Hl as [La Lb].
    destruct (eval pi t a) as [x|] eqn:Ea; [|discriminate]. destruct (eval pi t b) as [y|] eqn:Eb; [|discriminate].
    specialize (IHa _ Ht Hpi La eq_refl). specialize (IHb _ Ht Hpi Lb eq_refl).
    destruct x as [qa ia|ua oa], y as [qb ib|ub ob]; simpl in H, IHa, IHb.
    + inversion H; subst. simpl. intro E. apply Qmult_integral in E. tauto.
    + destruct (u_mul_num ub qa ia) eqn:E; [|discriminate]. inversion H; subst. simpl.
      exact (mul_num_names_ok _ (kf_of_compat t) (kf_of_nz t) _ _ _ _ IHb (kf_of_num t _ _ IHa) E).
    + destruct (u_mul_num ua qb ib) eqn:E; [|discriminate]. inversion H; subst. simpl.
      exact (mul_num_names_ok _ (kf_of_compat t) (kf_of_nz t) _ _ _ _ IHa (kf_of_num t _ _ IHb) E).
    + destruct (u_mul ua ub) eqn:E; [|discriminate]. inversion H; subst. simpl.
      exact (mul_names_ok _ (kf_of_compat t) (kf_of_nz t) _ _ _ IHa IHb E).
  - destruct Hl as [La Lb].
    destruct (eval pi t a) as [x|] eqn:Ea; [|discriminate]. destruct (eval pi t b) as [y|] eqn:Eb; [|discriminate].
    specialize (IHa _ Ht Hpi La eq_refl). specialize (IHb _ Ht Hpi Lb eq_refl).
    destruct x as [qa ia|ua oa], y as [qb ib|ub ob]; simpl in H, IHa, IHb.
    + destruct (qz qb); [discriminate|]. inversion H; subst. simpl.
      intro E. apply IHa. assert (X : qa == (qa / qb) * qb) by (field; exact IHb). rewrite X, E. ring.
    + destruct (u_rdiv_num ub qa ia) eqn:E; [|discriminate]. inversion H; subst. simpl.
      exact (rdiv_num_names_ok _ (kf_of_compat t) (kf_of_nz t) _ _ _ _ IHb (kf_of_num t _ _ IHa) E).
    + destruct (u_div_num ua qb ib) eqn:E; [|discriminate]. inversion H; subst. simpl.
      exact (div_num_names_ok _ (kf_of_compat t) (kf_of_nz t) _ _ _ _ IHa (kf_of_num t _ _ IHb) E).
    + destruct (u_div ua ub) eqn:E; [|discriminate]. inversion H; subst. simpl.
      exact (div_names_ok _ (kf_of_compat t) (kf_of_nz t) _ _ _ IHa IHb E).
  - destruct Hl as [La Lb].
    destruct (eval pi t a) as [x|] eqn:Ea; [|discriminate]. destruct (eval pi t b) as [y|] eqn:Eb; [|discriminate].
    specialize (IHa _ Ht Hpi La eq_refl). specialize (IHb _ Ht Hpi Lb eq_refl).
    destruct x as [qa ia|ua oa], y as [qb ib|ub ob]; simpl in H, IHa, IHb; try discriminate.
    + destruct (as_int qb) as [n|]; [|discriminate]. destruct (qz qa && (n <? 0)%Z); [discriminate|].
      inversion H; subst. simpl. apply Qpower_not_0. exact IHa.
    + destruct (as_int qb) as [n|]; [|discriminate].
      destruct (ib || (n =? 1)%Z || (n =? -1)%Z); [|discriminate].
      destruct (u_pow ua n) eqn:E; [|discriminate]. inversion H; subst. simpl.
      exact (pow_names_ok _ _ _ _ IHa E).
  - destruct (eval pi t a) as [x|] eqn:Ea; [|discriminate].
    specialize (IHa _ Ht Hpi Hl eq_refl). destruct x as [qa ia|ua oa]; simpl in H; [|discriminate].
    inversion H; subst. simpl in *. intro E. apply IHa. rewrite <- (Qopp_involutive qa), E. reflexivity.
Qed.
