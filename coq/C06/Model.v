(* C06 — model of openmdao/utils/units.py (definitions only; proofs are in Proofs*.v).

   Numbers are exact rationals (float rounding is not modelled).  The model follows the code:
     NumberDict           ordered association list with default 0 (the nd_ functions)
     PhysicalUnit         record [unit]; __mul__/__rmul__/__div__/__rdiv__/__pow__ (the u_ functions)
     eval(...)            [eval] over the Python AST of the unit string (the string -> AST step is
                          Python's own parser, run by the harness)
     import_library       [load_library] over the regenerated tables of GenUnitLib.v, including the
                          aliasing of add_unit (a definition that is a bare name renames the shared object)
     _find_unit           [find_unit]: 'as' -> 'as_', first eval, regex scan with 1- and 2-letter
                          prefix expansion (which extends the table), final eval
     conversion_tuple_to, is_compatible, convert_units, name(), simplify_unit.
   Exception classes are collapsed to: invalid unit (None / ValueError), raised (any other
   exception escaping _find_unit), incompatible (TypeError of conversion_tuple_to), zero division. *)
From Coq Require Import ZArith QArith Qabs List String Ascii Bool DecimalString.
From OMV Require Import Base.Val.
Import ListNotations.
Open Scope Z_scope.

(* ------------------------------------------------------------------ NumberDict *)

(* keys of PhysicalUnit._names: a unit name, or str(number) (isint: Python int vs float) *)
Inductive key := KU (s : string) | KN (q : Q) (isint : bool).

Definition key_eqb (a b : key) : bool :=
  match a, b with
  | KU s, KU t => String.eqb s t
  | KN q i, KN r j => Qeq_bool q r && Bool.eqb i j
  | _, _ => false
  end.

Definition ndict := list (key * Z).

Fixpoint nd_get (d : ndict) (k : key) : Z :=
  match d with
  | [] => 0
  | (k', v) :: r => if key_eqb k' k then v else nd_get r k
  end.

Fixpoint nd_set (d : ndict) (k : key) (v : Z) : ndict :=
  match d with
  | [] => [(k, v)]
  | (k', v') :: r => if key_eqb k' k then (k', v) :: r else (k', v') :: nd_set r k v
  end.

(* NumberDict.__add__ / __sub__: copy of self, then sum[k] = sum[k] +- v for other's items *)
Definition nd_add (a b : ndict) : ndict :=
  fold_left (fun acc kv => nd_set acc (fst kv) (nd_get acc (fst kv) + snd kv)) b a.
Definition nd_sub (a b : ndict) : ndict :=
  fold_left (fun acc kv => nd_set acc (fst kv) (nd_get acc (fst kv) - snd kv)) b a.
Definition nd_scale (n : Z) (a : ndict) : ndict := map (fun kv => (fst kv, n * snd kv)) a.

(* ------------------------------------------------------------------ PhysicalUnit *)

Record unit := mkU { u_names : ndict; u_factor : Q; u_offset : Q; u_powers : list Z }.

Inductive err := ErrName | ErrRaise.
Inductive res (A : Type) := Ok (a : A) | Err (e : err).
Arguments Ok {A} a.
Arguments Err {A} e.

Definition qz (q : Q) : bool := Qeq_bool q 0.

(* [f(a, b) for a, b in zip(x, y)] *)
Fixpoint zipw (f : Z -> Z -> Z) (x y : list Z) : list Z :=
  match x, y with
  | a :: x', b :: y' => f a b :: zipw f x' y'
  | _, _ => []
  end.

Definition u_mul (a b : unit) : res unit :=
  if negb (qz (u_offset a)) || negb (qz (u_offset b)) then Err ErrRaise
  else Ok (mkU (nd_add (u_names a) (u_names b)) (u_factor a * u_factor b) 0
               (zipw Z.add (u_powers a) (u_powers b))).

(* unit * number  and  number * unit (__rmul__ = __mul__) *)
Definition u_mul_num (a : unit) (n : Q) (isint : bool) : res unit :=
  if negb (qz (u_offset a)) then Err ErrRaise
  else Ok (mkU (nd_add (u_names a) [(KN n isint, 1)]) (u_factor a * n) (u_offset a * n) (u_powers a)).

Definition u_div (a b : unit) : res unit :=
  if negb (qz (u_offset a)) || negb (qz (u_offset b)) then Err ErrRaise
  else if qz (u_factor b) then Err ErrRaise
  else Ok (mkU (nd_sub (u_names a) (u_names b)) (u_factor a / u_factor b) 0
               (zipw Z.sub (u_powers a) (u_powers b))).

Definition u_div_num (a : unit) (n : Q) (isint : bool) : res unit :=
  if negb (qz (u_offset a)) then Err ErrRaise
  else if qz n then Err ErrRaise
  else Ok (mkU (nd_add (u_names a) [(KN n isint, -1)]) (u_factor a / n) 0 (u_powers a)).

(* __rdiv__: number / unit; no offset test in the code *)
Definition u_rdiv_num (a : unit) (n : Q) (isint : bool) : res unit :=
  if qz (u_factor a) then Err ErrRaise
  else Ok (mkU (nd_sub [(KN n isint, 1)] (u_names a)) (n / u_factor a) 0 (map Z.opp (u_powers a))).

(* __pow__ with a Python int exponent *)
Definition u_pow (a : unit) (n : Z) : res unit :=
  if negb (qz (u_offset a)) then Err ErrRaise
  else if qz (u_factor a) && (n <? 0) then Err ErrRaise
  else Ok (mkU (nd_scale n (u_names a)) (Qpower (u_factor a) n) 0 (map (fun x => x * n) (u_powers a))).

(* ------------------------------------------------------------------ expressions and eval *)

Inductive expr :=
| EName (s : string)
| ENum (q : Q) (isint : bool)
| EMul (a b : expr)
| EDiv (a b : expr)
| EPow (a b : expr)
| ENeg (a : expr).

(* the unit table: name -> (object identity, unit) *)
Definition table := list (string * (nat * unit)).

Fixpoint tbl_get (t : table) (s : string) : option (nat * unit) :=
  match t with
  | [] => None
  | (n, x) :: r => if String.eqb n s then Some x else tbl_get r s
  end.

Definition tbl_mem (t : table) (s : string) : bool :=
  match tbl_get t s with Some _ => true | None => false end.

Fixpoint tbl_set (t : table) (s : string) (x : nat * unit) : table :=
  match t with
  | [] => [(s, x)]
  | (n, y) :: r => if String.eqb n s then (n, x) :: r else (n, y) :: tbl_set r s x
  end.

Definition fresh_id (t : table) : nat := S (fold_right (fun e m => Nat.max (fst (snd e)) m) O t).

(* Python values: numbers (int / float) and PhysicalUnit objects; [obj] = Some id when the value
   is an object of the table itself (a bare name) *)
Inductive pyv := PNum (q : Q) (isint : bool) | PUnit (u : unit) (obj : option nat).

Definition as_int (q : Q) : option Z :=
  let r := Qred q in if Pos.eqb (Qden r) 1 then Some (Qnum r) else None.

Definition v_mul (x y : pyv) : res pyv :=
  match x, y with
  | PNum a ia, PNum b ib => Ok (PNum (a * b) (ia && ib))
  | PUnit u _, PUnit w _ => match u_mul u w with Ok r => Ok (PUnit r None) | Err e => Err e end
  | PUnit u _, PNum b ib => match u_mul_num u b ib with Ok r => Ok (PUnit r None) | Err e => Err e end
  | PNum a ia, PUnit u _ => match u_mul_num u a ia with Ok r => Ok (PUnit r None) | Err e => Err e end
  end.

Definition v_div (x y : pyv) : res pyv :=
  match x, y with
  | PNum a ia, PNum b ib => if qz b then Err ErrRaise else Ok (PNum (a / b) false)
  | PUnit u _, PUnit w _ => match u_div u w with Ok r => Ok (PUnit r None) | Err e => Err e end
  | PUnit u _, PNum b ib => match u_div_num u b ib with Ok r => Ok (PUnit r None) | Err e => Err e end
  | PNum a ia, PUnit u _ => match u_rdiv_num u a ia with Ok r => Ok (PUnit r None) | Err e => Err e end
  end.

(* exponents: only integral values are in the model's grammar (a Python float exponent on a unit,
   or a non-integral exponent on a number, is reported as raised; the harness never sends them) *)
Definition v_pow (x y : pyv) : res pyv :=
  match x, y with
  | PNum a ia, PNum b ib =>
      match as_int b with
      | Some n => if qz a && (n <? 0) then Err ErrRaise
                  else Ok (PNum (Qpower a n) (ia && ib && (0 <=? n)))
      | None => Err ErrRaise
      end
  | PUnit u _, PNum b ib =>
      match as_int b with
      | Some n =>
          (* a Python float exponent takes the inverse-integer branch: 1.0 and -1.0 act like the
             integers (rounded = +-1), any other integral float is refused *)
          if ib || (n =? 1) || (n =? -1)
          then match u_pow u n with Ok r => Ok (PUnit r None) | Err e => Err e end
          else Err ErrRaise
      | None => Err ErrRaise      (* 1/n roots: outside the model grammar *)
      end
  | _, PUnit _ _ => Err ErrRaise
  end.

Definition v_neg (x : pyv) : res pyv :=
  match x with
  | PNum a ia => Ok (PNum (- a) ia)
  | PUnit _ _ => Err ErrRaise
  end.

(* eval(expr, {'pi': pi}?, unit_table): left operand, right operand, then the operation *)
Fixpoint eval (pi : option Q) (t : table) (e : expr) : res pyv :=
  match e with
  | EName s =>
      match tbl_get t s with
      | Some (i, u) => Ok (PUnit u (Some i))
      | None => match pi with
                | Some p => if String.eqb s "pi" then Ok (PNum p false) else Err ErrName
                | None => Err ErrName
                end
      end
  | ENum q i => Ok (PNum q i)
  | EMul a b => match eval pi t a with
                | Err e => Err e
                | Ok x => match eval pi t b with Err e => Err e | Ok y => v_mul x y end
                end
  | EDiv a b => match eval pi t a with
                | Err e => Err e
                | Ok x => match eval pi t b with Err e => Err e | Ok y => v_div x y end
                end
  | EPow a b => match eval pi t a with
                | Err e => Err e
                | Ok x => match eval pi t b with Err e => Err e | Ok y => v_pow x y end
                end
  | ENeg a => match eval pi t a with Err e => Err e | Ok x => v_neg x end
  end.

(* ------------------------------------------------------------------ import_library *)

Inductive def :=
| DExpr (name : string) (e : expr)                             (* name: unit-expression, comment *)
| DOffset (name : string) (factor : Q) (base : expr) (offset : Q).   (* name: factor, base, offset, comment *)

Definition set_name (u : unit) (name : string) : unit :=
  mkU [(KU name, 1)] (u_factor u) (u_offset u) (u_powers u).

(* unit.set_name(name) on a shared object: every table entry bound to that object sees it *)
Definition rename_obj (t : table) (i : nat) (name : string) : table :=
  map (fun e => if Nat.eqb (fst (snd e)) i then (fst e, (i, set_name (snd (snd e)) name)) else e) t.

Fixpoint list_eqb {A} (f : A -> A -> bool) (x y : list A) : bool :=
  match x, y with
  | [], [] => true
  | a :: x', b :: y' => f a b && list_eqb f x' y'
  | _, _ => false
  end.

(* the tail of add_unit / add_offset_unit: duplicate test, then unit_table[name] = unit *)
Definition register (t : table) (name : string) (i : nat) (u : unit) : res table :=
  match tbl_get t name with
  | Some (_, old) =>
      if Qeq_bool (u_factor old) (u_factor u) && list_eqb Z.eqb (u_powers old) (u_powers u)
      then Ok (tbl_set t name (i, u)) else Err ErrRaise
  | None => Ok (tbl_set t name (i, u))
  end.

Definition add_def (pi : Q) (t : table) (d : def) : res table :=
  match d with
  | DExpr name e =>
      match eval (Some pi) t e with
      | Ok (PUnit u (Some i)) => register (rename_obj t i name) name i (set_name u name)
      | Ok (PUnit u None) => register t name (fresh_id t) (set_name u name)
      | Ok (PNum _ _) => Err ErrRaise        (* 'float' object has no attribute set_name *)
      | Err e => Err e                       (* the shipped file needs no prefix resolution *)
      end
  | DOffset name f base off =>
      match eval None t base with
      | Ok (PUnit b _) => register t name (fresh_id t) (mkU [(KU name, 1)] (u_factor b * f) off (u_powers b))
      | Ok (PNum _ _) => Err ErrRaise
      | Err e => Err e
      end
  end.

(* i-th base unit of n: powers e_i; an index past the first position must not restart at 0 *)
Fixpoint unit_vec (n i : nat) : list Z :=
  match n with
  | O => []
  | S n' => match i with
            | O => 1 :: repeat 0 n'
            | S i' => 0 :: unit_vec n' i'
            end
  end.

Fixpoint add_bases (n : nat) (i : nat) (names : list string) (t : table) : table :=
  match names with
  | [] => t
  | nm :: r => add_bases n (S i) r (tbl_set t nm (fresh_id t, mkU [(KU nm, 1)] 1 0 (unit_vec n i)))
  end.

Fixpoint add_defs (pi : Q) (t : table) (ds : list def) : res table :=
  match ds with
  | [] => Ok t
  | d :: r => match add_def pi t d with Ok t' => add_defs pi t' r | Err e => Err e end
  end.

Definition load_library (pi : Q) (bases : list string) (ds : list def) : res table :=
  add_defs pi (add_bases (List.length bases) 0 bases []) ds.

(* ------------------------------------------------------------------ _find_unit *)

Definition fix_as (s : string) : string := if String.eqb s "as" then "as_" else s.

Fixpoint rename_as (e : expr) : expr :=
  match e with
  | EName s => EName (fix_as s)
  | ENum q i => ENum q i
  | EMul a b => EMul (rename_as a) (rename_as b)
  | EDiv a b => EDiv (rename_as a) (rename_as b)
  | EPow a b => EPow (rename_as a) (rename_as b)
  | ENeg a => ENeg (rename_as a)
  end.

(* items of regex [A-Z,a-z]{1}[A-Z,a-z,0-9]* inside one identifier: split at '_', drop leading digits *)
Definition is_digit (c : ascii) : bool :=
  let n := nat_of_ascii c in (48 <=? n)%nat && (n <=? 57)%nat.

Fixpoint drop_digits (s : string) : string :=
  match s with
  | String c r => if is_digit c then drop_digits r else s
  | EmptyString => EmptyString
  end.

Fixpoint split_us (s : string) : list string :=
  match s with
  | EmptyString => [EmptyString]
  | String c r =>
      match split_us r with
      | [] => [String c EmptyString]
      | h :: t => if Ascii.eqb c "_" then EmptyString :: h :: t else String c h :: t
      end
  end.

Definition nonempty (s : string) : bool := match s with EmptyString => false | _ => true end.

Definition pieces (s : string) : list string := filter nonempty (map drop_digits (split_us s)).

Fixpoint expr_items (e : expr) : list string :=
  match e with
  | EName s => map fix_as (pieces s)
  | ENum _ _ => []
  | EMul a b | EDiv a b | EPow a b => expr_items a ++ expr_items b
  | ENeg a => expr_items a
  end.

Fixpoint rstrip_us (s : string) : string :=
  match s with
  | EmptyString => EmptyString
  | String c r => match rstrip_us r with
                  | EmptyString => if Ascii.eqb c "_" then EmptyString else String c EmptyString
                  | r' => String c r'
                  end
  end.

Definition str_tail (s : string) : string := match s with String _ r => r | EmptyString => EmptyString end.
Definition str_take (n : nat) (s : string) : string := substring 0 n s.
Definition str_drop (n : nat) (s : string) : string := substring n (String.length s - n) s.

Fixpoint pfx_get (p : list (string * Q)) (s : string) : option Q :=
  match p with
  | [] => None
  | (n, q) :: r => if String.eqb n s then Some q else pfx_get r s
  end.

(* add_unit(item, prefix * unit_table[base]) *)
Definition add_prefixed (t : table) (item : string) (pf : Q) (bu : unit) : res table :=
  match u_mul_num bu pf false with
  | Ok u => register t item (fresh_id t) (set_name u item)
  | Err e => Err e
  end.

Inductive scan_res := SDone (t : table) | SNone (t : table) | SRaise (t : table).

Fixpoint scan (pfx : list (string * Q)) (t : table) (items : list string) : scan_res :=
  match items with
  | [] => SDone t
  | it :: rest =>
      if tbl_mem t it then scan pfx t rest
      else
        match pfx_get pfx (str_take 1 it), tbl_get t (rstrip_us (str_tail it)) with
        | Some pf, Some (_, bu) =>
            match add_prefixed t it pf bu with Ok t' => scan pfx t' rest | Err _ => SRaise t end
        | _, _ =>
            match pfx_get pfx (str_take 2 it), tbl_get t (str_drop 2 it) with
            | Some pf, Some (_, bu) =>
                match add_prefixed t it pf bu with Ok t' => scan pfx t' rest | Err _ => SRaise t end
            | _, _ => SNone t
            end
        end
  end.

Inductive fres := FOk (u : unit) | FNone | FRaise.

Definition classify (r : res pyv) : fres :=
  match r with
  | Ok (PUnit u _) => FOk u
  | Ok (PNum _ _) => FNone
  | Err _ => FRaise
  end.

Definition find_unit (pfx : list (string * Q)) (t : table) (e0 : expr) : fres * table :=
  let e := rename_as e0 in
  match eval None t e with
  | Ok v => (classify (Ok v), t)
  | Err _ =>
      match scan pfx t (expr_items e) with
      | SDone t' => (classify (eval None t' e), t')
      | SNone t' => (FNone, t')
      | SRaise t' => (FRaise, t')
      end
  end.

(* ------------------------------------------------------------------ conversion *)

Definition compatible (a b : unit) : bool := list_eqb Z.eqb (u_powers a) (u_powers b).

Inductive cres := COk (factor offset : Q) | CIncompat | CZeroDiv.

(* conversion_tuple_to: factor = s1/s2, offset = d1 - d2*s2/s1 *)
Definition conv_tuple (a b : unit) : cres :=
  if compatible a b then
    if qz (u_factor b) || qz (u_factor a) then CZeroDiv
    else COk (u_factor a / u_factor b)%Q (u_offset a - u_offset b * u_factor b / u_factor a)%Q
  else CIncompat.

(* convert_units: (val + offset) * factor *)
Definition convert (v : Q) (a b : unit) : option Q :=
  match conv_tuple a b with
  | COk f o => Some ((v + o) * f)%Q
  | _ => None
  end.

(* ------------------------------------------------------------------ name() and simplify_unit *)

Definition z_str (z : Z) : string := NilZero.string_of_int (Z.to_int z).

Definition key_str (k : key) : string :=
  match k with
  | KU s => s
  | KN q true => match as_int q with Some z => z_str z | None => "?" end
  | KN q false => "?float"
  end.

Fixpoint name_num (d : ndict) : string :=
  match d with
  | [] => ""
  | (k, p) :: r =>
      (if (0 <? p)%Z then "*" ++ key_str k ++ (if (1 <? p)%Z then "**" ++ z_str p else "") else "") ++ name_num r
  end%string.

Fixpoint name_den (d : ndict) : string :=
  match d with
  | [] => ""
  | (k, p) :: r =>
      (if (p <? 0)%Z then "/" ++ key_str k ++ (if (p <? -1)%Z then "**" ++ z_str (- p)%Z else "") else "") ++ name_den r
  end%string.

Definition unit_name (u : unit) : string :=
  let num := name_num (u_names u) in
  ((match num with EmptyString => "1" | String _ r => r end) ++ name_den (u_names u))%string.

(* the expression the name() string denotes (Python precedence: left-associative chain) *)
Definition key_expr (k : key) : expr :=
  match k with KU s => EName s | KN q i => ENum q i end.

Definition pow_expr (k : key) (p : Z) : expr :=
  if (1 <? p)%Z then EPow (key_expr k) (ENum (inject_Z p) true) else key_expr k.

Fixpoint num_chain (acc : option expr) (d : ndict) : option expr :=
  match d with
  | [] => acc
  | (k, p) :: r =>
      if (0 <? p)%Z then
        num_chain (Some (match acc with None => pow_expr k p | Some a => EMul a (pow_expr k p) end)) r
      else num_chain acc r
  end.

Fixpoint den_chain (acc : expr) (d : ndict) : expr :=
  match d with
  | [] => acc
  | (k, p) :: r => if (p <? 0)%Z then den_chain (EDiv acc (pow_expr k (- p)%Z)) r else den_chain acc r
  end.

Definition name_expr (u : unit) : expr :=
  den_chain (match num_chain None (u_names u) with Some e => e | None => ENum 1 true end) (u_names u).

(* simplify_unit: None for '1'; 'as_' is printed 'as' again.  [str_replace_as] undoes fix_as on
   whole identifiers of the printed name *)
Fixpoint name_num' (d : ndict) : string :=
  match d with
  | [] => ""
  | (k, p) :: r =>
      (if (0 <? p)%Z then "*" ++ (match k with KU s => if String.eqb s "as_" then "as" else s | _ => key_str k end)
                      ++ (if (1 <? p)%Z then "**" ++ z_str p else "") else "") ++ name_num' r
  end%string.

Fixpoint name_den' (d : ndict) : string :=
  match d with
  | [] => ""
  | (k, p) :: r =>
      (if (p <? 0)%Z then "/" ++ (match k with KU s => if String.eqb s "as_" then "as" else s | _ => key_str k end)
                      ++ (if (p <? -1)%Z then "**" ++ z_str (- p)%Z else "") else "") ++ name_den' r
  end%string.

Definition simplify_str (u : unit) : option string :=
  if String.eqb (unit_name u) "1" then None
  else let num := name_num' (u_names u) in
       Some ((match num with EmptyString => "1" | String _ r => r end) ++ name_den' (u_names u))%string.

(* ------------------------------------------------------------------ library record and well-formedness *)

Record library := mkLib { l_pfx : list (string * Q); l_nbase : nat; l_tbl : table }.

Definition unit_wf (n : nat) (t : table) (e : string * (nat * unit)) : bool :=
  let u := snd (snd e) in
  negb (qz (u_factor u)) && Nat.eqb (List.length (u_powers u)) n &&
  match u_names u with
  | [(KU s, 1)] =>
      match tbl_get t s with
      | Some (i, w) => Nat.eqb i (fst (snd e)) && Qeq_bool (u_factor w) (u_factor u)
                       && Qeq_bool (u_offset w) (u_offset u) && list_eqb Z.eqb (u_powers w) (u_powers u)
      | None => false
      end
  | _ => false
  end.

Definition table_wf (n : nat) (t : table) : bool := forallb (unit_wf n t) t.

Definition lib_wf (l : library) : bool :=
  table_wf (l_nbase l) (l_tbl l) && forallb (fun p => negb (qz (snd p))) (l_pfx l).

(* ------------------------------------------------------------------ run functions for the correspondence *)

(* A got-leaf [VL [VQ x; VQ scale]] against a want-leaf [VQ y] is compared |x-y| <= tol*scale (the
   model states the magnitude of the operands of a cancelling subtraction); plain rationals are
   compared relatively, |x-y| <= tol*|y|; everything else exactly. *)
Definition q_rel (tol a b : Q) : bool := Qle_bool (Qabs (a - b)%Q) (tol * Qabs b)%Q.

Fixpoint val_close6 (tol : Q) (a b : val) {struct a} : bool :=
  match a, b with
  | VQ x, VQ y => q_rel tol x y
  | VZ x, VQ y => q_rel tol (inject_Z x) y
  | VQ x, VZ y => q_rel tol x (inject_Z y)
  | VL [VQ x; VQ sc], VQ y => Qle_bool (Qabs (x - y)%Q) (tol * sc)%Q
  | VL x, VL y =>
      (fix go (x y : list val) {struct x} : bool :=
         match x, y with
         | [], [] => true
         | a :: x', b :: y' => val_close6 tol a b && go x' y'
         | _, _ => false
         end) x y
  | _, _ => val_eqb a b
  end.

Fixpoint mismatches6_from (tol : Q) (i : nat) (got want : list val) : list nat :=
  match got, want with
  | g :: got', w :: want' =>
      if val_close6 tol g w then mismatches6_from tol (S i) got' want'
      else i :: mismatches6_from tol (S i) got' want'
  | [], [] => []
  | _, _ => [i]
  end.

Definition mismatches6 (tol : Q) (got want : list val) : list nat := mismatches6_from tol 0 got want.

(* binary64 value m * 2^e (how the harness writes the implementation's floats) *)
Definition fq (m e : Z) : Q :=
  if (0 <=? e)%Z then inject_Z (m * 2 ^ e) else Qmake m (Pos.pow 2 (Z.to_pos (- e))).

(* ---- simplify_unit as repaired by props/C06/fix_1.diff: the name is returned only when looking it
   up again gives the same unit (powers, offset, factor); otherwise the original string is kept *)
Definition unit_same (a b : unit) : bool :=
  list_eqb Z.eqb (u_powers a) (u_powers b) && Qeq_bool (u_offset a) (u_offset b)
  && Qeq_bool (u_factor a) (u_factor b).

Definition has_float_key (d : ndict) : bool :=
  existsb (fun kv => match fst kv with KN _ false => true | _ => false end) d.

Definition simplify_fixed (pfx : list (string * Q)) (t : table) (orig : string) (u : unit) : option string :=
  match simplify_str u with
  | None => None
  | Some s =>
      match fst (find_unit pfx t (name_expr u)) with
      | FOk u' => if unit_same u' u then Some (if has_float_key (u_names u) then "~"%string else s) else Some orig
      | _ => Some orig
      end
  end.

Definition v_unit (pfx : list (string * Q)) (t : table) (orig : string) (u : unit) : val :=
  VL [vzs (u_powers u); VQ (u_factor u); VQ (u_offset u);
      match simplify_fixed pfx t orig u with Some s => VS s | None => VN end].

Definition v_conv (a b : unit) (vals : list Q) : val :=
  match conv_tuple a b with
  | COk f o =>
      let sc := (Qabs (u_offset a) + Qabs (u_offset b * u_factor b / u_factor a))%Q in
      VL [VB true; VQ f; VL [VQ o; VQ sc];
          VL (map (fun v => VL [VQ ((v + o) * f)%Q; VQ ((Qabs v + sc) * Qabs f)%Q]) vals)]
  | CIncompat => VL [VB false; VE 3]
  | CZeroDiv => VL [VB true; VE 4]
  end.

(* one source unit against a list of target units of the (unchanging) loaded library *)
Definition run_row (l : library) (a : string) (bs : list string) (vals : list Q) : val :=
  match tbl_get (l_tbl l) a with
  | None => VE 1
  | Some (_, ua) =>
      VL [v_unit (l_pfx l) (l_tbl l) a ua;
          VL (map (fun b => match tbl_get (l_tbl l) b with
                            | Some (_, ub) => v_conv ua ub vals
                            | None => VE 1
                            end) bs)]
  end.

(* a sequence of unit strings looked up one after the other from the freshly loaded library
   (the table grows with prefixed units), then the conversion between the first two *)
Fixpoint run_finds (pfx : list (string * Q)) (t : table) (es : list (expr * string)) : list val * list fres :=
  match es with
  | [] => ([], [])
  | (e, orig) :: r =>
      let ft := find_unit pfx t e in
      let rt := run_finds pfx (snd ft) r in
      ((match fst ft with
        | FOk u => v_unit pfx (snd ft) orig u
        | FNone => VE 1
        | FRaise => VE 2
        end) :: fst rt, fst ft :: snd rt)
  end.

Definition run_seq (l : library) (es : list (expr * string)) (vals : list Q) : val :=
  let rs := run_finds (l_pfx l) (l_tbl l) es in
  VL [VL (fst rs);
      match snd rs with
      | FOk a :: FOk b :: _ => v_conv a b vals
      | _ => VN
      end].
