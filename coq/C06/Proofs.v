(* C06 — proofs about the conversion algebra and the unit arithmetic (all units, all values). *)
From Coq Require Import ZArith QArith Qabs Qpower Qfield List String Bool Lia Lra.
From OMV Require Import Base.Val C06.Model.
Import ListNotations.
Open Scope Q_scope.

Lemma list_eqb_Z_eq : forall x y : list Z, list_eqb Z.eqb x y = true <-> x = y.
Proof.
  induction x as [|a x IH]; destruct y as [|b y]; simpl; split; intro H; try reflexivity; try discriminate.
  - apply andb_true_iff in H. destruct H as [H1 H2]. apply Z.eqb_eq in H1. apply IH in H2. congruence.
  - inversion H; subst. rewrite Z.eqb_refl. simpl. apply IH. reflexivity.
Qed.

Lemma qz_false : forall q, qz q = false -> ~ q == 0.
Proof. unfold qz. intros q H E. apply Qeq_bool_iff in E. congruence. Qed.

Lemma qz_true : forall q, qz q = true -> q == 0.
Proof. unfold qz. intros q H. apply Qeq_bool_iff. exact H. Qed.

Lemma qz_of_neq : forall q, ~ q == 0 -> qz q = false.
Proof. intros q H. destruct (qz q) eqn:E; [|reflexivity]. apply qz_true in E. contradiction. Qed.

(* ---------------------------------------------------------------- compatibility *)

Lemma compatible_iff : forall a b, compatible a b = true <-> u_powers a = u_powers b.
Proof. intros. unfold compatible. apply list_eqb_Z_eq. Qed.

Lemma compatible_refl : forall a, compatible a a = true.
Proof. intro. apply compatible_iff. reflexivity. Qed.

Lemma compatible_sym : forall a b, compatible a b = compatible b a.
Proof.
  intros. destruct (compatible a b) eqn:E, (compatible b a) eqn:F; try reflexivity.
  - apply compatible_iff in E. symmetry in E. apply compatible_iff in E. congruence.
  - apply compatible_iff in F. symmetry in F. apply compatible_iff in F. congruence.
Qed.

Lemma compatible_trans : forall a b c, compatible a b = true -> compatible b c = true -> compatible a c = true.
Proof. intros a b c H1 H2. apply compatible_iff in H1, H2. apply compatible_iff. congruence. Qed.

(* conversion raises the incompatibility TypeError exactly when is_compatible is False *)
Lemma compat_decides : forall a b, conv_tuple a b = CIncompat <-> compatible a b = false.
Proof.
  intros. unfold conv_tuple. destruct (compatible a b); split; intro H; try discriminate; try reflexivity.
  destruct (qz (u_factor b) || qz (u_factor a)); discriminate.
Qed.

Lemma compat_convertible : forall a b,
  ~ u_factor a == 0 -> ~ u_factor b == 0 ->
  (compatible a b = true <-> exists f o, conv_tuple a b = COk f o).
Proof.
  intros a b Ha Hb. unfold conv_tuple. rewrite (qz_of_neq _ Ha), (qz_of_neq _ Hb). simpl.
  destruct (compatible a b); split; intro H; try reflexivity; try discriminate.
  - eauto.
  - destruct H as (f & o & H). discriminate.
Qed.

Lemma convert_some : forall v a b w,
  convert v a b = Some w ->
  compatible a b = true /\ ~ u_factor a == 0 /\ ~ u_factor b == 0 /\
  w = (v + (u_offset a - u_offset b * u_factor b / u_factor a)) * (u_factor a / u_factor b).
Proof.
  unfold convert, conv_tuple. intros v a b w H.
  destruct (compatible a b); [|discriminate].
  destruct (qz (u_factor b)) eqn:Eb; [discriminate|].
  destruct (qz (u_factor a)) eqn:Ea; [discriminate|]. simpl in H. inversion H.
  repeat split; auto using qz_false.
Qed.

Lemma convert_defined : forall v a b,
  compatible a b = true -> ~ u_factor a == 0 -> ~ u_factor b == 0 ->
  convert v a b = Some ((v + (u_offset a - u_offset b * u_factor b / u_factor a)) * (u_factor a / u_factor b)).
Proof.
  intros v a b Hc Ha Hb. unfold convert, conv_tuple. rewrite Hc, (qz_of_neq _ Ha), (qz_of_neq _ Hb). reflexivity.
Qed.

Theorem roundtrip : forall a b v w,
  convert v a b = Some w -> exists v', convert w b a = Some v' /\ v' == v.
Proof.
  intros a b v w H. apply convert_some in H. destruct H as (Hc & Ha & Hb & ->).
  rewrite compatible_sym in Hc. eexists. split. { apply convert_defined; assumption. }
  field. split; assumption.
Qed.

Theorem transitive : forall a b c v w x,
  convert v a b = Some w -> convert w b c = Some x ->
  exists y, convert v a c = Some y /\ y == x.
Proof.
  intros a b c v w x H1 H2. apply convert_some in H1, H2.
  destruct H1 as (Hab & Ha & Hb & ->). destruct H2 as (Hbc & _ & Hc & ->).
  eexists. split. { apply convert_defined; eauto using compatible_trans. }
  field. repeat split; assumption.
Qed.

(* conversion to the unit itself is the identity *)
Theorem convert_self : forall a v w, convert v a a = Some w -> w == v.
Proof.
  intros a v w H. apply convert_some in H. destruct H as (_ & Ha & _ & ->). field. assumption.
Qed.

(* ---------------------------------------------------------------- unit arithmetic *)

Theorem mul_law : forall a b c, u_mul a b = Ok c ->
  u_factor c == u_factor a * u_factor b /\ u_powers c = zipw Z.add (u_powers a) (u_powers b) /\
  u_offset c == 0 /\ u_offset a == 0 /\ u_offset b == 0.
Proof.
  unfold u_mul. intros a b c H.
  destruct (qz (u_offset a)) eqn:Ea; [|discriminate]. destruct (qz (u_offset b)) eqn:Eb; [|discriminate].
  simpl in H. inversion H; subst; simpl. repeat split; try reflexivity; auto using qz_true.
Qed.

Theorem mul_refuses_offsets : forall a b, ~ u_offset a == 0 \/ ~ u_offset b == 0 -> u_mul a b = Err ErrRaise.
Proof.
  unfold u_mul. intros a b [H|H]; rewrite (qz_of_neq _ H); simpl; [reflexivity|].
  destruct (negb (qz (u_offset a))); reflexivity.
Qed.

Theorem div_law : forall a b c, u_div a b = Ok c ->
  u_factor c == u_factor a / u_factor b /\ u_powers c = zipw Z.sub (u_powers a) (u_powers b) /\
  u_offset c == 0 /\ u_offset a == 0 /\ u_offset b == 0 /\ ~ u_factor b == 0.
Proof.
  unfold u_div. intros a b c H.
  destruct (qz (u_offset a)) eqn:Ea; [|discriminate]. destruct (qz (u_offset b)) eqn:Eb; [|discriminate].
  simpl in H. destruct (qz (u_factor b)) eqn:Ef; [discriminate|].
  inversion H; subst; simpl. repeat split; try reflexivity; auto using qz_true, qz_false.
Qed.

Theorem div_refuses_offsets : forall a b, ~ u_offset a == 0 \/ ~ u_offset b == 0 -> u_div a b = Err ErrRaise.
Proof.
  unfold u_div. intros a b [H|H]; rewrite (qz_of_neq _ H); simpl; [reflexivity|].
  destruct (negb (qz (u_offset a))); reflexivity.
Qed.

Theorem pow_law : forall a n c, u_pow a n = Ok c ->
  u_factor c == Qpower (u_factor a) n /\ u_powers c = map (fun x => (x * n)%Z) (u_powers a) /\
  u_offset c == 0 /\ u_offset a == 0.
Proof.
  unfold u_pow. intros a n c H.
  destruct (qz (u_offset a)) eqn:Ea; [|discriminate]. simpl in H.
  destruct (qz (u_factor a) && (n <? 0)%Z); [discriminate|].
  inversion H; subst; simpl. repeat split; try reflexivity; auto using qz_true.
Qed.

Theorem pow_refuses_offsets : forall a n, ~ u_offset a == 0 -> u_pow a n = Err ErrRaise.
Proof. unfold u_pow. intros a n H. rewrite (qz_of_neq _ H). reflexivity. Qed.

Theorem scale_law : forall a n i c, u_mul_num a n i = Ok c ->
  u_factor c == u_factor a * n /\ u_powers c = u_powers a /\ u_offset c == 0.
Proof.
  unfold u_mul_num. intros a n i c H. destruct (qz (u_offset a)) eqn:Ea; [|discriminate].
  simpl in H. inversion H; subst; simpl. apply qz_true in Ea. repeat split; try reflexivity.
  rewrite Ea. ring.
Qed.

(* products, quotients and powers keep a non-zero factor *)
Lemma Qpower_nonzero : forall q n, ~ q == 0 -> ~ Qpower q n == 0.
Proof. intros q n H. apply Qpower_not_0. exact H. Qed.
