(* C06 — the dimension (powers of the base units) is carried by the names dictionary as faithfully
   as the factor, and the printed name evaluates back to the same dimension. *)
From Coq Require Import ZArith QArith Qpower List String Bool Lia Setoid.
From OMV Require Import Base.Val C06.Model C06.Proofs C06.ProofsNames C06.ProofsSimplify.
Import ListNotations.
Open Scope Z_scope.

(* ---------------------------------------------------------------- lists of powers *)

Lemma nth_zipw : forall f a b i, List.length a = List.length b -> f 0 0 = 0 ->
  nth i (zipw f a b) 0 = f (nth i a 0) (nth i b 0).
Proof.
  intros f a. induction a as [|x a IH]; intros b i Hl Hf; destruct b as [|y b]; try discriminate.
  - destruct i; simpl; auto.
  - destruct i; simpl; [reflexivity|]. apply IH; [simpl in Hl; lia|exact Hf].
Qed.

Lemma length_zipw : forall f a b, List.length a = List.length b -> List.length (zipw f a b) = List.length a.
Proof.
  intros f a. induction a as [|x a IH]; intros b Hl; destruct b as [|y b]; try discriminate; simpl.
  - reflexivity.
  - f_equal. apply IH. simpl in Hl. lia.
Qed.

Lemma nth_map0 : forall (f : Z -> Z) a i, f 0 = 0 -> nth i (map f a) 0 = f (nth i a 0).
Proof. intros f a. induction a; intros [|i] H; simpl; auto. Qed.

(* ---------------------------------------------------------------- the power a names dictionary denotes *)

Section Pden.
  Variable kp : key -> Z.
  Hypothesis kp_compat : forall a b, key_eqb a b = true -> kp a = kp b.

  Fixpoint pden (d : ndict) : Z :=
    match d with
    | [] => 0
    | (k, p) :: r => p * kp k + pden r
    end.

  Lemma pden_set : forall d k v, pden (nd_set d k v) = pden d + (v - nd_get d k) * kp k.
  Proof.
    induction d as [|[k' p] r IH]; intros k v; simpl.
    - ring.
    - destruct (key_eqb k' k) eqn:E; simpl.
      + rewrite (kp_compat _ _ E). ring.
      + rewrite IH. ring.
  Qed.

  Lemma pden_add : forall b a, pden (nd_add a b) = pden a + pden b.
  Proof.
    unfold nd_add. induction b as [|[k p] r IH]; intro a; simpl; [ring|].
    rewrite IH, pden_set. ring.
  Qed.

  Lemma pden_sub : forall b a, pden (nd_sub a b) = pden a - pden b.
  Proof.
    unfold nd_sub. induction b as [|[k p] r IH]; intro a; simpl; [ring|].
    rewrite IH, pden_set. ring.
  Qed.

  Lemma pden_scale : forall n a, pden (nd_scale n a) = n * pden a.
  Proof. unfold nd_scale. induction a as [|[k p] r IH]; simpl; [ring|]. rewrite IH. ring. Qed.

  Fixpoint possum (d : ndict) : Z :=
    match d with [] => 0 | (k, p) :: r => (if 0 <? p then p * kp k else 0) + possum r end.
  Fixpoint negsum (d : ndict) : Z :=
    match d with [] => 0 | (k, p) :: r => (if p <? 0 then (- p) * kp k else 0) + negsum r end.

  Lemma pden_split : forall d, pden d = possum d - negsum d.
  Proof.
    induction d as [|[k p] r IH]; simpl; [reflexivity|]. rewrite IH.
    destruct (0 <? p) eqn:E1, (p <? 0) eqn:E2; try lia.
    assert (p = 0) by lia. subst. ring.
  Qed.
End Pden.

(* ---------------------------------------------------------------- over a table *)

(* the power of base unit [i] a key stands for *)
Definition kp_of (t : table) (i : nat) (k : key) : Z :=
  match k with
  | KU s => match tbl_get t s with Some (_, u) => nth i (u_powers u) 0 | None => 0 end
  | KN _ _ => 0
  end.

Lemma kp_of_compat : forall t i a b, key_eqb a b = true -> kp_of t i a = kp_of t i b.
Proof.
  intros t i [s|q b1] [s'|r b2] H; simpl in H; try discriminate; [|reflexivity].
  apply String.eqb_eq in H. subst. reflexivity.
Qed.

(* every table entry has N powers and is named by a table name of the same dimension (part of table_wf) *)
Definition table_dim (N : nat) (t : table) : Prop :=
  forall s i u, tbl_get t s = Some (i, u) ->
    List.length (u_powers u) = N /\
    exists s' j w, u_names u = [(KU s', 1)] /\ tbl_get t s' = Some (j, w) /\ u_powers w = u_powers u.

Lemma table_wf_dim : forall n t, table_wf n t = true -> table_dim n t.
Proof.
  unfold table_wf, table_dim. intros n t H s i u Hg.
  apply tbl_get_In in Hg. rewrite forallb_forall in H. specialize (H _ Hg).
  unfold unit_wf in H. cbn [snd fst] in H.
  apply andb_true_iff in H. destruct H as [H Hn]. apply andb_true_iff in H. destruct H as [_ Hl].
  split. { apply Nat.eqb_eq. exact Hl. }
  destruct (u_names u) as [|[k p] rest]; [discriminate|].
  destruct k as [s'|q b]; [|discriminate].
  destruct p as [|p|p]; try discriminate. destruct p; try discriminate.
  destruct rest; [|discriminate].
  destruct (tbl_get t s') as [[j w]|] eqn:Eg; [|discriminate].
  exists s', j, w. repeat split; auto.
  repeat (apply andb_true_iff in Hn; destruct Hn as [Hn ?]).
  apply list_eqb_Z_eq. assumption.
Qed.

(* the power of base unit [i] an expression denotes *)
Fixpoint psem (t : table) (i : nat) (e : expr) : Z :=
  match e with
  | EName s => kp_of t i (KU s)
  | ENum _ _ => 0
  | EMul a b => psem t i a + psem t i b
  | EDiv a b => psem t i a - psem t i b
  | EPow a b => match as_int (ksem t b) with Some n => psem t i a * n | None => 0 end
  | ENeg a => psem t i a
  end.

Definition vinv (N : nat) (t : table) (i : nat) (e : expr) (v : pyv) : Prop :=
  match v with
  | PNum _ _ => psem t i e = 0
  | PUnit u _ => List.length (u_powers u) = N /\ nth i (u_powers u) 0 = psem t i e /\
                 nth i (u_powers u) 0 = pden (kp_of t i) (u_names u)
  end.

(* evaluation: N powers, the power the expression denotes, and the power the names denote *)
Lemma eval_dim : forall N t i e v,
  table_named t -> table_dim N t -> lits_nz e -> eval None t e = Ok v -> vinv N t i e v.
Proof.
  intros N t i e. pose proof (kp_of_compat t i) as KC.
  induction e as [s|q b0|a IHa b IHb|a IHa b IHb|a IHa b IHb|a IHa]; intros v Ht Hd Hl H; simpl in H.
  - destruct (tbl_get t s) as [[j u]|] eqn:Eg; [|discriminate]. inversion H; subst. simpl.
    destruct (Hd _ _ _ Eg) as (Hlen & s' & j' & w & Hn & Hg' & Hp). rewrite Eg.
    repeat split; auto. rewrite Hn. cbn [pden]. unfold kp_of. rewrite Hg', Hp. ring.
  - inversion H; subst. reflexivity.
  - destruct Hl as [La Lb].
    destruct (eval None t a) as [x|] eqn:Ea; [|discriminate]. destruct (eval None t b) as [y|] eqn:Eb; [|discriminate].
    specialize (IHa _ Ht Hd La eq_refl). specialize (IHb _ Ht Hd Lb eq_refl).
    destruct x as [qa ia|ua oa], y as [qb ib|ub ob]; simpl in H, IHa, IHb; simpl psem.
    + inversion H; subst. simpl. lia.
    + unfold u_mul_num in H. destruct (negb (qz (u_offset ub))); [discriminate|]. injection H as <-.
      destruct IHb as (L & P1 & P2). simpl. repeat split; auto; [lia|].
      change (nd_set (u_names ub) (KN qa ia) (nd_get (u_names ub) (KN qa ia) + 1))
        with (nd_add (u_names ub) [(KN qa ia, 1)]).
      rewrite pden_add by exact KC. simpl. lia.
    + unfold u_mul_num in H. destruct (negb (qz (u_offset ua))); [discriminate|]. injection H as <-.
      destruct IHa as (L & P1 & P2). simpl. repeat split; auto; [lia|].
      change (nd_set (u_names ua) (KN qb ib) (nd_get (u_names ua) (KN qb ib) + 1))
        with (nd_add (u_names ua) [(KN qb ib, 1)]).
      rewrite pden_add by exact KC. simpl. lia.
    + unfold u_mul in H. destruct (negb (qz (u_offset ua)) || negb (qz (u_offset ub))); [discriminate|].
      injection H as <-. destruct IHa as (La' & A1 & A2), IHb as (Lb' & B1 & B2). simpl.
      rewrite length_zipw, nth_zipw, pden_add by (auto; congruence). repeat split; auto; lia.
  - destruct Hl as [La Lb].
    destruct (eval None t a) as [x|] eqn:Ea; [|discriminate]. destruct (eval None t b) as [y|] eqn:Eb; [|discriminate].
    specialize (IHa _ Ht Hd La eq_refl). specialize (IHb _ Ht Hd Lb eq_refl).
    destruct x as [qa ia|ua oa], y as [qb ib|ub ob]; simpl in H, IHa, IHb; simpl psem.
    + destruct (qz qb); [discriminate|]. inversion H; subst. simpl. lia.
    + unfold u_rdiv_num in H. destruct (qz (u_factor ub)); [discriminate|]. injection H as <-.
      destruct IHb as (L & P1 & P2). simpl. rewrite map_length, (nth_map0 Z.opp) by reflexivity.
      rewrite pden_sub by exact KC. simpl. repeat split; auto; lia.
    + unfold u_div_num in H. destruct (negb (qz (u_offset ua))); [discriminate|].
      destruct (qz qb); [discriminate|]. injection H as <-.
      destruct IHa as (L & P1 & P2). simpl. repeat split; auto; [lia|].
      change (nd_set (u_names ua) (KN qb ib) (nd_get (u_names ua) (KN qb ib) + -1))
        with (nd_add (u_names ua) [(KN qb ib, -1)]).
      rewrite pden_add by exact KC. simpl. lia.
    + unfold u_div in H. destruct (negb (qz (u_offset ua)) || negb (qz (u_offset ub))); [discriminate|].
      destruct (qz (u_factor ub)); [discriminate|].
      injection H as <-. destruct IHa as (La' & A1 & A2), IHb as (Lb' & B1 & B2). simpl.
      rewrite length_zipw, nth_zipw, pden_sub by (auto; congruence). repeat split; auto; lia.
  - destruct Hl as [La Lb].
    destruct (eval None t a) as [x|] eqn:Ea; [|discriminate]. destruct (eval None t b) as [y|] eqn:Eb; [|discriminate].
    pose proof (eval_ksem t b y Ht Lb Eb) as Kb.
    specialize (IHa _ Ht Hd La eq_refl). specialize (IHb _ Ht Hd Lb eq_refl).
    destruct x as [qa ia|ua oa], y as [qb ib|ub ob]; simpl in H, IHa, IHb; try discriminate;
      simpl vfac in Kb.
    + destruct (as_int qb) as [n|] eqn:En; [|discriminate]. destruct (qz qa && (n <? 0)%Z); [discriminate|].
      inversion H; subst. unfold vinv. cbn [psem]. rewrite <- (as_int_compat _ _ Kb), En, IHa. ring.
    + destruct (as_int qb) as [n|] eqn:En; [|discriminate].
      destruct (ib || (n =? 1)%Z || (n =? -1)%Z); [|discriminate].
      unfold u_pow in H. destruct (negb (qz (u_offset ua))); [discriminate|].
      destruct (qz (u_factor ua) && (n <? 0)%Z); [discriminate|].
      injection H as <-. destruct IHa as (L & P1 & P2). unfold vinv. cbn [psem u_powers u_names].
      rewrite <- (as_int_compat _ _ Kb), En.
      rewrite map_length, (nth_map0 (fun x => x * n)) by reflexivity.
      rewrite pden_scale. repeat split; auto; lia.
  - destruct (eval None t a) as [x|] eqn:Ea; [|discriminate].
    specialize (IHa _ Ht Hd Hl eq_refl). destruct x as [qa ia|ua oa]; simpl in H; [|discriminate].
    inversion H; subst. simpl in *. exact IHa.
Qed.

(* ---------------------------------------------------------------- the printed name *)

Section NameDim.
  Variable t : table.
  Variable i : nat.
  Let kp := kp_of t i.

  Lemma psem_key : forall k, psem t i (key_expr k) = kp k.
  Proof. intros [s|q b]; reflexivity. Qed.

  Lemma psem_pow_expr : forall k p, 0 < p -> psem t i (pow_expr k p) = p * kp k.
  Proof.
    intros k p Hp. unfold pow_expr. destruct (1 <? p) eqn:E.
    - simpl psem. assert (Hz : ~ (inject_Z p == 0)%Q).
      { intro Hc. unfold Qeq, inject_Z in Hc. simpl in Hc. lia. }
      simpl ksem. rewrite (qz_of_neq _ Hz), as_int_inject_Z, psem_key. ring.
    - assert (p = 1) by lia. subst p. rewrite psem_key. ring.
  Qed.

  Definition osemP (acc : option expr) : Z := match acc with Some e => psem t i e | None => 0 end.

  Lemma num_chain_dim : forall d acc, osemP (num_chain acc d) = osemP acc + possum kp d.
  Proof.
    induction d as [|[k p] r IH]; intro acc; simpl; [ring|].
    destruct (0 <? p) eqn:E; rewrite IH; [|ring].
    destruct acc as [a|]; simpl osemP; rewrite psem_pow_expr by lia; ring.
  Qed.

  Lemma den_chain_dim : forall d acc, psem t i (den_chain acc d) = psem t i acc - negsum kp d.
  Proof.
    induction d as [|[k p] r IH]; intro acc; simpl; [ring|].
    destruct (p <? 0) eqn:E; rewrite IH; [|ring].
    simpl psem. rewrite psem_pow_expr by lia. ring.
  Qed.

  Lemma name_expr_dim : forall u, psem t i (name_expr u) = pden kp (u_names u).
  Proof.
    intro u. unfold name_expr. rewrite den_chain_dim, pden_split.
    pose proof (num_chain_dim (u_names u) None) as H. simpl osemP in H.
    destruct (num_chain None (u_names u)) as [e|]; simpl osemP in H; [lia|]. simpl psem. lia.
  Qed.
End NameDim.

(* ---------------------------------------------------------------- the round trip, dimension and factor *)

(* Whenever the name printed for an evaluated unit evaluates to a unit again, that unit has exactly
   the powers (dimension) and the factor of the original. *)
Theorem name_evaluates_to_same_unit : forall N t e u o u' o',
  table_named t -> table_dim N t -> lits_nz e ->
  eval None t e = Ok (PUnit u o) ->
  eval None t (name_expr u) = Ok (PUnit u' o') ->
  u_powers u' = u_powers u /\ (u_factor u' == u_factor u)%Q.
Proof.
  intros N t e u o u' o' Ht Hd Hl He Hn. split.
  - pose proof (eval_keys t e _ Ht Hl He) as Hk. simpl in Hk.
    pose proof (lits_name_expr u Hk) as Hl'.
    apply (nth_ext _ _ 0 0).
    + destruct (eval_dim N t 0 e _ Ht Hd Hl He) as (L & _).
      destruct (eval_dim N t 0 _ _ Ht Hd Hl' Hn) as (L' & _). congruence.
    + intros i _.
      destruct (eval_dim N t i e _ Ht Hd Hl He) as (_ & _ & P).
      destruct (eval_dim N t i _ _ Ht Hd Hl' Hn) as (_ & P' & _).
      rewrite P', name_expr_dim. symmetry. exact P.
  - exact (name_evaluates_to_same_factor t e u o _ Ht Hl He Hn).
Qed.

(* a bare number is never the same unit: the case the repaired simplify_unit has to catch at run time *)
Open Scope Q_scope.

(* ---------------------------------------------------------------- the invariants survive prefix expansion *)

Lemma tbl_get_set_same' : forall t s x, tbl_get (tbl_set t s x) s = Some x.
Proof.
  induction t as [|[n y] r IH]; intros s x; simpl.
  - rewrite String.eqb_refl. reflexivity.
  - destruct (String.eqb n s) eqn:E; simpl; rewrite E; [reflexivity|apply IH].
Qed.

Lemma tbl_get_set_other' : forall t s x s', s' <> s -> tbl_get (tbl_set t s x) s' = tbl_get t s'.
Proof.
  induction t as [|[n y] r IH]; intros s x s' H; simpl.
  - destruct (String.eqb s s') eqn:E; [apply String.eqb_eq in E; congruence|reflexivity].
  - destruct (String.eqb n s) eqn:E; simpl.
    + apply String.eqb_eq in E. subst n.
      destruct (String.eqb s s') eqn:E'; [apply String.eqb_eq in E'; congruence|reflexivity].
    + destruct (String.eqb n s'); [reflexivity|apply IH; exact H].
Qed.

(* the table _find_unit grows by adding prefixed units keeps both invariants, so the theorems above
   apply to every table reachable from the shipped library by look-ups *)
Theorem add_prefixed_keeps_invariants : forall N t item pf bu i t',
  table_named t -> table_dim N t ->
  tbl_get t item = None -> (exists s, tbl_get t s = Some (i, bu)) ->
  ~ pf == 0 -> add_prefixed t item pf bu = Ok t' ->
  table_named t' /\ table_dim N t'.
Proof.
  intros N t item pf bu i t' Hn Hd Hnone [sb Hb] Hpf H.
  unfold add_prefixed, u_mul_num, register in H.
  destruct (qz (u_offset bu)) eqn:Eo; simpl in H; [|discriminate].
  rewrite Hnone in H. injection H as <-.
  destruct (Hn _ _ _ Hb) as [Hbnz _]. destruct (Hd _ _ _ Hb) as [Hblen _].
  match goal with |- context [tbl_set t item (_, ?u0)] => set (nu := u0) end.
  assert (Hfac : u_factor nu = u_factor bu * pf) by reflexivity.
  assert (Hpow : u_powers nu = u_powers bu) by reflexivity.
  assert (Hnam : u_names nu = [(KU item, 1%Z)]) by reflexivity.
  clearbody nu.
  assert (Hself : tbl_get (tbl_set t item (fresh_id t, nu)) item = Some (fresh_id t, nu))
    by apply tbl_get_set_same'.
  split.
  - intros s j u Hg. destruct (String.eqb s item) eqn:E.
    + apply String.eqb_eq in E. subst s. rewrite Hself in Hg. injection Hg as <- <-.
      split.
      * rewrite Hfac. intro Hc. apply Qmult_integral in Hc. tauto.
      * exists item, (fresh_id t), nu. repeat split; auto.
    + assert (Hne : s <> item) by (intro Hc; subst; rewrite String.eqb_refl in E; discriminate).
      rewrite tbl_get_set_other' in Hg by exact Hne.
      destruct (Hn _ _ _ Hg) as (Hnz & s' & j' & w & Hnm & Hg' & Hf). split; [exact Hnz|].
      exists s', j', w. repeat split; auto.
      rewrite tbl_get_set_other'; [exact Hg'|]. intro Hc. subst s'. congruence.
  - intros s j u Hg. destruct (String.eqb s item) eqn:E.
    + apply String.eqb_eq in E. subst s. rewrite Hself in Hg. injection Hg as <- <-.
      split; [rewrite Hpow; exact Hblen|]. exists item, (fresh_id t), nu. repeat split; auto.
    + assert (Hne : s <> item) by (intro Hc; subst; rewrite String.eqb_refl in E; discriminate).
      rewrite tbl_get_set_other' in Hg by exact Hne.
      destruct (Hd _ _ _ Hg) as (Hl & s' & j' & w & Hnm & Hg' & Hp). split; [exact Hl|].
      exists s', j', w. repeat split; auto.
      rewrite tbl_get_set_other'; [exact Hg'|]. intro Hc. subst s'. congruence.
Qed.
