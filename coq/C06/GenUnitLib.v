(* GENERATED on every run by props/C06/translate.py from openmdao/utils/unit_library.ini — do not edit *)
From Coq Require Import ZArith QArith List String.
From OMV Require Import C06.Model.
Import ListNotations.
Open Scope string_scope.

(* binary64 value of math.pi, exact *)
Definition gen_pi : Q := ((884279719003555) # 281474976710656).

Definition gen_prefixes : list (string * Q) := [
  ("Y", ((1000000000000000000000000) # 1));
  ("Z", ((1000000000000000000000) # 1));
  ("E", ((1000000000000000000) # 1));
  ("P", ((1000000000000000) # 1));
  ("T", ((1000000000000) # 1));
  ("G", ((1000000000) # 1));
  ("M", ((1000000) # 1));
  ("k", ((1000) # 1));
  ("h", ((100) # 1));
  ("da", ((10) # 1));
  ("d", ((1) # 10));
  ("c", ((1) # 100));
  ("m", ((1) # 1000));
  ("u", ((1) # 1000000));
  ("n", ((1) # 1000000000));
  ("p", ((1) # 1000000000000));
  ("f", ((1) # 1000000000000000));
  ("a", ((1) # 1000000000000000000));
  ("z", ((1) # 1000000000000000000000));
  ("y", ((1) # 1000000000000000000000000));
  ("Ei", ((1152921504606846976) # 1));
  ("Pi", ((1125899906842624) # 1));
  ("Ti", ((1099511627776) # 1));
  ("Gi", ((1073741824) # 1));
  ("Mi", ((1048576) # 1));
  ("Ki", ((1024) # 1))
].

Definition gen_bases : list string := ["m"; "kg"; "s"; "A"; "K"; "mol"; "cd"; "rad"; "sr"; "USD"; "pax"; "byte"; "unitless"].

Definition gen_defs : list def := [
  DExpr "g" (EDiv (EName "kg") (ENum ((1000) # 1) true));
  DExpr "Hz" (EDiv (ENum ((1) # 1) true) (EName "s"));
  DExpr "N" (EDiv (EMul (EName "m") (EName "kg")) (EPow (EName "s") (ENum ((2) # 1) true)));
  DExpr "Pa" (EDiv (EName "N") (EPow (EName "m") (ENum ((2) # 1) true)));
  DExpr "J" (EMul (EName "N") (EName "m"));
  DExpr "W" (EDiv (EName "J") (EName "s"));
  DExpr "C" (EMul (EName "A") (EName "s"));
  DExpr "V" (EDiv (EName "W") (EName "A"));
  DExpr "F" (EDiv (EName "C") (EName "V"));
  DExpr "ohm" (EDiv (EName "V") (EName "A"));
  DExpr "S" (EDiv (EName "A") (EName "V"));
  DExpr "Wb" (EMul (EName "V") (EName "s"));
  DExpr "T" (EDiv (EName "Wb") (EPow (EName "m") (ENum ((2) # 1) true)));
  DExpr "H" (EDiv (EName "Wb") (EName "A"));
  DOffset "degC" ((1) # 1) (EName "K") ((5463) # 20);
  DExpr "lm" (EMul (EName "cd") (EName "sr"));
  DExpr "lx" (EDiv (EName "lm") (EPow (EName "m") (ENum ((2) # 1) true)));
  DExpr "Bq" (EDiv (ENum ((1) # 1) true) (EName "s"));
  DExpr "Gy" (EDiv (EName "J") (EName "kg"));
  DExpr "Sv" (EDiv (EName "J") (EName "kg"));
  DExpr "kat" (EDiv (EName "mol") (EName "s"));
  DExpr "min" (EMul (ENum ((60) # 1) true) (EName "s"));
  DExpr "h" (EMul (ENum ((3600) # 1) true) (EName "s"));
  DExpr "d" (EMul (ENum ((86400) # 1) true) (EName "s"));
  DExpr "deg" (EMul (EDiv (EName "pi") (ENum ((180) # 1) true)) (EName "rad"));
  DExpr "arc_minute" (EDiv (EName "deg") (ENum ((60) # 1) true));
  DExpr "arc_second" (EDiv (EName "arc_minute") (ENum ((60) # 1) true));
  DExpr "ha" (EMul (ENum ((10000) # 1) false) (EPow (EName "m") (ENum ((2) # 1) true)));
  DExpr "L" (EMul (ENum ((1) # 1000) false) (EPow (EName "m") (ENum ((3) # 1) true)));
  DExpr "t" (EMul (ENum ((1000) # 1) false) (EName "kg"));
  DExpr "e" (EMul (ENum ((160217653) # 1000000000000000000000000000) false) (EName "C"));
  DExpr "eV" (EMul (EName "e") (EName "V"));
  DExpr "Da" (EMul (ENum ((83026943) # 50000000000000000000000000000000000) false) (EName "kg"));
  DExpr "u" (EName "Da");
  DExpr "ua" (EMul (ENum ((149597870700) # 1) false) (EName "m"));
  DExpr "AU" (EMul (ENum ((149597870700) # 1) false) (EName "m"));
  DExpr "c0" (EDiv (EMul (ENum ((299792458) # 1) false) (EName "m")) (EName "s"));
  DExpr "hbar" (EMul (EMul (ENum ((6591073) # 62500000000000000000000000000000000000000) false) (EName "J")) (EName "s"));
  DExpr "me" (EMul (ENum ((45546913) # 50000000000000000000000000000000000000) false) (EName "kg"));
  DExpr "a0" (EMul (ENum ((1322943027) # 25000000000000000000) false) (EName "m"));
  DExpr "Eh" (EMul (ENum ((435974417) # 100000000000000000000000000) false) (EName "J"));
  DExpr "bar" (EMul (ENum ((100000) # 1) false) (EName "Pa"));
  DExpr "Ang" (EMul (ENum ((1) # 10000000000) false) (EName "m"));
  DExpr "NM" (EMul (ENum ((1852) # 1) false) (EName "m"));
  DExpr "b" (EMul (ENum ((1) # 10000000000000000000000000000) false) (EPow (EName "m") (ENum ((2) # 1) true)));
  DExpr "kn" (EDiv (EName "NM") (EName "h"));
  DExpr "erg" (EMul (ENum ((1) # 10000000) false) (EName "J"));
  DExpr "dyn" (EMul (ENum ((1) # 100000) false) (EName "N"));
  DExpr "P" (EMul (EMul (ENum ((1) # 10) false) (EName "Pa")) (EName "s"));
  DExpr "St" (EDiv (EMul (ENum ((1) # 10000) false) (EPow (EName "m") (ENum ((2) # 1) true))) (EName "s"));
  DExpr "sb" (EDiv (EMul (ENum ((10000) # 1) false) (EName "cd")) (EPow (EName "m") (ENum ((2) # 1) true)));
  DExpr "ph" (EMul (ENum ((10000) # 1) false) (EName "lx"));
  DExpr "Mx" (EMul (ENum ((1) # 100000000) false) (EName "Wb"));
  DExpr "gauss" (EMul (ENum ((1) # 10000) false) (EName "T"));
  DExpr "Oe" (EDiv (EMul (EDiv (ENum ((1000) # 1) false) (EMul (ENum ((4) # 1) true) (EName "pi"))) (EName "A")) (EName "m"));
  DExpr "degK" (EName "K");
  DExpr "nmi" (EName "NM");
  DExpr "knot" (EName "kn");
  DExpr "inch" (EMul (ENum ((127) # 5000) false) (EName "m"));
  DExpr "ft" (EMul (ENum ((381) # 1250) false) (EName "m"));
  DExpr "mi" (EMul (ENum ((201168) # 125) false) (EName "m"));
  DExpr "ly" (EMul (EMul (EName "c0") (ENum ((1461) # 4) false)) (EName "d"));
  DExpr "pc" (EMul (EDiv (ENum ((648000) # 1) true) (EName "pi")) (EName "AU"));
  DExpr "oz" (EMul (ENum ((45359237) # 1600000) false) (EName "g"));
  DExpr "lb" (EMul (ENum ((16) # 1) true) (EName "oz"));
  DExpr "lbm" (EName "lb");
  DExpr "ton" (EMul (ENum ((2000) # 1) true) (EName "lb"));
  DExpr "slug" (EMul (ENum ((145939029) # 10000000) false) (EName "kg"));
  DExpr "wk" (EMul (ENum ((7) # 1) true) (EName "d"));
  DExpr "week" (EMul (ENum ((7) # 1) true) (EName "d"));
  DExpr "a" (EMul (ENum ((365242199) # 1000000) false) (EName "d"));
  DExpr "yr" (EName "a");
  DExpr "year" (EName "a");
  DExpr "mo" (EDiv (EName "yr") (ENum ((12) # 1) true));
  DExpr "month" (EDiv (EName "yr") (ENum ((12) # 1) true));
  DExpr "degR" (EDiv (EMul (EName "K") (ENum ((5) # 1) false)) (ENum ((9) # 1) false));
  DOffset "degF" ((1) # 1) (EName "degR") ((45967) # 100);
  DExpr "tsp" (EMul (ENum ((157725491) # 32000000000) false) (EName "L"));
  DExpr "tbsp" (EMul (ENum ((3) # 1) true) (EName "tsp"));
  DExpr "floz" (EMul (ENum ((2) # 1) true) (EName "tbsp"));
  DExpr "cup" (EMul (ENum ((8) # 1) true) (EName "floz"));
  DExpr "pt" (EMul (ENum ((16) # 1) true) (EName "floz"));
  DExpr "qt" (EMul (ENum ((2) # 1) true) (EName "pt"));
  DExpr "galUS" (EMul (ENum ((3785411) # 1000000) false) (EName "L"));
  DExpr "galUK" (EMul (ENum ((454609) # 100000) false) (EName "L"));
  DExpr "lbf" (EMul (ENum ((222411081) # 50000000) false) (EName "N"));
  DExpr "rev" (EMul (EMul (ENum ((2) # 1) true) (EName "pi")) (EName "rad"));
  DExpr "rpm" (EDiv (EMul (EMul (ENum ((2) # 1) true) (EName "pi")) (EName "rad")) (EName "min"));
  DExpr "rps" (EDiv (EMul (EMul (ENum ((2) # 1) true) (EName "pi")) (EName "rad")) (EName "s"));
  DExpr "cal" (EMul (ENum ((523) # 125) false) (EName "J"));
  DExpr "cali" (EMul (ENum ((10467) # 2500) false) (EName "J"));
  DExpr "Btu" (EMul (ENum ((52752792631) # 50000000) false) (EName "J"));
  DExpr "MMBtu" (EMul (ENum ((52752792631) # 50) false) (EName "J"));
  DExpr "acre" (EDiv (EPow (EName "mi") (ENum ((2) # 1) true)) (ENum ((640) # 1) true));
  DExpr "hp" (EMul (ENum ((7457) # 10) false) (EName "W"));
  DExpr "atm" (EMul (ENum ((101325) # 1) false) (EName "Pa"));
  DExpr "torr" (EDiv (EName "atm") (ENum ((760) # 1) true));
  DExpr "psi" (EMul (ENum ((689475729317) # 100000000) false) (EName "Pa"));
  DExpr "psf" (EDiv (EName "psi") (ENum ((144) # 1) true));
  DExpr "inHg32" (EMul (EName "Pa") (ENum ((3386389) # 1000) false));
  DExpr "inHg60" (EMul (EName "Pa") (ENum ((67537) # 20) false));
  DExpr "mu0" (EDiv (EMul (EMul (ENum ((1) # 2500000) false) (EName "pi")) (EName "N")) (EPow (EName "A") (ENum ((2) # 1) true)));
  DExpr "eps0" (EDiv (EDiv (ENum ((1) # 1) true) (EName "mu0")) (EPow (EName "c0") (ENum ((2) # 1) true)));
  DExpr "Grav" (EDiv (EDiv (EMul (ENum ((667259) # 10000000000000000) false) (EPow (EName "m") (ENum ((3) # 1) true))) (EName "kg")) (EPow (EName "s") (ENum ((2) # 1) true)));
  DExpr "Nav" (EDiv (ENum ((602213670000000000000000) # 1) false) (EName "mol"));
  DExpr "R" (EDiv (EMul (ENum ((25982) # 3125) false) (EName "J")) (EMul (EName "mol") (EName "K")));
  DExpr "V0" (EDiv (EMul (ENum ((28017) # 12500) false) (EPow (EName "m") (ENum ((3) # 1) true))) (EMul (ENum ((1000) # 1) true) (EName "mol")));
  DExpr "planck" (EMul (EMul (ENum ((2) # 1) true) (EName "pi")) (EName "hbar"));
  DExpr "mp" (EMul (ENum ((836307) # 500000000000000000000000000000000) false) (EName "kg"));
  DExpr "mn" (EMul (ENum ((41873) # 25000000000000000000000000000000) false) (EName "kg"));
  DExpr "sigma" (EDiv (EMul (ENum ((566961) # 10000000000000) false) (EName "W")) (EMul (EPow (EName "m") (ENum ((2) # 1) true)) (EPow (EName "K") (ENeg (ENum ((4) # 1) true)))));
  DExpr "Ken" (EMul (ENum ((1380649) # 100000000000000000000000000000) false) (EName "J"));
  DExpr "Rinfinity" (EDiv (ENum ((54868656) # 5) false) (EName "m"));
  DExpr "re" (EMul (ENum ((2817939) # 1000000000000000000000) false) (EName "m"));
  DExpr "lambdac" (EMul (ENum ((3032887) # 1250000000000000000) false) (EName "m"));
  DExpr "lambdap" (EMul (ENum ((13214409) # 10000000000000000000000) false) (EName "m"));
  DExpr "lambdan" (EMul (ENum ((13196217) # 10000000000000000000000) false) (EName "m"));
  DExpr "mue" (EDiv (EMul (ENum ((9284851) # 1000000000000000000000000000000) false) (EName "J")) (EName "T"));
  DExpr "mup" (EDiv (EMul (ENum ((14106203) # 1000000000000000000000000000000000) false) (EName "J")) (EName "T"));
  DExpr "mub" (EDiv (EMul (ENum ((579631) # 62500000000000000000000000000) false) (EName "J")) (EName "T"));
  DExpr "mun" (EDiv (EMul (ENum ((5050951) # 1000000000000000000000000000000000) false) (EName "J")) (EName "T"));
  DExpr "gammap" (EDiv (EMul (ENum ((267512700) # 1) false) (EName "rad")) (EMul (EName "s") (EName "T")));
  DExpr "gammapc" (EDiv (EMul (ENum ((267519650) # 1) false) (EName "rad")) (EMul (EName "s") (EName "T")));
  DExpr "phi0" (EMul (ENum ((10339269) # 5000000000000000000000) false) (EName "Wb"));
  DExpr "hme" (EDiv (EMul (EMul (ENum ((3636947) # 5000000000) false) (EName "J")) (EName "s")) (EName "kg"));
  DExpr "percent" (EDiv (EName "unitless") (ENum ((100) # 1) true));
  DExpr "drag_count" (EDiv (EName "unitless") (ENum ((10000) # 1) false))
].
