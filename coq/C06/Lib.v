(* C06 — the shipped unit library, loaded by the model from the regenerated tables. *)
From Coq Require Import ZArith QArith List String.
From OMV Require Import C06.Model C06.GenUnitLib.
Import ListNotations.

Definition lib_res : res table := Eval vm_compute in load_library gen_pi gen_bases gen_defs.

Definition lib_ok : bool := match lib_res with Ok _ => true | Err _ => false end.

Definition lib : library :=
  mkLib gen_prefixes (List.length gen_bases) (match lib_res with Ok t => t | Err _ => [] end).
