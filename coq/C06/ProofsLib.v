(* C06 — facts about the regenerated shipped library, by computation over the finite table. *)
From Coq Require Import ZArith QArith List String Bool.
From OMV Require Import Base.Val C06.Model C06.GenUnitLib C06.Lib.
Import ListNotations.

(* the shipped file loads in the model (every definition resolves in file order), every unit of the
   table has a non-zero factor, one power per base unit, and a name bound in the table to that same
   object (identity, factor, offset and powers); every prefix factor is non-zero *)
Lemma library_wf :
  load_library gen_pi gen_bases gen_defs = Ok (l_tbl lib) /\
  List.length (l_tbl lib) = (List.length gen_bases + List.length gen_defs)%nat /\
  lib_wf lib = true.
Proof. vm_compute. repeat split; reflexivity. Qed.
