(* C06 — facts about the regenerated shipped library, by computation over the finite table. *)
From Coq Require Import ZArith QArith List String Bool.
From OMV Require Import Base.Val C06.Model C06.GenUnitLib C06.Lib C06.Proofs C06.ProofsNames C06.ProofsFind
     C06.ProofsSimplify C06.ProofsDim.
Import ListNotations.
Open Scope string_scope.

(* the shipped file loads in the model (every definition resolves in file order), every unit of the
   table has a non-zero factor, one power per base unit, and a name bound in the table to that same
   object (identity, factor, offset and powers); every prefix factor is non-zero *)
Lemma library_wf :
  load_library gen_pi gen_bases gen_defs = Ok (l_tbl lib) /\
  List.length (l_tbl lib) = (List.length gen_bases + List.length gen_defs)%nat /\
  lib_wf lib = true.
Proof. vm_compute. repeat split; reflexivity. Qed.

Lemma lib_named : table_named (l_tbl lib).
Proof.
  apply (table_wf_named (l_nbase lib)). destruct library_wf as (_ & _ & H).
  unfold lib_wf in H. apply andb_true_iff in H. exact (proj1 H).
Qed.

(* every unit obtained by evaluating an expression over the shipped library has exactly the factor
   that its names dictionary (what name() prints) denotes *)
Lemma lib_eval_names_factor : forall e u o,
  lits_nz e -> eval None (l_tbl lib) e = Ok (PUnit u o) ->
  (u_factor u == den_f (kf_of (l_tbl lib)) (u_names u))%Q.
Proof.
  intros e u o Hl H.
  assert (Hpi : forall p : Q, @None Q = Some p -> ~ (p == 0)%Q) by (intros p E; discriminate).
  exact (eval_vok None (l_tbl lib) e _ lib_named Hpi Hl H).
Qed.

(* The present simplify_unit (name() without the check of fix_1.diff) is refuted on the shipped
   library: '1000*s/s' is a unit (factor 1000, dimensionless) whose name '1000' is not a unit. *)
Lemma simplify_present_refuted :
  exists e u, fst (find_unit (l_pfx lib) (l_tbl lib) e) = FOk u /\
              simplify_str u = Some "1000" /\
              fst (find_unit (l_pfx lib) (l_tbl lib) (name_expr u)) = FNone.
Proof.
  exists (EDiv (EMul (ENum (1000 # 1) true) (EName "s")) (EName "s")).
  eexists. split; [vm_compute; reflexivity|]. split; vm_compute; reflexivity.
Qed.

(* ... and so is "number / offset unit", which __rdiv__ accepts although products refuse offsets *)
Lemma simplify_present_refuted_offset :
  exists e u, fst (find_unit (l_pfx lib) (l_tbl lib) e) = FOk u /\
              simplify_str u = Some "m*degC/1" /\
              fst (find_unit (l_pfx lib) (l_tbl lib) (name_expr u)) = FRaise.
Proof.
  exists (EDiv (EName "m") (EDiv (ENum (1 # 1) true) (EName "degC"))).
  eexists. split; [vm_compute; reflexivity|]. split; vm_compute; reflexivity.
Qed.

(* the repaired simplify_unit keeps the original string on both *)
Lemma simplify_fixed_examples :
  (forall u, fst (find_unit (l_pfx lib) (l_tbl lib) (EDiv (EMul (ENum (1000 # 1) true) (EName "s")) (EName "s"))) = FOk u ->
             simplify_fixed (l_pfx lib) (l_tbl lib) "1000*s/s" u = Some "1000*s/s") /\
  (forall u, fst (find_unit (l_pfx lib) (l_tbl lib) (EDiv (EMul (EName "ft") (EName "s")) (EName "s"))) = FOk u ->
             simplify_fixed (l_pfx lib) (l_tbl lib) "ft*s/s" u = Some "ft").
Proof.
  split; intros u H; vm_compute in H; injection H as <-; vm_compute; reflexivity.
Qed.

(* non-vacuity of the conversion theorems: degC -> degF on the shipped library *)
Lemma convert_example :
  exists i a j b, tbl_get (l_tbl lib) "degC" = Some (i, a) /\ tbl_get (l_tbl lib) "degF" = Some (j, b) /\
    exists w, convert (100 # 1) a b = Some w /\ (w == 212 # 1)%Q.
Proof.
  vm_compute. do 4 eexists. split; [reflexivity|]. split; [reflexivity|].
  eexists. split; [reflexivity|]. reflexivity.
Qed.

Lemma lib_dim : table_dim (l_nbase lib) (l_tbl lib).
Proof.
  apply table_wf_dim. destruct library_wf as (_ & _ & H).
  unfold lib_wf in H. apply andb_true_iff in H. exact (proj1 H).
Qed.

(* simplify preserves dimension and factor on the shipped library: the name printed for any unit an
   expression evaluates to, when it evaluates to a unit again, is that unit *)
Lemma lib_name_roundtrip : forall e u o u' o',
  lits_nz e -> eval None (l_tbl lib) e = Ok (PUnit u o) ->
  eval None (l_tbl lib) (name_expr u) = Ok (PUnit u' o') ->
  u_powers u' = u_powers u /\ (u_factor u' == u_factor u)%Q.
Proof.
  intros e u o u' o' Hl He Hn.
  exact (name_evaluates_to_same_unit _ _ e u o u' o' lib_named lib_dim Hl He Hn).
Qed.

(* non-vacuity: ft*s/s evaluates, prints "ft", and "ft" evaluates to a unit *)
Lemma lib_name_roundtrip_example :
  exists u o u' o',
    (eval None (l_tbl lib) (EDiv (EMul (EName "ft") (EName "s")) (EName "s")) = Ok (PUnit u o)) /\
    (eval None (l_tbl lib) (name_expr u) = Ok (PUnit u' o')) /\ (simplify_str u = Some "ft").
Proof. do 4 eexists. split; [vm_compute; reflexivity|]. split; vm_compute; reflexivity. Qed.
