(* C06 — property theorems (statements only; proofs by [exact] of lemmas in Proofs*.v). *)
From Coq Require Import ZArith QArith List String.
From OMV Require Import Base.Val C06.Model C06.GenUnitLib C06.Lib C06.Proofs C06.ProofsLib.
Import ListNotations.
Open Scope Q_scope.

(* Converting A -> B and back returns the value: for all units and all rational values, whenever
   the first conversion is defined (compatible powers, non-zero factors) so is the way back. *)
Theorem C06_roundtrip : forall (a b : unit) (v w : Q),
  convert v a b = Some w -> exists v', convert w b a = Some v' /\ v' == v.
Proof. exact roundtrip. Qed.
Print Assumptions C06_roundtrip.

(* A -> B -> C equals A -> C. *)
Theorem C06_transitive : forall (a b c : unit) (v w x : Q),
  convert v a b = Some w -> convert w b c = Some x ->
  exists y, convert v a c = Some y /\ y == x.
Proof. exact transitive. Qed.
Print Assumptions C06_transitive.

(* is_compatible is an equivalence relation ... *)
Theorem C06_compat_equivalence :
  (forall a, compatible a a = true) /\
  (forall a b, compatible a b = compatible b a) /\
  (forall a b c, compatible a b = true -> compatible b c = true -> compatible a c = true).
Proof. exact (conj compatible_refl (conj compatible_sym compatible_trans)). Qed.
Print Assumptions C06_compat_equivalence.

(* ... that exactly decides whether conversion succeeds. *)
Theorem C06_compat_decides_conversion : forall a b : unit,
  (conv_tuple a b = CIncompat <-> compatible a b = false) /\
  (~ u_factor a == 0 -> ~ u_factor b == 0 ->
   (compatible a b = true <-> exists f o, conv_tuple a b = COk f o)).
Proof. exact (fun a b => conj (compat_decides a b) (compat_convertible a b)). Qed.
Print Assumptions C06_compat_decides_conversion.

(* products: factors multiply, powers add; offset units are refused *)
Theorem C06_mul_law : forall a b c : unit, u_mul a b = Ok c ->
  u_factor c == u_factor a * u_factor b /\ u_powers c = zipw Z.add (u_powers a) (u_powers b) /\
  u_offset c == 0 /\ u_offset a == 0 /\ u_offset b == 0.
Proof. exact mul_law. Qed.
Print Assumptions C06_mul_law.

Theorem C06_div_law : forall a b c : unit, u_div a b = Ok c ->
  u_factor c == u_factor a / u_factor b /\ u_powers c = zipw Z.sub (u_powers a) (u_powers b) /\
  u_offset c == 0 /\ u_offset a == 0 /\ u_offset b == 0 /\ ~ u_factor b == 0.
Proof. exact div_law. Qed.
Print Assumptions C06_div_law.

Theorem C06_pow_law : forall (a : unit) (n : Z) (c : unit), u_pow a n = Ok c ->
  u_factor c == Qpower (u_factor a) n /\ u_powers c = map (fun x => (x * n)%Z) (u_powers a) /\
  u_offset c == 0 /\ u_offset a == 0.
Proof. exact pow_law. Qed.
Print Assumptions C06_pow_law.

Theorem C06_library_wf :
  load_library gen_pi gen_bases gen_defs = Ok (l_tbl lib) /\
  List.length (l_tbl lib) = (List.length gen_bases + List.length gen_defs)%nat /\
  lib_wf lib = true.
Proof. exact library_wf. Qed.
Print Assumptions C06_library_wf.
