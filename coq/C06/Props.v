(* C06 — property theorems (statements only; proofs by [exact] of lemmas in Proofs*.v). *)
From Coq Require Import ZArith QArith List String.
From OMV Require Import Base.Val C06.Model C06.GenUnitLib C06.Lib
     C06.Proofs C06.ProofsNames C06.ProofsFind C06.ProofsSimplify C06.ProofsDim C06.ProofsLib.
Import ListNotations.
Open Scope Q_scope.

(* Converting A -> B and back returns the value: for all units and all rational values, whenever
   the first conversion is defined (compatible powers, non-zero factors) so is the way back. *)
Theorem C06_roundtrip : forall (a b : unit) (v w : Q),
  convert v a b = Some w -> exists v', convert w b a = Some v' /\ v' == v.
Proof. exact roundtrip. Qed.
Print Assumptions C06_roundtrip.

(* A -> B -> C equals A -> C. *)
Theorem C06_transitive : forall (a b c : unit) (v w x : Q),
  convert v a b = Some w -> convert w b c = Some x ->
  exists y, convert v a c = Some y /\ y == x.
Proof. exact transitive. Qed.
Print Assumptions C06_transitive.

(* is_compatible is an equivalence relation ... *)
Theorem C06_compat_equivalence :
  (forall a, compatible a a = true) /\
  (forall a b, compatible a b = compatible b a) /\
  (forall a b c, compatible a b = true -> compatible b c = true -> compatible a c = true).
Proof. exact (conj compatible_refl (conj compatible_sym compatible_trans)). Qed.
Print Assumptions C06_compat_equivalence.

(* ... that exactly decides whether conversion succeeds. *)
Theorem C06_compat_decides_conversion : forall a b : unit,
  (conv_tuple a b = CIncompat <-> compatible a b = false) /\
  (~ u_factor a == 0 -> ~ u_factor b == 0 ->
   (compatible a b = true <-> exists f o, conv_tuple a b = COk f o)).
Proof. exact (fun a b => conj (compat_decides a b) (compat_convertible a b)). Qed.
Print Assumptions C06_compat_decides_conversion.

(* products: factors multiply, powers add; units with an offset are refused *)
Theorem C06_mul_law : forall a b c : unit, u_mul a b = Ok c ->
  u_factor c == u_factor a * u_factor b /\ u_powers c = zipw Z.add (u_powers a) (u_powers b) /\
  u_offset c == 0 /\ u_offset a == 0 /\ u_offset b == 0.
Proof. exact mul_law. Qed.
Print Assumptions C06_mul_law.

Theorem C06_div_law : forall a b c : unit, u_div a b = Ok c ->
  u_factor c == u_factor a / u_factor b /\ u_powers c = zipw Z.sub (u_powers a) (u_powers b) /\
  u_offset c == 0 /\ u_offset a == 0 /\ u_offset b == 0 /\ ~ u_factor b == 0.
Proof. exact div_law. Qed.
Print Assumptions C06_div_law.

Theorem C06_pow_law : forall (a : unit) (n : Z) (c : unit), u_pow a n = Ok c ->
  u_factor c == Qpower (u_factor a) n /\ u_powers c = map (fun x => (x * n)%Z) (u_powers a) /\
  u_offset c == 0 /\ u_offset a == 0.
Proof. exact pow_law. Qed.
Print Assumptions C06_pow_law.

(* SI / IEC prefixes: the new table entry has the prefix factor times the base unit's factor, the
   base unit's dimension, no offset; units with an offset cannot be prefixed; nothing else changes *)
Theorem C06_prefix_factor : forall (t : table) (item : string) (pf : Q) (bu : unit) (t' : table),
  tbl_get t item = None -> add_prefixed t item pf bu = Ok t' ->
  (exists j u, tbl_get t' item = Some (j, u) /\ u_factor u == u_factor bu * pf /\
               u_powers u = u_powers bu /\ u_offset u == 0 /\ u_names u = [(KU item, 1%Z)]) /\
  u_offset bu == 0 /\
  (forall s, s <> item -> tbl_get t' s = tbl_get t s).
Proof. exact prefix_factor. Qed.
Print Assumptions C06_prefix_factor.

(* The names dictionary -- what name() prints -- is a faithful bookkeeping of the factor: for every
   table whose entries are named by table names carrying their factor (the shipped library is, see
   C06_library_wf), every unit that evaluating an expression with non-zero literals produces has
   exactly the factor its names dictionary denotes.  (Kept under its earlier name; the statement
   it was partial for is C06_simplify_preserves_dimension_and_factor below.) *)
Theorem C06_eval_names_denote_factor_partial :
  forall (pi : option Q) (t : table) (e : expr) (u : unit) (o : option nat),
  table_named t -> (forall p, pi = Some p -> ~ p == 0) -> lits_nz e ->
  eval pi t e = Ok (PUnit u o) ->
  u_factor u == den_f (kf_of t) (u_names u).
Proof. exact (fun pi t e u o Ht Hp Hl H => eval_vok pi t e (PUnit u o) Ht Hp Hl H). Qed.
Print Assumptions C06_eval_names_denote_factor_partial.

(* simplify_unit as repaired by props/C06/fix_1.diff returns the original string or a name that,
   looked up again, is a unit of the same dimension, offset and factor *)
Theorem C06_simplify_fixed_sound : forall pfx (t : table) (orig : string) (u : unit) (s : string),
  simplify_fixed pfx t orig u = Some s ->
  s = orig \/
  exists u', fst (find_unit pfx t (name_expr u)) = FOk u' /\
             u_powers u' = u_powers u /\ u_offset u' == u_offset u /\ u_factor u' == u_factor u.
Proof. exact simplify_fixed_sound. Qed.
Print Assumptions C06_simplify_fixed_sound.

(* the present simplify_unit is refuted on the shipped library ('1000*s/s' -> '1000', not a unit) *)
Theorem C06_simplify_present_refuted :
  exists e u, (fst (find_unit (l_pfx lib) (l_tbl lib) e) = FOk u) /\
              (simplify_str u = Some "1000"%string) /\
              (fst (find_unit (l_pfx lib) (l_tbl lib) (name_expr u)) = FNone).
Proof. exact simplify_present_refuted. Qed.
Print Assumptions C06_simplify_present_refuted.

(* the regenerated shipped library: loads, non-zero factors, one power per base unit, names bound *)
Theorem C06_library_wf :
  load_library gen_pi gen_bases gen_defs = Ok (l_tbl lib) /\
  List.length (l_tbl lib) = (List.length gen_bases + List.length gen_defs)%nat /\
  lib_wf lib = true.
Proof. exact library_wf. Qed.
Print Assumptions C06_library_wf.

(* simplify preserves the denotation (dimension and factor): for EVERY table whose entries have N
   powers and are named by table names of the same factor and dimension, and EVERY expression with
   non-zero literals: whenever the name that name() prints for the unit the expression evaluates to
   evaluates to a unit again, that unit has exactly the same powers and the same factor.
   (Two things remain run-time checks of the repaired simplify_unit, C06_simplify_fixed_sound: that the
   printed name evaluates to a unit at all -- it can be a bare number or raise, see
   C06_simplify_present_refuted -- and the offset.) *)
Theorem C06_simplify_preserves_dimension_and_factor :
  forall (N : nat) (t : table) (e : expr) (u : unit) (o : option nat) (u' : unit) (o' : option nat),
  table_named t -> table_dim N t -> lits_nz e ->
  eval None t e = Ok (PUnit u o) ->
  eval None t (name_expr u) = Ok (PUnit u' o') ->
  u_powers u' = u_powers u /\ u_factor u' == u_factor u.
Proof. exact name_evaluates_to_same_unit. Qed.
Print Assumptions C06_simplify_preserves_dimension_and_factor.

(* the two table invariants hold for the shipped library (C06_library_wf) and are kept by every
   prefix expansion of _find_unit, i.e. for every table reachable by look-ups *)
Theorem C06_prefix_expansion_keeps_invariants :
  forall (N : nat) (t : table) (item : string) (pf : Q) (bu : unit) (i : nat) (t' : table),
  table_named t -> table_dim N t ->
  tbl_get t item = None -> (exists s, tbl_get t s = Some (i, bu)) ->
  ~ pf == 0 -> add_prefixed t item pf bu = Ok t' ->
  table_named t' /\ table_dim N t'.
Proof. exact add_prefixed_keeps_invariants. Qed.
Print Assumptions C06_prefix_expansion_keeps_invariants.

Theorem C06_library_invariants : table_named (l_tbl lib) /\ table_dim (l_nbase lib) (l_tbl lib).
Proof. exact (conj lib_named lib_dim). Qed.
Print Assumptions C06_library_invariants.
