(* C04 — property theorems (statements only; proofs by [exact] of lemmas in Proofs.v). *)
From Coq Require Import ZArith QArith List.
From OMV Require Import Base.Val C05.Model C05.Proofs C04.Model C04.Proofs.
Import ListNotations.
Open Scope Z_scope.

(* Chain flattening, for any index semantics, any chain of (flat_src, index) levels, any root shape
   and any element type: if indexing arange(root_shape) level by level yields the positions P, then
   indexing the source itself level by level yields exactly the source values at P. *)
Theorem C04_chain_flatten :
  forall A (ixf : ixfun) (src : list A) (d : A) (shape : list Z) (chain : list level) P s,
    Z.of_nat (length src) = prodZ shape ->
    apply_chain ixf (prodZ shape) (arange (prodZ shape), shape) chain = Some (P, s) ->
    apply_chain ixf d (src, shape) chain = Some (pick d src P, s).
Proof. exact chain_flatten. Qed.
Print Assumptions C04_chain_flatten.

(* The flat source positions computed by the model of get_src_index_array (OpenMDAO's own index
   algorithm at every level, shaped_array shortcut for a single flat level) select the values that
   NumPy indexing gives when the levels (connect first, then promotes from the outside in) are
   applied one after another to the source.  All chains, shapes (extents below sys.maxsize). *)
Theorem C04_positions_deliver :
  forall A (src : list A) (d : A) (shape : list Z) (chain : list level) (P : list Z),
    Z.of_nat (length src) = prodZ shape ->
    chain_extents shape chain ->
    om_positions shape chain = Some P ->
    exists s, src_through_chain d src shape chain = Some (pick d src P, s).
Proof. exact positions_deliver. Qed.
Print Assumptions C04_positions_deliver.

(* Forward transfer: in[in_inds[k]] = out[out_inds[k]] for every k ... *)
Theorem C04_transfer_delivers :
  forall (inv outv : list Q) (in_inds out_inds : list nat) (k : nat),
    NoDup in_inds -> length in_inds = length out_inds ->
    (forall i, In i in_inds -> (i < length inv)%nat) ->
    (k < length in_inds)%nat ->
    nth (nth k in_inds O) (transfer_fwd inv outv in_inds out_inds) 0%Q
    = nth (nth k out_inds O) outv 0%Q.
Proof. exact transfer_delivers. Qed.
Print Assumptions C04_transfer_delivers.

(* ... and no other entry of the input vector changes. *)
Theorem C04_transfer_frame :
  forall (inv outv : list Q) (in_inds out_inds : list nat) (p : nat),
    ~ In p in_inds -> nth p (transfer_fwd inv outv in_inds out_inds) 0%Q = nth p inv 0%Q.
Proof. exact transfer_frame. Qed.
Print Assumptions C04_transfer_frame.

(* The input scale factors (scale0, scale1) = ((a0+offset)*factor, a1*factor) of _set_scaling turn
   the normalised value x into the unit conversion of the source's physical value a0 + a1*x. *)
Theorem C04_input_scaling_is_unit_conversion :
  forall a0 a1 factor offset x : Q,
    (to_phys (in_scale0 a0 a1 factor offset) (in_scale1 a0 a1 factor offset) x
     == convert factor offset (a0 + a1 * x))%Q.
Proof. exact input_scaling_is_unit_conversion. Qed.
Print Assumptions C04_input_scaling_is_unit_conversion.

(* Composition, for every solver scaling of the source (ref0 = a0, ref - ref0 = a1 <> 0) and every
   affine unit conversion: scaling the source, scattering through the computed positions and
   unscaling the input gives the unit conversion of the source indexed through the whole chain. *)
Theorem C04_connected_input_value :
  forall (src : list Q) (shape : list Z) (chain : list level) (P : list Z) (a0 a1 factor offset : Q),
    Z.of_nat (length src) = prodZ shape ->
    chain_extents shape chain ->
    om_positions shape chain = Some P ->
    ~ (a1 == 0)%Q ->
    exists vals s,
      src_through_chain (a0 + a1 * 0)%Q src shape chain = Some (vals, s) /\
      Forall2 Qeq (input_values a0 a1 factor offset src P) (map (convert factor offset) vals).
Proof. exact connected_input_value. Qed.
Print Assumptions C04_connected_input_value.

(* The same with array-valued ref / ref0 on the source (every source entry has its own scaling and
   the input entry k is scaled with the factors of the source entry it reads, ref[src_indices]). *)
Theorem C04_connected_input_value_array_scaling :
  forall (src : list Q) (shape : list Z) (chain : list level) (P : list Z)
         (a0s a1s : list Q) (factor offset : Q),
    Z.of_nat (length src) = prodZ shape ->
    chain_extents shape chain ->
    om_positions shape chain = Some P ->
    (forall p, In p P -> ~ (nth (Z.to_nat p) a1s 1 == 0)%Q) ->
    exists vals s,
      src_through_chain 0%Q src shape chain = Some (vals, s) /\
      Forall2 Qeq (input_values_v a0s a1s factor offset src P) (map (convert factor offset) vals).
Proof. exact connected_input_value_v. Qed.
Print Assumptions C04_connected_input_value_array_scaling.

(* The code before repair a7afb04 did not have this property. *)
Theorem C04_old_positions_refuted :
  exists shape chain P,
    om_positions_old shape chain = Some (P, [Z.of_nat (length P)]) /\
    (exists r, src_through_chain 0 (arange (prodZ shape)) shape chain = Some r /\ fst r <> P).
Proof. exact old_positions_refuted. Qed.
Print Assumptions C04_old_positions_refuted.
