(* C04 — proofs: chain flattening, forward transfer, input scaling = unit conversion. *)
From Coq Require Import ZArith QArith List Bool Lia Lqa.
From OMV Require Import Base.Val Base.Tactics C05.Model C05.Proofs C04.Model.
Import ListNotations.
Open Scope Z_scope.

(* ------------------------------------------------------------------ chain flattening *)

Lemma pick_map : forall A B (f : A -> B) d a sel,
  pick (f d) (map f a) sel = map f (pick d a sel).
Proof.
  intros. unfold pick. rewrite map_map. apply map_ext. intros p. apply map_nth.
Qed.

Definition omap {A B} (f : A -> B) (o : option (list A * list Z)) : option (list B * list Z) :=
  match o with None => None | Some r => Some (map f (fst r), snd r) end.

Lemma apply_chain_map : forall A B (f : A -> B) ixf d chain a shape,
  apply_chain ixf (f d) (map f a, shape) chain = omap f (apply_chain ixf d (a, shape) chain).
Proof.
  induction chain as [|lv chain IH]; intros a shape; cbn [apply_chain].
  - reflexivity.
  - unfold apply_level. cbn [fst snd].
    destruct (ixf shape (fst lv) (snd lv)) as [r|]; [|reflexivity].
    rewrite pick_map. apply IH.
Qed.

Lemma arange_nth : forall A (src : list A) d,
  map (fun p => nth (Z.to_nat p) src d) (arange (Z.of_nat (length src))) = src.
Proof.
  intros. unfold arange. rewrite Nat2Z.id, map_map.
  erewrite map_ext. 2: { intros k. rewrite Nat2Z.id. reflexivity. }
  induction src as [|x r IH]; cbn [length seq map]; auto.
  f_equal. rewrite <- seq_shift, map_map. exact IH.
Qed.

(* Indexing arange(root_shape) level by level and then using the result as flat positions is the
   same as indexing the source itself level by level — for any index semantics, any chain, any
   shape, any element type. *)
Lemma chain_flatten : forall A (ixf : ixfun) (src : list A) (d : A) shape chain P s,
  Z.of_nat (length src) = prodZ shape ->
  apply_chain ixf (prodZ shape) (arange (prodZ shape), shape) chain = Some (P, s) ->
  apply_chain ixf d (src, shape) chain = Some (pick d src P, s).
Proof.
  intros A ixf src d shape chain P s L H.
  pose (f := fun p : Z => nth (Z.to_nat p) src d).
  assert (Ed : f (prodZ shape) = d).
  { unfold f. rewrite <- L, Nat2Z.id. apply nth_overflow. lia. }
  assert (Es : map f (arange (prodZ shape)) = src).
  { rewrite <- L. apply arange_nth. }
  pose proof (apply_chain_map Z A f ixf (prodZ shape) chain (arange (prodZ shape)) shape) as M.
  rewrite Ed, Es, H in M. exact M.
Qed.

(* ------------------------------------------------------------------ OpenMDAO's chain = NumPy's chain *)

Fixpoint chain_extents (shape : list Z) (chain : list level) : Prop :=
  match chain with
  | [] => True
  | lv :: r =>
      extents_ok (if fst lv then [prodZ shape] else shape) /\
      match om_index shape (fst lv) (snd lv) with
      | Some q => chain_extents (snd q) r
      | None => True
      end
  end.

Lemma om_chain_eq_numpy : forall A (d : A) chain a shape r,
  chain_extents shape chain ->
  apply_chain om_index d (a, shape) chain = Some r ->
  apply_chain np_index_flat d (a, shape) chain = Some r.
Proof.
  induction chain as [|lv chain IH]; intros a shape r E H; cbn [apply_chain] in *; auto.
  unfold apply_level in *. cbn [fst snd] in *. destruct E as [E1 E2].
  destruct (om_index shape (fst lv) (snd lv)) as [q|] eqn:O; [|discriminate].
  rewrite (om_index_eq_numpy shape (fst lv) (snd lv) q E1 O).
  apply IH; auto.
Qed.

(* The flat positions computed by get_src_index_array (current tree) select exactly the values
   obtained by applying the levels one after another to the source, NumPy semantics. *)
Lemma positions_deliver : forall A (src : list A) (d : A) shape chain P,
  Z.of_nat (length src) = prodZ shape ->
  chain_extents shape chain ->
  om_positions shape chain = Some P ->
  exists s, src_through_chain d src shape chain = Some (pick d src P, s).
Proof.
  intros A src d shape chain P L E H. unfold src_through_chain.
  assert (G : forall ch, chain_extents shape ch ->
              option_map fst (chain_on_arange shape ch) = Some P ->
              exists s, apply_chain np_index_flat d (src, shape) ch = Some (pick d src P, s)).
  { intros ch Ech Hc. unfold chain_on_arange in Hc. cbn zeta in Hc.
    destruct (apply_chain om_index (prodZ shape) (arange (prodZ shape), shape) ch) as [[P' s]|] eqn:C;
      [|discriminate].
    cbn in Hc. inv Hc. exists s.
    apply chain_flatten; auto. apply om_chain_eq_numpy; auto. }
  destruct chain as [|[fl ix] [|lv2 rest]].
  - cbn in H. inv H. exists shape. cbn [apply_chain]. f_equal. f_equal.
    unfold pick. rewrite <- L. symmetry. apply arange_nth.
  - destruct fl.
    + cbn [om_positions] in H.
      destruct (om_index shape true ix) as [q|] eqn:O; [|discriminate]. cbn in H. inv H.
      destruct E as [E1 _]. cbn [fst] in E1.
      pose proof (om_index_eq_numpy shape true ix q E1 O) as N.
      exists (snd q). cbn [apply_chain]. unfold apply_level. cbn [fst snd]. rewrite N. reflexivity.
    + apply G; auto.
  - apply G; auto. destruct fl; exact H.
Qed.

(* ------------------------------------------------------------------ forward transfer *)

Lemma set_nth_length : forall A (l : list A) i x, length (set_nth l i x) = length l.
Proof. induction l; destruct i; cbn; auto. Qed.

Lemma set_nth_same : forall A (l : list A) i x d, (i < length l)%nat -> nth i (set_nth l i x) d = x.
Proof. induction l; destruct i; cbn; intros; try lia; auto. apply IHl. lia. Qed.

Lemma set_nth_other : forall A (l : list A) i j x d, i <> j -> nth j (set_nth l i x) d = nth j l d.
Proof. induction l; destruct i, j; cbn; intros; try lia; auto. Qed.

Lemma scatter_frame : forall A ii (v vals : list A) p d,
  ~ In p ii -> nth p (scatter v ii vals) d = nth p v d.
Proof.
  induction ii; intros v vals p d H; cbn; auto.
  destruct vals; auto. rewrite IHii. apply set_nth_other. intro; apply H; left; auto.
  intro; apply H; right; auto.
Qed.

Lemma scatter_delivers : forall A ii (v vals : list A) k d,
  NoDup ii -> length ii = length vals -> (forall i, In i ii -> (i < length v)%nat) ->
  (k < length ii)%nat ->
  nth (nth k ii O) (scatter v ii vals) d = nth k vals d.
Proof.
  induction ii; intros v vals k d ND L B K; cbn in K; try lia.
  destruct vals as [|x vals]; cbn in L; try lia. inv ND. cbn [scatter].
  destruct k; cbn [nth].
  - rewrite scatter_frame; auto. apply set_nth_same. apply B. left; auto.
  - apply IHii; auto; try lia.
    intros i Hi. rewrite set_nth_length. apply B. right; auto.
Qed.

(* after the forward transfer in[in_inds[k]] = out[out_inds[k]] and nothing else changed *)
Lemma transfer_delivers : forall inv outv in_inds out_inds k,
  NoDup in_inds -> length in_inds = length out_inds ->
  (forall i, In i in_inds -> (i < length inv)%nat) ->
  (k < length in_inds)%nat ->
  nth (nth k in_inds O) (transfer_fwd inv outv in_inds out_inds) 0%Q = nth (nth k out_inds O) outv 0%Q.
Proof.
  intros. unfold transfer_fwd. rewrite scatter_delivers; auto.
  - rewrite nth_indep with (d' := (fun o => nth o outv 0%Q) O) by (rewrite map_length; lia).
    exact (map_nth (fun o => nth o outv 0%Q) out_inds O k).
  - rewrite map_length. auto.
Qed.

Lemma transfer_frame : forall inv outv in_inds out_inds p,
  ~ In p in_inds -> nth p (transfer_fwd inv outv in_inds out_inds) 0%Q = nth p inv 0%Q.
Proof. intros. unfold transfer_fwd. apply scatter_frame; auto. Qed.

Lemma conn_in_inds_nodup : forall off size, NoDup (conn_in_inds off size).
Proof. intros. apply seq_NoDup. Qed.

(* ------------------------------------------------------------------ scaling = unit conversion *)

Lemma input_scaling_is_unit_conversion : forall a0 a1 factor offset x,
  (to_phys (in_scale0 a0 a1 factor offset) (in_scale1 a0 a1 factor offset) x
   == convert factor offset (a0 + a1 * x))%Q.
Proof. intros. unfold to_phys, in_scale0, in_scale1, convert. ring. Qed.

Lemma scaled_transfer_converts : forall a0 a1 factor offset y,
  ~ (a1 == 0)%Q ->
  (to_phys (in_scale0 a0 a1 factor offset) (in_scale1 a0 a1 factor offset) (to_norm a0 a1 y)
   == convert factor offset y)%Q.
Proof. intros. unfold to_phys, in_scale0, in_scale1, convert, to_norm. field. auto. Qed.

(* pointwise Qeq of lists *)
Definition Qlist_eq (a b : list Q) : Prop := Forall2 Qeq a b.

Lemma input_values_convert : forall a0 a1 factor offset src P,
  ~ (a1 == 0)%Q ->
  Qlist_eq (input_values a0 a1 factor offset src P)
           (map (convert factor offset) (pick (a0 + a1 * 0)%Q src P)).
Proof.
  intros a0 a1 factor offset src P NZ. unfold input_values, Qlist_eq, pick.
  rewrite !map_map. induction P as [|p P IH]; cbn [map]; constructor; auto.
  clear IH.
  (* the default value is only met outside the vector; handle both cases *)
  destruct (Nat.ltb (Z.to_nat p) (length src)) eqn:B.
  - apply Nat.ltb_lt in B.
    rewrite nth_indep with (d' := to_norm a0 a1 (a0 + a1 * 0)%Q) by (rewrite map_length; auto).
    rewrite map_nth. apply scaled_transfer_converts; auto.
  - apply Nat.ltb_ge in B.
    rewrite nth_overflow by (rewrite map_length; auto).
    rewrite nth_overflow by auto.
    unfold to_phys, in_scale0, in_scale1, convert. ring.
Qed.

(* composition: positions of get_src_index_array + scaled forward transfer + input unscaling
   = unit conversion of the source indexed through the whole chain *)
Theorem connected_input_value : forall (src : list Q) shape chain P a0 a1 factor offset,
  Z.of_nat (length src) = prodZ shape ->
  chain_extents shape chain ->
  om_positions shape chain = Some P ->
  ~ (a1 == 0)%Q ->
  exists vals s,
    src_through_chain (a0 + a1 * 0)%Q src shape chain = Some (vals, s) /\
    Qlist_eq (input_values a0 a1 factor offset src P) (map (convert factor offset) vals).
Proof.
  intros src shape chain P a0 a1 factor offset L E H NZ.
  destruct (positions_deliver Q src (a0 + a1 * 0)%Q shape chain P L E H) as [s Hs].
  exists (pick (a0 + a1 * 0)%Q src P), s. split; auto.
  apply input_values_convert; auto.
Qed.

(* array-valued ref / ref0: every selected source entry has its own (a0, a1) *)
Lemma input_values_v_convert : forall a0s a1s factor offset src P,
  (forall p, In p P -> ~ (nth (Z.to_nat p) a1s 1 == 0)%Q) ->
  Qlist_eq (input_values_v a0s a1s factor offset src P)
           (map (convert factor offset) (pick 0%Q src P)).
Proof.
  intros a0s a1s factor offset src P NZ. unfold input_values_v, Qlist_eq, pick.
  rewrite map_map. induction P as [|p P IH]; cbn [map]; constructor.
  - apply scaled_transfer_converts. apply NZ. left; auto.
  - apply IH. intros q Hq. apply NZ. right; auto.
Qed.

Theorem connected_input_value_v : forall (src : list Q) shape chain P a0s a1s factor offset,
  Z.of_nat (length src) = prodZ shape ->
  chain_extents shape chain ->
  om_positions shape chain = Some P ->
  (forall p, In p P -> ~ (nth (Z.to_nat p) a1s 1 == 0)%Q) ->
  exists vals s,
    src_through_chain 0%Q src shape chain = Some (vals, s) /\
    Qlist_eq (input_values_v a0s a1s factor offset src P) (map (convert factor offset) vals).
Proof.
  intros src shape chain P a0s a1s factor offset L E H NZ.
  destruct (positions_deliver Q src 0%Q shape chain P L E H) as [s Hs].
  exists (pick 0%Q src P), s. split; auto.
  apply input_values_v_convert; auto.
Qed.

(* ------------------------------------------------------------------ the code before the repair *)

(* connect(src_indices=[1]) (non-flat) from a (2,3) source: the old get_src_index_array returned
   the first-axis array [1] although the level selects the flat positions [3;4;5] *)
Example old_positions_refuted :
  exists shape chain P,
    om_positions_old shape chain = Some (P, [Z.of_nat (length P)]) /\
    (exists r, src_through_chain 0 (arange (prodZ shape)) shape chain = Some r /\ fst r <> P).
Proof.
  exists [2; 3], [(false, I1 (IArr [1]))], [1]. split. reflexivity.
  eexists. split. vm_compute. reflexivity. cbn. discriminate.
Qed.

(* a two-level chain with a 2-D result: the old code returned the positions un-ravelled with
   shape (2,2) (len() = 2 although 4 entries are transferred) *)
Example old_positions_not_ravelled :
  exists shape chain P s,
    om_positions_old shape chain = Some (P, s) /\ s <> [Z.of_nat (length P)].
Proof.
  exists [2; 3; 4],
         [(false, ITup [ISlice (mkslice None None None); ISlice (mkslice None None None); IInt 1]);
          (false, ITup [ISlice (mkslice None None None); ISlice (mkslice None None (Some 2))])].
  eexists. eexists. split. vm_compute. reflexivity. discriminate.
Qed.

(* non-vacuity of the main theorem's premises *)
Example ex_positions :
  om_positions [2; 3; 4]
    [(false, ITup [ISlice (mkslice None None None); IInt (-1); ISlice (mkslice None None None)]);
     (false, ITup [IInt 0; ISlice (mkslice (Some 1) None None)]);
     (true, I1 (IArr [-1; 0]))] = Some [11; 9].
Proof. vm_compute. reflexivity. Qed.
