(* C04 — model of the data path "source output -> connected input".

   Anchors: openmdao/core/conn_graph.py  AllConnGraph.get_src_index_array (chain flattening),
            openmdao/vectors/default_transfer.py  _setup_transfers / _transfer (forward scatter),
            openmdao/core/group.py  Group._compute_root_scale_factors,
            openmdao/vectors/default_vector.py  DefaultVector._set_scaling (input scale factors).
   The single-indexer semantics (NumPy reference np_index and OpenMDAO's om_index) are those of
   C05.Model; a chain is a list of (flat_src, index) levels: the level given on connect first, then
   the levels given on promotes from the outermost group inwards.
   Definitions only; proofs are in Proofs.v. *)
From Coq Require Import ZArith QArith List Bool.
From OMV Require Import Base.Val C05.Model.
Import ListNotations.
Open Scope Z_scope.

Definition level := (bool * idx)%type.          (* (flat_src resolved, index specification) *)
Definition ixfun := list Z -> bool -> idx -> option (list Z * list Z).

(* value of a flat row-major array at the given flat positions *)
Definition pick {A} (d : A) (arr : list A) (sel : list Z) : list A :=
  map (fun p => nth (Z.to_nat p) arr d) sel.

(* inds.indexed_val(arr): arr.ravel()[inds.flat()] or arr[inds()] *)
Definition apply_level {A} (ixf : ixfun) (d : A) (st : list A * list Z) (lv : level)
  : option (list A * list Z) :=
  match ixf (snd st) (fst lv) (snd lv) with
  | None => None
  | Some r => Some (pick d (fst st) (fst r), snd r)
  end.

Fixpoint apply_chain {A} (ixf : ixfun) (d : A) (st : list A * list Z) (chain : list level)
  : option (list A * list Z) :=
  match chain with
  | [] => Some st
  | lv :: r => match apply_level ixf d st lv with
               | None => None
               | Some st' => apply_chain ixf d st' r
               end
  end.

(* reference: the source indexed by the levels one after another, NumPy semantics *)
Definition src_through_chain {A} (d : A) (src : list A) (shape : list Z) (chain : list level) :=
  apply_chain np_index_flat d (src, shape) chain.

Definition arange (n : Z) : list Z := map Z.of_nat (seq 0 (Z.to_nat n)).

(* Indexer.shaped_array() of a single level: for a non-flat int / index array on an N-D source
   this is the first-axis index array, not flat source positions (pinned by C05). *)
Definition om_shaped_array (shape : list Z) (flat : bool) (ix : idx) : option (list Z) :=
  match om_index shape flat ix with
  | None => None
  | Some r =>
      if negb flat && Nat.ltb 1 (length shape) then
        match ix with
        | I1 (IInt k) => Some [om_int_shaped (hd 0 shape) k]
        | I1 (IArr a) => Some (om_arr_shaped (hd 0 shape) a)
        | _ => Some (fst r)
        end
      else Some (fst r)
  end.

Definition chain_on_arange (shape : list Z) (chain : list level) : option (list Z * list Z) :=
  let n := prodZ shape in apply_chain om_index n (arange n, shape) chain.

(* get_src_index_array as it was before the repair a7afb04 (kept for the refutation example):
   one level -> shaped_array(); several levels -> arange(root_shape) indexed level by level,
   returned without ravel (the result keeps its shape: second component). *)
Definition om_positions_old (shape : list Z) (chain : list level) : option (list Z * list Z) :=
  match chain with
  | [] => Some (arange (prodZ shape), [prodZ shape])
  | [lv] => match om_shaped_array shape (fst lv) (snd lv) with
            | None => None
            | Some p => Some (p, [Z.of_nat (length p)])
            end
  | _ => chain_on_arange shape chain
  end.

(* get_src_index_array of the current tree (after fix a7afb04 = props/C04/fix_1.diff): the
   shaped_array() shortcut only for a single flat-source level, otherwise arange(root_shape)
   indexed level by level, and the result is always ravelled *)
Definition om_positions (shape : list Z) (chain : list level) : option (list Z) :=
  match chain with
  | [] => Some (arange (prodZ shape))
  | [(true, ix)] => option_map fst (om_index shape true ix)
  | _ => option_map fst (chain_on_arange shape chain)
  end.

(* ------------------------------------------------------------------ forward transfer *)

Fixpoint set_nth {A} (l : list A) (i : nat) (x : A) : list A :=
  match l, i with
  | [], _ => []
  | _ :: r, O => x :: r
  | y :: r, S i' => y :: set_nth r i' x
  end.

(* in_vec[in_inds] = vals   (NumPy fancy assignment: later entries win) *)
Fixpoint scatter {A} (v : list A) (ii : list nat) (vals : list A) : list A :=
  match ii, vals with
  | i :: ii', x :: vals' => scatter (set_nth v i x) ii' vals'
  | _, _ => v
  end.

(* DefaultTransfer._transfer, mode fwd: in_vec.set_val(out_vec.asarray()[out_inds], in_inds) *)
Definition transfer_fwd (inv outv : list Q) (in_inds out_inds : list nat) : list Q :=
  scatter inv in_inds (map (fun o => nth o outv 0%Q) out_inds).

(* index arrays of one connection in _setup_transfers *)
Definition conn_in_inds (in_off size : nat) : list nat := seq in_off size.
Definition conn_out_inds (out_off : Z) (positions : list Z) : list nat :=
  map (fun p => Z.to_nat (p + out_off)) positions.

(* ------------------------------------------------------------------ scaling / unit conversion *)

(* unit_conversion(units_out, units_in) = (factor, offset):  x_in = (x_out + offset) * factor *)
Definition convert (factor offset x : Q) : Q := ((x + offset) * factor)%Q.

(* DefaultVector._set_scaling, nonlinear input vector, entry (a0, a1, factor, offset) *)
Definition in_scale0 (a0 a1 factor offset : Q) : Q := ((a0 + offset) * factor)%Q.
Definition in_scale1 (a0 a1 factor offset : Q) : Q := (a1 * factor)%Q.

(* scaled (normalised) value of a source output with ref0 = a0, ref - ref0 = a1 *)
Definition to_norm (a0 a1 y : Q) : Q := ((y - a0) / a1)%Q.
Definition to_phys (s0 s1 x : Q) : Q := (s0 + s1 * x)%Q.

(* physical value of the input as the code produces it: scale the source, scatter, unscale *)
Definition input_values (a0 a1 factor offset : Q) (src : list Q) (positions : list Z) : list Q :=
  map (to_phys (in_scale0 a0 a1 factor offset) (in_scale1 a0 a1 factor offset))
      (pick 0%Q (map (to_norm a0 a1) src) positions).

(* array-valued ref / ref0 on the source: a0s[p] = ref0[p], a1s[p] = ref[p] - ref0[p] per source entry
   (a scalar is the constant list).  _compute_root_scale_factors indexes both with the flat source
   positions of the connection (ref[src_indices], ref0[src_indices]), so entry k of the input is
   scaled with the factors of source entry P[k]. *)
Definition in_scale0s (a0s a1s : list Q) (factor offset : Q) (P : list Z) : list Q :=
  map (fun p => in_scale0 (nth (Z.to_nat p) a0s 0%Q) (nth (Z.to_nat p) a1s 1%Q) factor offset) P.
Definition in_scale1s (a0s a1s : list Q) (factor offset : Q) (P : list Z) : list Q :=
  map (fun p => in_scale1 (nth (Z.to_nat p) a0s 0%Q) (nth (Z.to_nat p) a1s 1%Q) factor offset) P.

Definition input_values_v (a0s a1s : list Q) (factor offset : Q) (src : list Q) (P : list Z) : list Q :=
  map (fun p => let i := Z.to_nat p in
                let a0 := nth i a0s 0%Q in let a1 := nth i a1s 1%Q in
                to_phys (in_scale0 a0 a1 factor offset) (in_scale1 a0 a1 factor offset)
                        (to_norm a0 a1 (nth i src 0%Q))) P.

(* ------------------------------------------------------------------ what the harness compares *)

Definition v_opos (r : option (list Z)) : val := match r with None => VE 1 | Some p => vzs p end.

(* per connected input: [flat positions; values by the reference semantics converted;
   values by the code path; scale0 array; scale1 array] *)
Definition run_input (shape : list Z) (chain : list level) (src : list Q)
           (a0s a1s : list Q) (factor offset : Q) : val :=
  VL [v_opos (om_positions shape chain);
      match src_through_chain 0%Q src shape chain with
      | None => VE 1
      | Some r => vqs (map (convert factor offset) (fst r))
      end;
      match om_positions shape chain with
      | None => VE 1
      | Some p => vqs (input_values_v a0s a1s factor offset src p)
      end;
      match om_positions shape chain with
      | None => VE 1
      | Some p => VL [vqs (in_scale0s a0s a1s factor offset p); vqs (in_scale1s a0s a1s factor offset p)]
      end].
