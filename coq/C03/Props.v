(* C03 -- property theorems (statements only; proofs by [exact] of lemmas in Proofs*.v). *)
From Coq Require Import ZArith List Permutation Ring_theory.
From OMV Require Import Base.Val C03.Model C03.ProofsGreedy C03.ProofsExpand C03.ProofsBidir C03.ProofsTotals
  C03.ProofsOrder.
Import ListNotations.
Open Scope nat_scope.

(* (a) The greedy colouring of _get_full_disjoint_col_matrix_cols is proper for EVERY boolean
   pattern and EVERY visiting order: each visited column gets exactly one colour (once), no colour
   is empty, there are never more colours than columns, and two columns that have a nonzero in a
   common row never share a colour. *)
Theorem C03_greedy_proper : forall (P : pattern) (ncols : nat) (ord : list nat),
  NoDup ord -> (forall c, In c ord -> c < ncols) ->
  let groups := greedy ncols (nbrs P ncols) ord in
  Permutation (concat groups) ord /\ NoDup (concat groups) /\
  (forall c k1 k2, In c (nth k1 groups []) -> In c (nth k2 groups []) -> k1 = k2) /\
  Forall (fun g => g <> []) groups /\ length groups <= length ord /\
  proper_groups P groups.
Proof. exact greedy_proper. Qed.
Print Assumptions C03_greedy_proper.

(* (b) For every pattern, every proper colouring and EVERY matrix with that pattern over any value
   type with a neutral addition (Z, Q, R, any ring), _expand_jac of the compressed products is the
   matrix itself. *)
Theorem C03_expand_compress_fwd : forall (V : Type) (vzero : V) (vadd : V -> V -> V),
  (forall x, vadd vzero x = x) -> (forall x, vadd x vzero = x) ->
  forall (P : pattern) (ncols : nat) (groups : list (list nat)) (M : nat -> nat -> V),
    (forall r c, pat P r c = false -> M r c = vzero) ->
    NoDup (concat groups) ->
    proper_groups P groups ->
    (forall r c, c < ncols -> pat P r c = true -> exists k, In c (nth k groups [])) ->
    forall r c, c < ncols ->
      expand_fwd V vzero P groups (compress_fwd V vzero vadd M ncols groups) r c = M r c.
Proof. exact expand_compress_fwd. Qed.
Print Assumptions C03_expand_compress_fwd.

Theorem C03_expand_compress_rev : forall (V : Type) (vzero : V) (vadd : V -> V -> V),
  (forall x, vadd vzero x = x) -> (forall x, vadd x vzero = x) ->
  forall (P : pattern) (nrows ncols : nat) (groups : list (list nat)) (M : nat -> nat -> V),
    (forall r c, pat P r c = false -> M r c = vzero) ->
    NoDup (concat groups) ->
    proper_groups (transpose ncols P) groups ->
    (forall r c, r < nrows -> c < ncols -> pat P r c = true -> exists k, In r (nth k groups [])) ->
    forall r c, r < nrows -> c < ncols ->
      expand_rev V vzero P groups (compress_rev V vzero vadd M nrows groups) r c = M r c.
Proof. exact expand_compress_rev. Qed.
Print Assumptions C03_expand_compress_rev.

(* (a)+(b): the fwd / rev colouring computed by the greedy algorithm with any visiting order that
   enumerates the non-empty columns (rows) once reconstructs every entry of every matrix. *)
Theorem C03_fwd_coloring_reconstructs : forall (V : Type) (vzero : V) (vadd : V -> V -> V),
  (forall x, vadd vzero x = x) -> (forall x, vadd x vzero = x) ->
  forall (P : pattern) (ncols : nat) (ord : list nat) (M : nat -> nat -> V),
    (forall r c, pat P r c = false -> M r c = vzero) ->
    order_ok P ncols ord = true ->
    let groups := greedy ncols (nbrs P ncols) ord in
    forall r c, c < ncols ->
      expand_fwd V vzero P groups (compress_fwd V vzero vadd M ncols groups) r c = M r c.
Proof. exact fwd_coloring_reconstructs. Qed.
Print Assumptions C03_fwd_coloring_reconstructs.

Theorem C03_rev_coloring_reconstructs : forall (V : Type) (vzero : V) (vadd : V -> V -> V),
  (forall x, vadd vzero x = x) -> (forall x, vadd x vzero = x) ->
  forall (P : pattern) (ncols : nat) (ord : list nat) (M : nat -> nat -> V),
    (forall r c, pat P r c = false -> M r c = vzero) ->
    order_ok (transpose ncols P) (length P) ord = true ->
    let groups := greedy (length P) (nbrs (transpose ncols P) (length P)) ord in
    forall r c, r < length P -> c < ncols ->
      expand_rev V vzero P groups (compress_rev V vzero vadd M (length P) groups) r c = M r c.
Proof. exact rev_coloring_reconstructs. Qed.
Print Assumptions C03_rev_coloring_reconstructs.

(* (c) The validator for bidirectional colourings is sound: whatever produced the colour groups,
   nonzero maps and subtraction list, if [valid_bidir] accepts them then the jac setter followed by
   the ordered subtractions returns every entry of EVERY matrix with the pattern, over any
   commutative ring. *)
Theorem C03_bidir_validator_sound :
  forall (R : Type) (rO rI : R) (radd rmul rsub : R -> R -> R) (ropp : R -> R),
  ring_theory rO rI radd rmul rsub ropp eq ->
  forall P nrows ncols fg fnz rg rnz subs,
  valid_bidir P nrows ncols fg fnz rg rnz subs = true ->
  forall M : nat -> nat -> R, (forall r c, pat P r c = false -> M r c = rO) ->
  forall r c, r < nrows -> c < ncols ->
    jget rO (reconstruct R rO radd rsub M nrows ncols fg fnz rg rnz subs) r c = M r c.
Proof. exact valid_bidir_sound. Qed.
Print Assumptions C03_bidir_validator_sound.

(* ... and every column (row) is in at most one fwd (rev) colour. *)
Theorem C03_bidir_validator_groups : forall nrows ncols fg rg,
  valid_groups nrows ncols fg rg = true ->
  NoDup (concat fg) /\ NoDup (concat rg) /\
  (forall c k1 k2, In c (nth k1 fg []) -> In c (nth k2 fg []) -> k1 = k2) /\
  (forall r k1 k2, In r (nth k1 rg []) -> In r (nth k2 rg []) -> k1 = k2) /\
  (forall c, In c (concat fg) -> c < ncols) /\ (forall r, In r (concat rg) -> r < nrows).
Proof. exact valid_groups_sound. Qed.
Print Assumptions C03_bidir_validator_groups.

(* Never more solves than the uncoloured computation. *)
Theorem C03_solves_le_uncolored :
  forall (P : pattern) (ncols : nat) (ordf ordr : list nat) (bidir : nat),
  order_ok P ncols ordf = true ->
  order_ok (transpose ncols P) (length P) ordr = true ->
  let nf := length (greedy ncols (nbrs P ncols) ordf) in
  let nr := length (greedy (length P) (nbrs (transpose ncols P) (length P)) ordr) in
  nf <= ncols /\ nr <= length P /\
  snd (auto_select bidir nf nr) <= Nat.min (length P) ncols /\
  snd (auto_select bidir nf nr) <= bidir.
Proof. exact solves_le_uncolored. Qed.
Print Assumptions C03_solves_le_uncolored.

(* (d) compute_totals with the subtractions applied BEFORE unit/driver scaling (repaired order) is
   exact for every accepted colouring, matrix and scaling ... *)
Theorem C03_totals_repaired_correct : forall P nrows ncols fg fnz rg rnz subs,
  valid_bidir P nrows ncols fg fnz rg rnz subs = true ->
  forall (M sc : nat -> nat -> Z), (forall r c, pat P r c = false -> M r c = 0%Z) ->
  forall r c, r < nrows -> c < ncols ->
    jget 0%Z (totals_repaired M sc nrows ncols fg fnz rg rnz subs) r c = (sc r c * M r c)%Z.
Proof. exact totals_repaired_correct. Qed.
Print Assumptions C03_totals_repaired_correct.

(* ... whereas the order of the pinned source (scaling first, subtractions last) is refuted. *)
Theorem C03_totals_present_refuted :
  exists P nrows ncols fg fnz rg rnz subs (M sc : nat -> nat -> Z) r c,
    valid_bidir P nrows ncols fg fnz rg rnz subs = true /\
    (forall r c, pat P r c = false -> M r c = 0%Z) /\
    r < nrows /\ c < ncols /\
    jget 0%Z (totals_present M sc nrows ncols fg fnz rg rnz subs) r c <> (sc r c * M r c)%Z.
Proof. exact totals_present_refuted. Qed.
Print Assumptions C03_totals_present_refuted.

(* The incidence-degree ordering of _order_by_ID (argmax of the running degrees, first index on
   ties) visits every non-empty column exactly once and nothing else, for EVERY pattern: the
   per-case check [order_ok] of the theorems above is always satisfied by the order the code uses. *)
Theorem C03_order_by_ID_enumerates : forall (P : pattern) (ncols : nat),
  let ord := order_by_ID ncols (nbrs P ncols) in
  NoDup ord /\ (forall c, In c ord -> c < ncols) /\
  (forall c, In c ord <-> c < ncols /\ exists r, pat P r c = true).
Proof. exact order_by_ID_enumerates. Qed.
Print Assumptions C03_order_by_ID_enumerates.

(* Hence, unconditionally: what _compute_coloring(mode='fwd') returns is a proper colouring in which
   exactly the non-empty columns have exactly one colour, with at most ncols colours ... *)
Theorem C03_fwd_groups_proper : forall (P : pattern) (ncols : nat),
  let groups := fwd_groups P ncols in
  NoDup (concat groups) /\
  (forall c, In c (concat groups) <-> c < ncols /\ exists r, pat P r c = true) /\
  (forall c k1 k2, In c (nth k1 groups []) -> In c (nth k2 groups []) -> k1 = k2) /\
  Forall (fun g => g <> []) groups /\ length groups <= ncols /\
  proper_groups P groups.
Proof. exact fwd_groups_proper. Qed.
Print Assumptions C03_fwd_groups_proper.

(* ... with which every matrix of the pattern is reconstructed exactly (fwd and rev), for every
   pattern and every matrix, with no per-case hypothesis ... *)
Theorem C03_fwd_groups_reconstruct : forall (V : Type) (vzero : V) (vadd : V -> V -> V),
  (forall x, vadd vzero x = x) -> (forall x, vadd x vzero = x) ->
  forall (P : pattern) (ncols : nat) (M : nat -> nat -> V),
    (forall r c, pat P r c = false -> M r c = vzero) ->
    forall r c, c < ncols ->
      expand_fwd V vzero P (fwd_groups P ncols)
                 (compress_fwd V vzero vadd M ncols (fwd_groups P ncols)) r c = M r c.
Proof. exact fwd_groups_reconstruct. Qed.
Print Assumptions C03_fwd_groups_reconstruct.

Theorem C03_rev_groups_reconstruct : forall (V : Type) (vzero : V) (vadd : V -> V -> V),
  (forall x, vadd vzero x = x) -> (forall x, vadd x vzero = x) ->
  forall (P : pattern) (ncols : nat) (M : nat -> nat -> V),
    (forall r c, pat P r c = false -> M r c = vzero) ->
    forall r c, r < length P -> c < ncols ->
      expand_rev V vzero P (rev_groups P ncols)
                 (compress_rev V vzero vadd M (length P) (rev_groups P ncols)) r c = M r c.
Proof. exact rev_groups_reconstruct. Qed.
Print Assumptions C03_rev_groups_reconstruct.

(* ... and never more solves than the uncoloured computation, for every pattern. *)
Theorem C03_solves_le_uncolored_uncond : forall (P : pattern) (ncols bidir : nat),
  let nf := length (fwd_groups P ncols) in
  let nr := length (rev_groups P ncols) in
  nf <= ncols /\ nr <= length P /\
  snd (auto_select bidir nf nr) <= Nat.min (length P) ncols /\
  snd (auto_select bidir nf nr) <= bidir.
Proof. exact solves_le_uncolored_uncond. Qed.
Print Assumptions C03_solves_le_uncolored_uncond.
