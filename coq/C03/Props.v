From Coq Require Import ZArith List.
From OMV Require Import Base.Val C03.Model.
Theorem C03_placeholder : True. Proof. exact I. Qed.
Print Assumptions C03_placeholder.
