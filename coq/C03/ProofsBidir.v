(* C03 -- soundness of the validator for bidirectional colourings: if [valid_bidir] accepts
   (fwd groups, fwd nonzero rows, rev groups, rev nonzero cols, subtraction list) for a pattern,
   then for EVERY matrix with that pattern over ANY commutative ring the jac-setter followed by
   the subtractions reproduces every entry.  The heuristic that produced the colouring is not
   trusted: its output is validated case by case. *)
From Coq Require Import ZArith List Bool Arith Lia Ring Ring_theory InitialRing.
From OMV Require Import Base.Val C03.Model C03.ProofsGreedy.
Import ListNotations.
Open Scope nat_scope.

(* ------------------------------------------------------------------ the reconstruction commutes
   with every structure-preserving map of the value type *)

Section Hom.
  Variables V1 V2 : Type.
  Variable z1 : V1.
  Variable z2 : V2.
  Variable add1 sub1 : V1 -> V1 -> V1.
  Variable add2 sub2 : V2 -> V2 -> V2.
  Variable ent1 : nat -> nat -> V1.
  Variable ent2 : nat -> nat -> V2.
  Variable h : V1 -> V2.
  Hypothesis h_zero : h z1 = z2.
  Hypothesis h_add : forall a b, h (add1 a b) = add2 (h a) (h b).
  Hypothesis h_sub : forall a b, h (sub1 a b) = sub2 (h a) (h b).
  Hypothesis h_ent : forall r c, h (ent1 r c) = ent2 r c.
  Variables nrows ncols : nat.

  Definition jmap (J : jmat V1) : jmat V2 := map (fun e => (fst e, h (snd e))) J.

  Lemma jget_jmap : forall J r c, jget z2 (jmap J) r c = h (jget z1 J r c).
  Proof.
    unfold jget. induction J as [|e J IH]; simpl; intros; auto.
    destruct (Nat.eqb (fst (fst e)) r && Nat.eqb (snd (fst e)) c); simpl; auto.
  Qed.

  Lemma fold_hom : forall l acc,
    h (fold_left add1 l acc) = fold_left add2 (map h l) (h acc).
  Proof. induction l; simpl; intros; auto. rewrite IHl. rewrite h_add. reflexivity. Qed.

  Lemma vsum_hom : forall l, h (vsum V1 z1 add1 l) = vsum V2 z2 add2 (map h l).
  Proof. intros. unfold vsum. rewrite fold_hom. rewrite h_zero. reflexivity. Qed.

  Lemma comp_fwd_hom : forall g row,
    h (comp_fwd V1 z1 add1 ent1 ncols g row) = comp_fwd V2 z2 add2 ent2 ncols g row.
  Proof.
    intros. unfold comp_fwd. rewrite vsum_hom. rewrite map_map. f_equal.
    apply map_ext. intros. apply h_ent.
  Qed.

  Lemma comp_rev_hom : forall g col,
    h (comp_rev V1 z1 add1 ent1 nrows g col) = comp_rev V2 z2 add2 ent2 nrows g col.
  Proof.
    intros. unfold comp_rev. rewrite vsum_hom. rewrite map_map. f_equal.
    apply map_ext. intros. apply h_ent.
  Qed.

  Lemma set_fwd_inner_hom : forall g0 i rows J,
    jmap (fold_left (fun J row => jset J row i (comp_fwd V1 z1 add1 ent1 ncols g0 row)) rows J) =
    fold_left (fun J row => jset J row i (comp_fwd V2 z2 add2 ent2 ncols g0 row)) rows (jmap J).
  Proof.
    induction rows as [|row rows IH]; simpl; intros; auto.
    rewrite IH. f_equal. unfold jset, jmap. simpl. rewrite comp_fwd_hom. reflexivity.
  Qed.

  Lemma set_fwd_outer_hom : forall g0 nz gl J,
    jmap (fold_left (fun J i => fold_left (fun J row => jset J row i (comp_fwd V1 z1 add1 ent1 ncols g0 row))
                                          (nth i nz []) J) gl J) =
    fold_left (fun J i => fold_left (fun J row => jset J row i (comp_fwd V2 z2 add2 ent2 ncols g0 row))
                                    (nth i nz []) J) gl (jmap J).
  Proof.
    induction gl as [|i gl IH]; simpl; intros; auto.
    rewrite IH. rewrite set_fwd_inner_hom. reflexivity.
  Qed.

  Lemma set_fwd_color_hom : forall nz g J,
    jmap (set_fwd_color V1 z1 add1 ent1 ncols nz J g) =
    set_fwd_color V2 z2 add2 ent2 ncols nz (jmap J) g.
  Proof. intros. unfold set_fwd_color. apply set_fwd_outer_hom. Qed.

  Lemma set_rev_inner_hom : forall g0 i cols J,
    jmap (fold_left (fun J col => jset J i col (comp_rev V1 z1 add1 ent1 nrows g0 col)) cols J) =
    fold_left (fun J col => jset J i col (comp_rev V2 z2 add2 ent2 nrows g0 col)) cols (jmap J).
  Proof.
    induction cols as [|col cols IH]; simpl; intros; auto.
    rewrite IH. f_equal. unfold jset, jmap. simpl. rewrite comp_rev_hom. reflexivity.
  Qed.

  Lemma set_rev_outer_hom : forall g0 nz gl J,
    jmap (fold_left (fun J i => fold_left (fun J col => jset J i col (comp_rev V1 z1 add1 ent1 nrows g0 col))
                                          (nth i nz []) J) gl J) =
    fold_left (fun J i => fold_left (fun J col => jset J i col (comp_rev V2 z2 add2 ent2 nrows g0 col))
                                    (nth i nz []) J) gl (jmap J).
  Proof.
    induction gl as [|i gl IH]; simpl; intros; auto.
    rewrite IH. rewrite set_rev_inner_hom. reflexivity.
  Qed.

  Lemma set_rev_color_hom : forall nz g J,
    jmap (set_rev_color V1 z1 add1 ent1 nrows nz J g) =
    set_rev_color V2 z2 add2 ent2 nrows nz (jmap J) g.
  Proof. intros. unfold set_rev_color. apply set_rev_outer_hom. Qed.

  Lemma apply_sub_hom : forall J s,
    jmap (apply_sub V1 z1 add1 sub1 J s) = apply_sub V2 z2 add2 sub2 (jmap J) s.
  Proof.
    intros. unfold apply_sub, jset. simpl. f_equal. f_equal.
    rewrite h_sub. rewrite jget_jmap. f_equal.
    rewrite vsum_hom. rewrite map_map. f_equal. apply map_ext. intros. rewrite jget_jmap. reflexivity.
  Qed.

  Lemma set_colors_hom : forall fg fnz rg rnz,
    jmap (set_colors V1 z1 add1 ent1 nrows ncols fg fnz rg rnz) =
    set_colors V2 z2 add2 ent2 nrows ncols fg fnz rg rnz.
  Proof.
    intros. unfold set_colors.
    assert (F : forall gs J, jmap (fold_left (set_fwd_color V1 z1 add1 ent1 ncols fnz) gs J) =
                             fold_left (set_fwd_color V2 z2 add2 ent2 ncols fnz) gs (jmap J)).
    { induction gs; simpl; intros; auto. rewrite IHgs. rewrite set_fwd_color_hom. reflexivity. }
    assert (G : forall gs J, jmap (fold_left (set_rev_color V1 z1 add1 ent1 nrows rnz) gs J) =
                             fold_left (set_rev_color V2 z2 add2 ent2 nrows rnz) gs (jmap J)).
    { induction gs; simpl; intros; auto. rewrite IHgs. rewrite set_rev_color_hom. reflexivity. }
    rewrite G. rewrite F. reflexivity.
  Qed.

  Lemma reconstruct_hom : forall fg fnz rg rnz subs,
    jmap (reconstruct V1 z1 add1 sub1 ent1 nrows ncols fg fnz rg rnz subs) =
    reconstruct V2 z2 add2 sub2 ent2 nrows ncols fg fnz rg rnz subs.
  Proof.
    intros. unfold reconstruct. rewrite <- set_colors_hom.
    generalize (set_colors V1 z1 add1 ent1 nrows ncols fg fnz rg rnz) as J.
    induction subs; simpl; intros; auto.
    rewrite IHsubs. rewrite apply_sub_hom. reflexivity.
  Qed.
End Hom.

(* ------------------------------------------------------------------ evaluation of formal linear
   forms in a commutative ring *)

Section RingEval.
  Variable R : Type.
  Variables (rO rI : R) (radd rmul rsub : R -> R -> R) (ropp : R -> R).
  Variable Rth : ring_theory rO rI radd rmul rsub ropp eq.
  Add Ring Rring : Rth.

  Definition phi : Z -> R := gen_phiZ rO rI radd rmul ropp.

  Definition phi_morph :
    ring_morph rO rI radd rmul rsub ropp eq 0%Z 1%Z Z.add Z.mul Z.sub Z.opp Zeq_bool phi :=
    gen_phiZ_morph (Eqsth R) (Eq_ext radd rmul ropp) Rth.

  Lemma phi_0 : phi 0%Z = rO. Proof. exact (morph0 phi_morph). Qed.
  Lemma phi_1 : phi 1%Z = rI. Proof. exact (morph1 phi_morph). Qed.
  Lemma phi_add : forall a b, phi (a + b)%Z = radd (phi a) (phi b).
  Proof. exact (morph_add phi_morph). Qed.
  Lemma phi_opp : forall a, phi (- a)%Z = ropp (phi a).
  Proof. exact (morph_opp phi_morph). Qed.

  Opaque phi.

  Variable M : nat -> nat -> R.

  Definition term_val (t : nat * nat * Z) : R := rmul (phi (snd t)) (M (fst (fst t)) (snd (fst t))).

  Definition eval (f : form) : R := fold_right (fun t acc => radd (term_val t) acc) rO f.

  Lemma eval_app : forall a b, eval (a ++ b) = radd (eval a) (eval b).
  Proof. induction a; simpl; intros. ring. rewrite IHa. ring. Qed.

  Lemma eval_neg : forall a, eval (f_neg a) = ropp (eval a).
  Proof.
    induction a; simpl. ring. rewrite IHa. unfold term_val. simpl. rewrite phi_opp. ring.
  Qed.

  Lemma eval_sub : forall a b, eval (f_sub a b) = rsub (eval a) (eval b).
  Proof. intros. unfold f_sub. rewrite eval_app, eval_neg. ring. Qed.

  Lemma eval_ent : forall r c, eval (f_ent r c) = M r c.
  Proof. intros. unfold f_ent, eval, term_val. simpl. rewrite phi_1. ring. Qed.

  Lemma eval_insert : forall r c z l,
    eval (f_insert r c z l) = radd (rmul (phi z) (M r c)) (eval l).
  Proof.
    induction l as [|t l IH]; simpl.
    - unfold term_val. simpl. reflexivity.
    - destruct (Nat.eqb (fst (fst t)) r && Nat.eqb (snd (fst t)) c) eqn:E.
      + apply andb_true_iff in E. destruct E as [E1 E2].
        apply Nat.eqb_eq in E1. apply Nat.eqb_eq in E2.
        simpl. unfold term_val. simpl. rewrite phi_add. rewrite E1, E2. ring.
      + simpl. rewrite IH. ring.
  Qed.

  Lemma eval_norm : forall l, eval (f_norm l) = eval l.
  Proof.
    induction l as [|t l IH]; simpl; auto. rewrite eval_insert. rewrite IH. reflexivity.
  Qed.

  Variable P : pattern.
  Hypothesis M_pat : forall r c, pat P r c = false -> M r c = rO.

  Lemma f_vanishes_sound : forall l, f_vanishes P l = true -> eval l = rO.
  Proof.
    unfold f_vanishes. intros l H. rewrite <- eval_norm.
    induction (f_norm l) as [|t n IH]; simpl in *; auto.
    apply andb_true_iff in H. destruct H as [H1 H2].
    rewrite (IH H2). unfold term_val.
    apply orb_true_iff in H1. destruct H1 as [H1|H1].
    - apply Z.eqb_eq in H1. rewrite H1. rewrite phi_0. ring.
    - apply negb_true_iff in H1. rewrite (M_pat _ _ H1). ring.
  Qed.

  (* (c) the validator is sound *)
  Theorem valid_recon_sound : forall nrows ncols fg fnz rg rnz subs,
    valid_recon P nrows ncols fg fnz rg rnz subs = true ->
    forall r c, r < nrows -> c < ncols ->
      jget rO (reconstruct R rO radd rsub M nrows ncols fg fnz rg rnz subs) r c = M r c.
  Proof.
    intros nrows ncols fg fnz rg rnz subs H r c Hr Hc.
    unfold valid_recon in H. rewrite forallb_forall in H.
    assert (Hr' : In r (seq 0 nrows)) by (apply in_seq; lia).
    specialize (H r Hr'). rewrite forallb_forall in H.
    assert (Hc' : In c (seq 0 ncols)) by (apply in_seq; lia).
    specialize (H c Hc'). apply f_vanishes_sound in H.
    unfold reconstructF in H.
    rewrite <- (reconstruct_hom form R [] rO f_add f_sub radd rsub f_ent M eval
                 eq_refl eval_app eval_sub eval_ent nrows ncols).
    rewrite (jget_jmap form R [] rO eval eq_refl).
    set (x := eval (jget [] (reconstruct form [] f_add f_sub f_ent nrows ncols fg fnz rg rnz subs) r c)) in *.
    simpl in H. unfold term_val in H. simpl in H.
    change (radd (rmul (phi (-1)%Z) (M r c)) x = rO) in H.
    change (phi (-1)%Z) with (phi (Z.opp 1%Z)) in H. rewrite phi_opp, phi_1 in H.
    assert (E : forall y m, radd (rmul (ropp rI) m) y = rO -> y = m).
    { intros y m E. replace y with (radd (radd (rmul (ropp rI) m) y) m) by ring.
      rewrite E. ring. }
    apply E. exact H.
  Qed.
End RingEval.

(* ------------------------------------------------------------------ the group conditions *)

Lemma all_lt_sound : forall n l, all_lt n l = true -> forall x, In x l -> x < n.
Proof.
  unfold all_lt. intros. rewrite forallb_forall in H. apply Nat.ltb_lt. auto.
Qed.

Theorem valid_groups_sound : forall nrows ncols fg rg,
  valid_groups nrows ncols fg rg = true ->
  (* each column in at most one fwd colour, each row in at most one rev colour *)
  NoDup (concat fg) /\ NoDup (concat rg) /\
  (forall c k1 k2, In c (nth k1 fg []) -> In c (nth k2 fg []) -> k1 = k2) /\
  (forall r k1 k2, In r (nth k1 rg []) -> In r (nth k2 rg []) -> k1 = k2) /\
  (forall c, In c (concat fg) -> c < ncols) /\ (forall r, In r (concat rg) -> r < nrows).
Proof.
  unfold valid_groups. intros.
  apply andb_true_iff in H. destruct H as [H H4].
  apply andb_true_iff in H. destruct H as [H H3].
  apply andb_true_iff in H. destruct H as [H1 H2].
  apply nodupb_NoDup in H1. apply nodupb_NoDup in H3.
  repeat split; auto.
  - intros. eapply (NoDup_concat_unique fg); eauto.
  - intros. eapply (NoDup_concat_unique rg); eauto.
  - apply all_lt_sound; auto.
  - apply all_lt_sound; auto.
Qed.

(* ------------------------------------------------------------------ instances *)

Theorem valid_bidir_sound_Z : forall P nrows ncols fg fnz rg rnz subs,
  valid_bidir P nrows ncols fg fnz rg rnz subs = true ->
  forall M : nat -> nat -> Z, (forall r c, pat P r c = false -> M r c = 0%Z) ->
  forall r c, r < nrows -> c < ncols ->
    jget 0%Z (reconstructZ M nrows ncols fg fnz rg rnz subs) r c = M r c.
Proof.
  intros. unfold valid_bidir in H. apply andb_true_iff in H. destruct H as [_ H].
  unfold reconstructZ.
  apply (valid_recon_sound Z 0%Z 1%Z Z.add Z.mul Z.sub Z.opp Zth M P H0 _ _ _ _ _ _ _ H); auto.
Qed.

(* over any commutative ring (Leibniz equality) *)
Theorem valid_bidir_sound : forall (R : Type) (rO rI : R) (radd rmul rsub : R -> R -> R) (ropp : R -> R),
  ring_theory rO rI radd rmul rsub ropp eq ->
  forall P nrows ncols fg fnz rg rnz subs,
  valid_bidir P nrows ncols fg fnz rg rnz subs = true ->
  forall M : nat -> nat -> R, (forall r c, pat P r c = false -> M r c = rO) ->
  forall r c, r < nrows -> c < ncols ->
    jget rO (reconstruct R rO radd rsub M nrows ncols fg fnz rg rnz subs) r c = M r c.
Proof.
  intros R rO rI radd rmul rsub ropp Rth P nrows ncols fg fnz rg rnz subs H M HM r c Hr Hc.
  unfold valid_bidir in H. apply andb_true_iff in H. destruct H as [_ H].
  apply (valid_recon_sound R rO rI radd rmul rsub ropp Rth M P HM _ _ _ _ _ _ _ H); auto.
Qed.

(* rationals (canonical representatives, Leibniz equality) *)
From Coq Require Import Qcanon.
Theorem valid_bidir_sound_Qc : forall P nrows ncols fg fnz rg rnz subs,
  valid_bidir P nrows ncols fg fnz rg rnz subs = true ->
  forall M : nat -> nat -> Qc, (forall r c, pat P r c = false -> M r c = 0%Qc) ->
  forall r c : nat, (r < nrows)%nat -> (c < ncols)%nat ->
    jget 0%Qc (reconstruct Qc 0%Qc Qcplus Qcminus M nrows ncols fg fnz rg rnz subs) r c = M r c.
Proof.
  intros. eapply (valid_bidir_sound Qc 0%Qc 1%Qc Qcplus Qcmult Qcminus Qcopp Qcrt); eauto.
Qed.
