(* C03 -- executable model of OpenMDAO's simultaneous-derivative colouring
   (openmdao/utils/coloring.py: _2col_adj_rows_cols, _order_by_ID,
   _get_full_disjoint_col_matrix_cols, _compute_coloring (fwd / rev / auto selection),
   Coloring._get_color_array / _expand_jac / colored_jac_iter, Coloring._apply_subtractions;
   openmdao/core/total_jac.py: simul_coloring_jac_setter and the tail of compute_totals).

   Definitions only.  The bidirectional heuristic MNCO_bidir is NOT modelled: its output is
   checked by the validator [valid_bidir] defined here and proved sound in ProofsBidir.v. *)
From Coq Require Import ZArith List Bool Arith Uint63.
From OMV Require Import Base.Val.
Import ListNotations.
Open Scope nat_scope.

(* ------------------------------------------------------------------ patterns *)

Definition pattern := list (list bool).            (* rows *)

Definition pat (P : pattern) (r c : nat) : bool := nth c (nth r P []) false.

Definition transpose (ncols : nat) (P : pattern) : pattern :=
  map (fun c => map (fun row => nth c row false) P) (seq 0 ncols).

(* rows of the nonzeros of column c, ascending (col2rows of _compute_coloring) *)
Definition col_rows (P : pattern) (c : nat) : list nat :=
  filter (fun r => pat P r c) (seq 0 (length P)).

(* _2col_adj_rows_cols: column c' is adjacent to c when some row has both nonzero
   (a non-empty column is adjacent to itself) *)
Definition adjb (P : pattern) (c c' : nat) : bool :=
  existsb (fun row => nth c row false && nth c' row false) P.

(* col_adj_matrix.getcol(c).indices *)
Definition nbrs (P : pattern) (ncols : nat) (c : nat) : list nat :=
  filter (fun c' => adjb P c' c) (seq 0 ncols).

(* ------------------------------------------------------------------ small list helpers *)

Fixpoint upd {A} (i : nat) (f : A -> A) (l : list A) : list A :=
  match l with
  | [] => []
  | x :: t => match i with O => f x :: t | S j => x :: upd j f t end
  end.

Definition memb (x : nat) (l : list nat) : bool := existsb (Nat.eqb x) l.

(* ------------------------------------------------------------------ _order_by_ID *)

(* numpy argmax: index of the first maximal element *)
Fixpoint argmax_from (best_i : nat) (best : Z) (i : nat) (l : list Z) : nat :=
  match l with
  | [] => best_i
  | x :: t => if (best <? x)%Z then argmax_from i x (S i) t
              else argmax_from best_i best (S i) t
  end.

Definition argmax (l : list Z) : nat :=
  match l with [] => O | x :: t => argmax_from O x 1 t end.

Fixpoint order_loop (fuel ncols : nat) (nb : nat -> list nat) (degs : list Z) : list nat :=
  match fuel with
  | O => []
  | S k =>
      let col := argmax degs in
      let degs1 := fold_left (fun d j => upd j (Z.add 1) d) (nb col) degs in
      let degs2 := upd col (fun _ => (- Z.of_nat ncols)%Z) degs1 in
      col :: order_loop k ncols nb degs2
  end.

Definition init_degrees (ncols : nat) (nb : nat -> list nat) : list Z :=
  map (fun c => match nb c with [] => 0%Z | _ => 1%Z end) (seq 0 ncols).

Definition order_by_ID (ncols : nat) (nb : nat -> list nat) : list nat :=
  let d0 := init_degrees ncols nb in
  order_loop (length (filter (fun d => negb (Z.eqb d 0)) d0)) ncols nb d0.

(* ------------------------------------------------------------------ greedy colouring *)

(* first colour (group index) that no neighbour carries *)
Definition first_free (ncolors : list Z) (ngroups : nat) : option nat :=
  find (fun k => negb (existsb (Z.eqb (Z.of_nat k)) ncolors)) (seq 0 ngroups).

Definition gstate := (list Z * list (list nat))%type.     (* colors array, color_groups *)

Definition greedy_step (nb : nat -> list nat) (st : gstate) (icol : nat) : gstate :=
  let colors := fst st in
  let groups := snd st in
  let ncolors := map (fun j => nth j colors (-1)%Z) (nb icol) in
  match first_free ncolors (length groups) with
  | Some k => (upd icol (fun _ => Z.of_nat k) colors, upd k (fun g => g ++ [icol]) groups)
  | None => (upd icol (fun _ => Z.of_nat (length groups)) colors, groups ++ [[icol]])
  end.

Definition greedy_state (ncols : nat) (nb : nat -> list nat) (ord : list nat) : gstate :=
  fold_left (greedy_step nb) ord (repeat (-1)%Z ncols, []).

(* _get_full_disjoint_col_matrix_cols with an arbitrary visiting order *)
Definition greedy (ncols : nat) (nb : nat -> list nat) (ord : list nat) : list (list nat) :=
  snd (greedy_state ncols nb ord).

(* _get_full_disjoint_cols(J): the order is _order_by_ID's *)
Definition fwd_groups (P : pattern) (ncols : nat) : list (list nat) :=
  greedy ncols (nbrs P ncols) (order_by_ID ncols (nbrs P ncols)).

Definition rev_groups (P : pattern) (ncols : nat) : list (list nat) :=
  fwd_groups (transpose ncols P) (length P).

(* the visiting order enumerates exactly the non-empty columns, once each (checked per case) *)
Fixpoint nodupb (l : list nat) : bool :=
  match l with [] => true | x :: t => negb (memb x t) && nodupb t end.

Definition order_ok (P : pattern) (ncols : nat) (ord : list nat) : bool :=
  nodupb ord
  && forallb (fun c => (c <? ncols) && negb (Nat.eqb (length (col_rows P c)) 0)) ord
  && forallb (fun c => memb c ord || Nat.eqb (length (col_rows P c)) 0) (seq 0 ncols).

(* ------------------------------------------------------------------ compression / expansion *)

Section Values.
  Variable V : Type.
  Variable vzero : V.
  Variable vadd : V -> V -> V.
  Variable vsub : V -> V -> V.
  Variable ent : nat -> nat -> V.            (* the matrix M *)
  Variables nrows ncols : nat.

  (* Python sum(): left fold from 0 *)
  Definition vsum (l : list V) : V := fold_left vadd l vzero.

  (* seed = indicator vector of the group; (M @ seed)[row] *)
  Definition comp_fwd (g : list nat) (row : nat) : V :=
    vsum (map (fun c => ent row c) (filter (fun c => memb c g) (seq 0 ncols))).

  (* (seed @ M)[col] *)
  Definition comp_rev (g : list nat) (col : nat) : V :=
    vsum (map (fun r => ent r col) (filter (fun r => memb r g) (seq 0 nrows))).

  (* Coloring._get_color_array: zeros, then color_array[group_i] = i in order *)
  Definition color_array (groups : list (list nat)) (c : nat) : nat :=
    fst (fold_left (fun acc g => (if memb c g then snd acc else fst acc, S (snd acc)))
                   groups (O, O)).

  (* Coloring._expand_jac(compressed, 'fwd'): entry (r,c) of the pattern takes
     compressed[r, color(c)]; everything else is zero *)
  Definition expand_fwd (P : pattern) (groups : list (list nat)) (cj : nat -> nat -> V)
             (r c : nat) : V :=
    if pat P r c then cj r (color_array groups c) else vzero.

  Definition expand_rev (P : pattern) (groups : list (list nat)) (cj : nat -> nat -> V)
             (r c : nat) : V :=
    if pat P r c then cj (color_array groups r) c else vzero.

  (* compressed jacobians produced by the coloured solves *)
  Definition compress_fwd (groups : list (list nat)) (r k : nat) : V :=
    comp_fwd (nth k groups []) r.
  Definition compress_rev (groups : list (list nat)) (k c : nat) : V :=
    comp_rev (nth k groups []) c.

  (* -------------------------------------------------------------- bidirectional reconstruction *)

  (* The total jacobian as a write log (latest write first); unwritten entries are zero
     (compute_totals: self.J[:] = 0.0) *)
  Definition jmat := list (nat * nat * V).

  Definition jget (J : jmat) (r c : nat) : V :=
    match find (fun e => Nat.eqb (fst (fst e)) r && Nat.eqb (snd (fst e)) c) J with
    | Some e => snd e
    | None => vzero
    end.

  Definition jset (J : jmat) (r c : nat) (v : V) : jmat := (r, c, v) :: J.

  (* simul_coloring_jac_setter, fwd: for i in inds: J[row_col_map[i], i] = reduced_derivs[...] *)
  Definition set_fwd_color (nz : list (list nat)) (J : jmat) (g : list nat) : jmat :=
    fold_left (fun J i => fold_left (fun J row => jset J row i (comp_fwd g row)) (nth i nz []) J) g J.

  Definition set_rev_color (nz : list (list nat)) (J : jmat) (g : list nat) : jmat :=
    fold_left (fun J i => fold_left (fun J col => jset J i col (comp_rev g col)) (nth i nz []) J) g J.

  (* Coloring._apply_subtractions: for pos, subs in list: J[pos] -= sum(J[k] for k in subs) *)
  Definition subtraction := ((nat * nat) * list (nat * nat))%type.

  Definition apply_sub (J : jmat) (s : subtraction) : jmat :=
    let tosub := vsum (map (fun k => jget J (fst k) (snd k)) (snd s)) in
    jset J (fst (fst s)) (snd (fst s)) (vsub (jget J (fst (fst s)) (snd (fst s))) tosub).

  Definition set_colors (fg : list (list nat)) (fnz : list (list nat))
             (rg : list (list nat)) (rnz : list (list nat)) : jmat :=
    fold_left (set_rev_color rnz) rg (fold_left (set_fwd_color fnz) fg []).

  (* modes fwd then rev, then the subtractions *)
  Definition reconstruct (fg fnz rg rnz : list (list nat)) (subs : list subtraction) : jmat :=
    fold_left apply_sub subs (set_colors fg fnz rg rnz).
End Values.

Arguments jget {V}.
Arguments jset {V}.

(* ------------------------------------------------------------------ instances over Z *)

Definition reconstructZ (M : nat -> nat -> Z) (nrows ncols : nat)
           (fg fnz rg rnz : list (list nat)) (subs : list (subtraction)) : jmat Z :=
  reconstruct Z 0%Z Z.add Z.sub M nrows ncols fg fnz rg rnz subs.

(* tail of compute_totals: row/column scaling of J.  [scale_J] multiplies every stored entry. *)
Definition scale_J (sc : nat -> nat -> Z) (J : jmat Z) : jmat Z :=
  map (fun e => (fst e, (sc (fst (fst e)) (snd (fst e)) * snd e)%Z)) J.

(* order of the source before fix commit 65ad24d: setters, scaling, THEN subtractions *)
Definition totals_present (M sc : nat -> nat -> Z) (nrows ncols : nat)
           (fg fnz rg rnz : list (list nat)) (subs : list subtraction) : jmat Z :=
  fold_left (apply_sub Z 0%Z Z.add Z.sub) subs
            (scale_J sc (set_colors Z 0%Z Z.add M nrows ncols fg fnz rg rnz)).

(* repaired (current) order: setters, subtractions, then scaling *)
Definition totals_repaired (M sc : nat -> nat -> Z) (nrows ncols : nat)
           (fg fnz rg rnz : list (list nat)) (subs : list subtraction) : jmat Z :=
  scale_J sc (reconstructZ M nrows ncols fg fnz rg rnz subs).

(* ------------------------------------------------------------------ symbolic validator *)

(* formal Z-linear forms over matrix positions *)
Definition form := list (nat * nat * Z).

Definition f_add (a b : form) : form := a ++ b.
Definition f_neg (a : form) : form := map (fun t => (fst t, (- snd t)%Z)) a.
Definition f_sub (a b : form) : form := a ++ f_neg b.
Definition f_ent (r c : nat) : form := [(r, c, 1%Z)].

(* merge a term into a normalised form *)
Fixpoint f_insert (r c : nat) (z : Z) (l : form) : form :=
  match l with
  | [] => [(r, c, z)]
  | t :: l' => if Nat.eqb (fst (fst t)) r && Nat.eqb (snd (fst t)) c
               then (r, c, (snd t + z)%Z) :: l'
               else t :: f_insert r c z l'
  end.

Fixpoint f_norm (l : form) : form :=
  match l with
  | [] => []
  | t :: l' => f_insert (fst (fst t)) (snd (fst t)) (snd t) (f_norm l')
  end.

(* every surviving coefficient is zero or sits outside the pattern *)
Definition f_vanishes (P : pattern) (l : form) : bool :=
  forallb (fun t => Z.eqb (snd t) 0 || negb (pat P (fst (fst t)) (snd (fst t)))) (f_norm l).

Definition reconstructF (nrows ncols : nat)
           (fg fnz rg rnz : list (list nat)) (subs : list subtraction) : jmat form :=
  reconstruct form [] f_add f_sub f_ent nrows ncols fg fnz rg rnz subs.

Definition all_lt (n : nat) (l : list nat) : bool := forallb (fun x => x <? n) l.

(* The validator: the (fwd groups, fwd nonzero rows, rev groups, rev nonzero cols, subtractions)
   handed over by MNCO_bidir reconstruct EVERY entry of EVERY matrix with pattern P; each column
   (row) is in at most one fwd (rev) group; no more solves than min(nrows, ncols) are needed
   when [bound] is that minimum. *)
Definition valid_recon (P : pattern) (nrows ncols : nat)
           (fg fnz rg rnz : list (list nat)) (subs : list subtraction) : bool :=
  let J := reconstructF nrows ncols fg fnz rg rnz subs in
  forallb (fun r =>
    forallb (fun c => f_vanishes P ((r, c, (-1)%Z) :: jget [] J r c)) (seq 0 ncols))
    (seq 0 nrows).

Definition valid_groups (nrows ncols : nat) (fg rg : list (list nat)) : bool :=
  nodupb (concat fg) && all_lt ncols (concat fg) &&
  nodupb (concat rg) && all_lt nrows (concat rg).

Definition valid_bidir (P : pattern) (nrows ncols : nat)
           (fg fnz rg rnz : list (list nat)) (subs : list subtraction) : bool :=
  valid_groups nrows ncols fg rg && valid_recon P nrows ncols fg fnz rg rnz subs.

(* ------------------------------------------------------------------ auto selection *)

(* _compute_coloring(mode='auto'): 0 = bidirectional kept, 1 = fwd fallback, 2 = rev fallback *)
Definition auto_select (bidir fwd rev : nat) : nat * nat :=
  let s1 := if fwd <=? bidir then (1, fwd) else (O, bidir) in
  if rev <? snd s1 then (2, rev) else s1.

(* ------------------------------------------------------------------ values for the harness *)

Definition vnats (l : list nat) : val := VL (map (fun n => VZ (Z.of_nat n)) l).
Definition vgroups (g : list (list nat)) : val := VL (map vnats g).

Definition dense {V} (nrows ncols : nat) (f : nat -> nat -> V) : list (list V) :=
  map (fun r => map (fun c => f r c) (seq 0 ncols)) (seq 0 nrows).

Definition vmatZ (m : list (list Z)) : val := VL (map (fun row => VL (map VZ row)) m).

Definition mat_of (m : list (list Z)) (r c : nat) : Z := nth c (nth r m []) 0%Z.

(* pattern of nrows x ncols from a bit code, row-major, least significant bit first *)
Definition pattern_of_code (nrows ncols : nat) (code : Z) : pattern :=
  map (fun r => map (fun c => Z.testbit code (Z.of_nat (r * ncols + c))) (seq 0 ncols))
      (seq 0 nrows).

(* ---- compact encoding of the case data: streams of 10-bit symbols packed six to a primitive
   63-bit integer (ordinary number literals are slow to elaborate; primitive ones are not) ---- *)

Definition word_symbols (w : Z) : list Z :=
  [(w mod 1024)%Z; ((w / 1024) mod 1024)%Z; ((w / 1048576) mod 1024)%Z;
   ((w / 1073741824) mod 1024)%Z; ((w / 1099511627776) mod 1024)%Z;
   ((w / 1125899906842624) mod 1024)%Z].

(* symbol 1023 is padding *)
Definition symbols (ws : list Uint63.int) : list Z :=
  filter (fun d => negb (d =? 1023)%Z) (flat_map (fun w => word_symbols (Uint63.to_Z w)) ws).

(* the pattern's bit code: 60 bits per word, least significant word first *)
Definition code_of_words (ws : list Uint63.int) : Z :=
  fold_right (fun w acc => (Uint63.to_Z w + 1152921504606846976 * acc)%Z) 0%Z ws.

(* list of lists of naturals: every element x is the symbol x+1, every list is closed by a 0 *)
Fixpoint split0 (cur : list nat) (l : list Z) : list (list nat) :=
  match l with
  | [] => []
  | d :: t => if (d =? 0)%Z then rev cur :: split0 [] t else split0 (Z.to_nat (d - 1) :: cur) t
  end.
Definition dec_groups (ws : list Uint63.int) : list (list nat) := split0 [] (symbols ws).
Definition ser_groups (g : list (list nat)) : list Z :=
  concat (map (fun l => map (fun x => Z.of_nat (S x)) l ++ [0%Z]) g) ++ [1022%Z].

(* integer matrices, row-major, entries offset by 512 (symbol 1021 = out of range) *)
Fixpoint chunks (fuel n : nat) (l : list Z) : list (list Z) :=
  match fuel with
  | O => []
  | S k => firstn n l :: chunks k n (skipn n l)
  end.
Definition dec_mat (nrows ncols : nat) (ws : list Uint63.int) : list (list Z) :=
  chunks nrows ncols (map (fun d => (d - 512)%Z) (symbols ws)).
Definition ser_mat (m : list (list Z)) : list Z :=
  map (fun v => if ((v <? -512) || (508 <? v))%Z then 1021%Z else (v + 512)%Z) (concat m).
Definition ser_bool (b : bool) : list Z := [if b then 1%Z else 0%Z].

Fixpoint pairs_of (l : list nat) : list (nat * nat) :=
  match l with
  | a :: b :: t => (a, b) :: pairs_of t
  | _ => []
  end.
Definition sub_of_list (l : list nat) : subtraction :=
  match l with
  | r :: c :: t => ((r, c), pairs_of t)
  | _ => ((O, O), [])
  end.
Definition dec_subs (ws : list Uint63.int) : list subtraction := map sub_of_list (dec_groups ws).

(* one-direction case: groups, visiting order check, expand(compress M) for a concrete M *)
Definition run_fwd (P : pattern) (ncols : nat) (M CJ : list (list Z)) : list Z :=
  let g := fwd_groups P ncols in
  ser_groups g
  ++ ser_bool (order_ok P ncols (order_by_ID ncols (nbrs P ncols)))
  ++ ser_mat (dense (length P) ncols
              (expand_fwd Z 0%Z P g (compress_fwd Z 0%Z Z.add (mat_of M) ncols g)))
   (* expansion of an arbitrary compressed matrix (not necessarily a product):
      _expand_jac and colored_jac_iter must both give this *)
  ++ ser_mat (dense (length P) ncols (expand_fwd Z 0%Z P g (mat_of CJ))).

Definition run_rev (P : pattern) (ncols : nat) (M CJ : list (list Z)) : list Z :=
  let g := rev_groups P ncols in
  let PT := transpose ncols P in
  ser_groups g
  ++ ser_bool (order_ok PT (length P) (order_by_ID (length P) (nbrs PT (length P))))
  ++ ser_mat (dense (length P) ncols
              (expand_rev Z 0%Z P g (compress_rev Z 0%Z Z.add (mat_of M) (length P) g)))
  ++ ser_mat (dense (length P) ncols (expand_rev Z 0%Z P g (mat_of CJ))).

(* bidirectional case: validator verdict on the implementation's colouring + the concrete
   reconstruction of M with it *)
Definition run_bidir (P : pattern) (ncols : nat) (M : list (list Z))
           (fg fnz rg rnz : list (list nat)) (subs : list subtraction) : list Z :=
  ser_bool (valid_bidir P (length P) ncols fg fnz rg rnz subs)
  ++ ser_mat (dense (length P) ncols
               (jget 0%Z (reconstructZ (mat_of M) (length P) ncols fg fnz rg rnz subs))).

Definition run_auto (bidir : nat) (P : pattern) (ncols : nat) : list Z :=
  let s := auto_select bidir (length (fwd_groups P ncols)) (length (rev_groups P ncols)) in
  [Z.of_nat (fst s); Z.of_nat (snd s)].

Fixpoint zlist_eqb (a b : list Z) : bool :=
  match a, b with
  | [], [] => true
  | x :: a', y :: b' => (x =? y)%Z && zlist_eqb a' b'
  | _, _ => false
  end.

(* everything about one pattern; the d* / s* arguments are the raw outputs of the real MNCO_bidir
   (direct, then substitution): fwd groups, fwd nonzero rows, rev groups, rev nonzero cols,
   subtractions, total solves.  [expected] is the implementation's serialised result; the value is
   [VB true] when the model's serialised result equals it, the model's stream otherwise. *)
Definition model_pat (nrows ncols : nat) (code m cj : list Uint63.int)
           (dfg dfnz drg drnz dsub : list Uint63.int) (dn : nat)
           (sfg sfnz srg srnz ssub : list Uint63.int) (sn : nat) : list Z :=
  let P := pattern_of_code nrows ncols (code_of_words code) in
  let M := dec_mat nrows ncols m in
  let CJ := dec_mat nrows ncols cj in
  run_fwd P ncols M CJ ++ run_rev P ncols M CJ
  ++ run_bidir P ncols M (dec_groups dfg) (dec_groups dfnz) (dec_groups drg) (dec_groups drnz)
               (dec_subs dsub)
  ++ run_bidir P ncols M (dec_groups sfg) (dec_groups sfnz) (dec_groups srg) (dec_groups srnz)
               (dec_subs ssub)
  ++ run_auto dn P ncols ++ run_auto sn P ncols.

Definition run_pat (nrows ncols : nat) (code m cj : list Uint63.int)
           (dfg dfnz drg drnz dsub : list Uint63.int) (dn : nat)
           (sfg sfnz srg srnz ssub : list Uint63.int) (sn : nat)
           (expected : list Uint63.int) : val :=
  let got := model_pat nrows ncols code m cj dfg dfnz drg drnz dsub dn sfg sfnz srg srnz ssub sn in
  if zlist_eqb got (symbols expected) then VB true else VL (map VZ got).
