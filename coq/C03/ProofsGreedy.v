(* C03 -- the greedy colouring is proper for every adjacency structure and every visiting order *)
From Coq Require Import ZArith List Bool Arith Lia Permutation.
From OMV Require Import Base.Val C03.Model.
Import ListNotations.
Open Scope nat_scope.

(* ------------------------------------------------------------------ list facts *)

Lemma upd_length : forall A (f : A -> A) l i, length (upd i f l) = length l.
Proof. induction l; destruct i; simpl; auto. Qed.

Lemma nth_upd_same : forall A (f : A -> A) l i d, i < length l -> nth i (upd i f l) d = f (nth i l d).
Proof. induction l; destruct i; simpl; intros; try lia; auto. apply IHl. lia. Qed.

Lemma nth_upd_other : forall A (f : A -> A) l i j d, i <> j -> nth j (upd i f l) d = nth j l d.
Proof. induction l; destruct i; destruct j; simpl; intros; try lia; auto. Qed.

Lemma concat_upd_app : forall (gs : list (list nat)) k x,
  k < length gs -> Permutation (concat (upd k (fun g => g ++ [x]) gs)) (x :: concat gs).
Proof.
  induction gs; simpl; intros; try lia.
  destruct k; simpl.
  - rewrite <- app_assoc. simpl.
    apply Permutation_sym. apply Permutation_middle.
  - eapply Permutation_trans. apply Permutation_app_head. apply IHgs. lia.
    apply Permutation_sym. apply Permutation_middle.
Qed.

Lemma In_nth_concat : forall (gs : list (list nat)) k c, In c (nth k gs []) -> In c (concat gs).
Proof.
  induction gs; destruct k; simpl; intros; try contradiction.
  - apply in_or_app; auto.
  - apply in_or_app; right; eauto.
Qed.

Lemma In_concat_nth : forall (gs : list (list nat)) c,
  In c (concat gs) -> exists k, k < length gs /\ In c (nth k gs []).
Proof.
  induction gs; simpl; intros; try contradiction.
  apply in_app_or in H. destruct H.
  - exists 0; split; auto; lia.
  - destruct (IHgs _ H) as [k [? ?]]. exists (S k); split; auto; lia.
Qed.

Lemma NoDup_app_disj : forall (a b : list nat) x, NoDup (a ++ b) -> In x a -> In x b -> False.
Proof.
  induction a; simpl; intros; try contradiction.
  inversion H; subst. destruct H0.
  - subst. apply H4. apply in_or_app; auto.
  - eauto.
Qed.

Lemma NoDup_app_l : forall (a b : list nat), NoDup (a ++ b) -> NoDup a.
Proof.
  induction a; simpl; intros. constructor.
  inversion H; subst. constructor; eauto. intro; apply H2; apply in_or_app; auto.
Qed.

Lemma NoDup_app_r : forall (a b : list nat), NoDup (a ++ b) -> NoDup b.
Proof. induction a; simpl; intros; auto. inversion H; eauto. Qed.

Lemma NoDup_concat_unique : forall (gs : list (list nat)) c k1 k2,
  NoDup (concat gs) -> In c (nth k1 gs []) -> In c (nth k2 gs []) -> k1 = k2.
Proof.
  induction gs; intros c k1 k2 ND H1 H2.
  - destruct k1; simpl in H1; contradiction.
  - simpl in ND. destruct k1, k2; simpl in *; auto.
    + exfalso. eapply NoDup_app_disj; eauto. eapply In_nth_concat; eauto.
    + exfalso. eapply NoDup_app_disj; eauto. eapply In_nth_concat; eauto.
    + f_equal. eapply IHgs; eauto. eapply NoDup_app_r; eauto.
Qed.

Lemma nonempty_length_concat : forall (gs : list (list nat)),
  Forall (fun g => g <> []) gs -> length gs <= length (concat gs).
Proof.
  induction 1; simpl; auto. rewrite app_length. destruct x; try congruence. simpl. lia.
Qed.

Lemma memb_In : forall x l, memb x l = true <-> In x l.
Proof.
  unfold memb. intros. rewrite existsb_exists. split.
  - intros [y [? E]]. apply Nat.eqb_eq in E. subst; auto.
  - intros. exists x. split; auto. apply Nat.eqb_refl.
Qed.

Lemma memb_false : forall x l, memb x l = false <-> ~ In x l.
Proof.
  intros. rewrite <- memb_In. destruct (memb x l); split; intros; try congruence;
    try (exfalso; auto; fail).
Qed.

Lemma nodupb_NoDup : forall l, nodupb l = true -> NoDup l.
Proof.
  induction l; simpl; intros. constructor.
  apply andb_true_iff in H. destruct H. constructor; auto.
  apply negb_true_iff in H. apply memb_false in H. auto.
Qed.

(* ------------------------------------------------------------------ first_free *)

Lemma first_free_some : forall nc n k,
  first_free nc n = Some k -> k < n /\ ~ In (Z.of_nat k) nc.
Proof.
  unfold first_free. intros. apply find_some in H. destruct H as [Hin Hb].
  apply in_seq in Hin. split. lia.
  apply negb_true_iff in Hb. intro Hc.
  assert (existsb (Z.eqb (Z.of_nat k)) nc = true).
  { apply existsb_exists. exists (Z.of_nat k). split; auto. apply Z.eqb_refl. }
  congruence.
Qed.

(* ------------------------------------------------------------------ the invariant *)

Section Greedy.
  Variable ncols : nat.
  Variable nb : nat -> list nat.
  Hypothesis nb_sym : forall a b, In a (nb b) -> In b (nb a).

  Definition Inv (st : gstate) (vis : list nat) : Prop :=
    length (fst st) = ncols /\
    Permutation (concat (snd st)) vis /\
    Forall (fun g => g <> []) (snd st) /\
    (forall k c, In c (nth k (snd st) []) -> nth c (fst st) (-1)%Z = Z.of_nat k) /\
    (forall k c1 c2, In c1 (nth k (snd st) []) -> In c2 (nth k (snd st) []) -> c1 <> c2 ->
                     ~ In c1 (nb c2)).

  Lemma Inv_init : Inv (repeat (-1)%Z ncols, []) [].
  Proof.
    unfold Inv; simpl. repeat split.
    - apply repeat_length.
    - constructor.
    - constructor.
    - intros. destruct k; contradiction.
    - intros. destruct k; contradiction.
  Qed.

  Lemma Forall_upd : forall (gs : list (list nat)) k x,
    Forall (fun g => g <> []) gs -> Forall (fun g => g <> []) (upd k (fun g => g ++ [x]) gs).
  Proof.
    induction gs; intros k x H.
    - destruct k; simpl; constructor.
    - inversion H; subst. destruct k; simpl; constructor; auto.
      intro E; destruct a; discriminate.
  Qed.

  Lemma Inv_step : forall st vis icol,
    Inv st vis -> ~ In icol vis -> icol < ncols -> Inv (greedy_step nb st icol) (vis ++ [icol]).
  Proof.
    intros [colors groups] vis icol (Hlen & Hperm & Hne & Hcol & Hprop) Hnin Hlt.
    simpl in *. unfold greedy_step. simpl.
    assert (Hold : forall k c, In c (nth k groups []) -> c <> icol).
    { intros k c Hc E. subst. apply Hnin. eapply Permutation_in. apply Hperm.
      eapply In_nth_concat; eauto. }
    destruct (first_free _ _) as [k|] eqn:FF.
    - apply first_free_some in FF. destruct FF as [Hk Hfree].
      assert (Hnthk : forall k', nth k' (upd k (fun g => g ++ [icol]) groups) [] =
                      if Nat.eqb k' k then nth k groups [] ++ [icol] else nth k' groups []).
      { intros k'. destruct (Nat.eqb_spec k' k).
        - subst. apply nth_upd_same. auto.
        - apply nth_upd_other. auto. }
      assert (Hnew : forall c, In c (nth k groups []) -> ~ In c (nb icol)).
      { intros c Hc Hn. apply Hfree. apply in_map_iff. exists c. split; auto. }
      unfold Inv; simpl. repeat split.
      + rewrite upd_length. auto.
      + eapply Permutation_trans. apply concat_upd_app. auto.
        eapply Permutation_trans. apply perm_skip. apply Hperm.
        apply Permutation_cons_append.
      + apply Forall_upd. auto.
      + intros k' c Hc. rewrite Hnthk in Hc. destruct (Nat.eqb_spec k' k).
        * subst. apply in_app_or in Hc. destruct Hc as [Hc|[Hc|[]]].
          -- rewrite nth_upd_other by (intro E; symmetry in E; revert E; eapply Hold; eauto). auto.
          -- subst c. rewrite nth_upd_same by lia. auto.
        * rewrite nth_upd_other by (intro E; symmetry in E; revert E; eapply Hold; eauto). auto.
      + intros k' c1 c2 H1 H2 Hd. rewrite Hnthk in H1, H2. destruct (Nat.eqb_spec k' k).
        * subst. apply in_app_or in H1. apply in_app_or in H2.
          destruct H1 as [H1|[H1|[]]]; destruct H2 as [H2|[H2|[]]]; subst.
          -- eapply Hprop; eauto.
          -- apply Hnew; auto.
          -- intro Hc. apply nb_sym in Hc. revert Hc. apply Hnew; auto.
          -- congruence.
        * eapply Hprop; eauto.
    - assert (Hnthk : forall k', nth k' (groups ++ [[icol]]) [] =
                      if Nat.eqb k' (length groups) then [icol] else nth k' groups []).
      { intros k'. destruct (Nat.eqb_spec k' (length groups)).
        - subst. rewrite app_nth2; auto. rewrite Nat.sub_diag. reflexivity.
        - destruct (Nat.lt_ge_cases k' (length groups)).
          + apply app_nth1; auto.
          + rewrite nth_overflow. rewrite nth_overflow; auto. rewrite app_length; simpl; lia. }
      unfold Inv; simpl. repeat split.
      + rewrite upd_length. auto.
      + rewrite concat_app. simpl. apply Permutation_app_tail. auto.
      + apply Forall_app. split; auto. constructor; auto. congruence.
      + intros k' c Hc. rewrite Hnthk in Hc. destruct (Nat.eqb_spec k' (length groups)).
        * destruct Hc as [Hc|[]]. subst c. rewrite nth_upd_same by lia. subst k'. auto.
        * rewrite nth_upd_other by (intro E; symmetry in E; revert E; eapply Hold; eauto). auto.
      + intros k' c1 c2 H1 H2 Hd. rewrite Hnthk in H1, H2.
        destruct (Nat.eqb_spec k' (length groups)).
        * destruct H1 as [H1|[]]; destruct H2 as [H2|[]]; congruence.
        * eapply Hprop; eauto.
  Qed.

  Lemma Inv_fold : forall ord st vis,
    Inv st vis -> NoDup (vis ++ ord) -> (forall c, In c ord -> c < ncols) ->
    Inv (fold_left (greedy_step nb) ord st) (vis ++ ord).
  Proof.
    induction ord; simpl; intros.
    - rewrite app_nil_r. auto.
    - replace (vis ++ a :: ord) with ((vis ++ [a]) ++ ord) by (rewrite <- app_assoc; reflexivity).
      apply IHord.
      + apply Inv_step; auto.
        intro Hc. eapply NoDup_app_disj; eauto. simpl; auto.
      + rewrite <- app_assoc. simpl. auto.
      + auto.
  Qed.

  (* (a) for every visiting order *)
  Theorem greedy_proper_gen : forall ord,
    NoDup ord -> (forall c, In c ord -> c < ncols) ->
    let groups := greedy ncols nb ord in
    Permutation (concat groups) ord /\
    NoDup (concat groups) /\
    Forall (fun g => g <> []) groups /\
    length groups <= length ord /\
    (forall k c1 c2, In c1 (nth k groups []) -> In c2 (nth k groups []) -> c1 <> c2 ->
                     ~ In c1 (nb c2)).
  Proof.
    intros ord ND Hlt groups.
    pose proof (Inv_fold ord _ [] Inv_init ND Hlt) as (H1 & H2 & H3 & H4 & H5).
    simpl in *. fold (greedy_state ncols nb ord) in *. fold groups in H2, H3, H4, H5.
    repeat split; auto.
    - eapply Permutation_NoDup. apply Permutation_sym; eauto. auto.
    - rewrite <- (Permutation_length H2). apply nonempty_length_concat; auto.
  Qed.
End Greedy.

(* ------------------------------------------------------------------ patterns *)

Lemma nth_nil_false : forall c, nth c (@nil bool) false = false.
Proof. destruct c; reflexivity. Qed.

Lemma pat_true_lt : forall P r c, pat P r c = true -> r < length P.
Proof.
  intros. destruct (Nat.lt_ge_cases r (length P)); auto.
  unfold pat in H. rewrite (nth_overflow P) in H by auto. rewrite nth_nil_false in H. congruence.
Qed.

Lemma adjb_spec : forall P c c',
  adjb P c c' = true <-> exists r, pat P r c = true /\ pat P r c' = true.
Proof.
  unfold adjb. intros. rewrite existsb_exists. split.
  - intros [row [Hin Hb]]. apply andb_true_iff in Hb.
    destruct (In_nth _ _ [] Hin) as [r [Hr E]]. exists r. unfold pat. rewrite E. auto.
  - intros [r [H1 H2]]. exists (nth r P []). split.
    + apply nth_In. eapply pat_true_lt; eauto.
    + unfold pat in *. rewrite H1, H2. reflexivity.
Qed.

Lemma adjb_sym : forall P c c', adjb P c c' = adjb P c' c.
Proof.
  intros. destruct (adjb P c c') eqn:E1; destruct (adjb P c' c) eqn:E2; auto.
  - apply adjb_spec in E1. destruct E1 as [r [? ?]].
    assert (adjb P c' c = true) by (apply adjb_spec; eauto). congruence.
  - apply adjb_spec in E2. destruct E2 as [r [? ?]].
    assert (adjb P c c' = true) by (apply adjb_spec; eauto). congruence.
Qed.

Lemma nbrs_spec : forall P n a b, In a (nbrs P n b) <-> a < n /\ adjb P a b = true.
Proof.
  unfold nbrs. intros. rewrite filter_In, in_seq. intuition lia.
Qed.

(* no two columns of one colour have a nonzero in the same row *)
Definition proper_groups (P : pattern) (groups : list (list nat)) : Prop :=
  forall k c1 c2 r, In c1 (nth k groups []) -> In c2 (nth k groups []) -> c1 <> c2 ->
                    pat P r c1 = true -> pat P r c2 = true -> False.

Theorem greedy_proper : forall (P : pattern) (ncols : nat) (ord : list nat),
  NoDup ord -> (forall c, In c ord -> c < ncols) ->
  let groups := greedy ncols (nbrs P ncols) ord in
  (* every visited column is in exactly one colour, once; nothing else is coloured *)
  Permutation (concat groups) ord /\ NoDup (concat groups) /\
  (forall c k1 k2, In c (nth k1 groups []) -> In c (nth k2 groups []) -> k1 = k2) /\
  (* no colour is empty, never more colours than columns *)
  Forall (fun g => g <> []) groups /\ length groups <= length ord /\
  (* structurally non-orthogonal columns never share a colour *)
  proper_groups P groups.
Proof.
  intros P ncols ord ND Hlt groups.
  assert (Hsym : forall a b, In a (nbrs P ncols b) -> In b (nbrs P ncols a) \/ ~ b < ncols).
  { intros a b H. apply nbrs_spec in H. destruct H.
    destruct (Nat.lt_ge_cases b ncols); [left|right; lia].
    apply nbrs_spec. split; auto. rewrite adjb_sym; auto. }
  (* symmetric on columns below ncols; make it total by restricting to them *)
  pose (nb' := fun c => if c <? ncols then nbrs P ncols c else []).
  assert (Hsym' : forall a b, In a (nb' b) -> In b (nb' a)).
  { unfold nb'. intros a b H. destruct (Nat.ltb_spec b ncols); try contradiction.
    pose proof H as H'. apply nbrs_spec in H'. destruct H' as [Ha _].
    destruct (Nat.ltb_spec a ncols); try lia.
    destruct (Hsym _ _ H); auto. lia. }
  assert (Heq : greedy ncols (nbrs P ncols) ord = greedy ncols nb' ord).
  { unfold greedy, greedy_state. generalize (repeat (-1)%Z ncols, @nil (list nat)).
    revert Hlt. clear. induction ord; simpl; intros; auto.
    assert (E : greedy_step (nbrs P ncols) p a = greedy_step nb' p a).
    { unfold greedy_step, nb'. destruct (Nat.ltb_spec a ncols); auto.
      exfalso. specialize (Hlt a (or_introl eq_refl)). lia. }
    rewrite E. apply IHord. auto. }
  destruct (greedy_proper_gen ncols nb' Hsym' ord ND Hlt) as (H1 & H2 & H3 & H4 & H5).
  fold groups in Heq. rewrite <- Heq in *.
  repeat split; auto.
  - intros. eapply NoDup_concat_unique; eauto.
  - intros k c1 c2 r I1 I2 Hd P1 P2.
    assert (L1 : c1 < ncols).
    { apply Hlt. eapply Permutation_in. apply H1. eapply In_nth_concat; eauto. }
    assert (L2 : c2 < ncols).
    { apply Hlt. eapply Permutation_in. apply H1. eapply In_nth_concat; eauto. }
    apply (H5 k c1 c2 I1 I2 Hd). unfold nb'.
    destruct (Nat.ltb_spec c2 ncols); try lia.
    apply nbrs_spec. split; auto. apply adjb_spec. eauto.
Qed.

(* the per-case check of the visiting order *)
Lemma order_ok_sound : forall P ncols ord,
  order_ok P ncols ord = true ->
  NoDup ord /\ (forall c, In c ord -> c < ncols) /\
  (forall r c, c < ncols -> pat P r c = true -> In c ord).
Proof.
  unfold order_ok. intros P ncols ord H.
  apply andb_true_iff in H. destruct H as [H H3].
  apply andb_true_iff in H. destruct H as [H1 H2].
  split. apply nodupb_NoDup; auto.
  split.
  - intros c Hc. rewrite forallb_forall in H2. specialize (H2 _ Hc).
    apply andb_true_iff in H2. destruct H2 as [H2 _]. apply Nat.ltb_lt in H2. auto.
  - intros r c Hc Hp. rewrite forallb_forall in H3.
    assert (Hin : In c (seq 0 ncols)) by (apply in_seq; lia).
    specialize (H3 _ Hin). apply orb_true_iff in H3. destruct H3 as [H3|H3].
    + apply memb_In; auto.
    + exfalso. apply Nat.eqb_eq in H3.
      assert (In r (col_rows P c)).
      { unfold col_rows. apply filter_In. split; auto. apply in_seq.
        pose proof (pat_true_lt _ _ _ Hp). lia. }
      destruct (col_rows P c); simpl in *; try contradiction; lia.
Qed.
