(* C03 -- expand (compress M) = M for every proper colouring and every matrix with the pattern.
   The value type only needs an addition with a two-sided neutral element (so the statement holds
   over Z, Q, R, any ring, any monoid). *)
From Coq Require Import ZArith List Bool Arith Lia Permutation.
From OMV Require Import Base.Val C03.Model C03.ProofsGreedy.
Import ListNotations.
Open Scope nat_scope.

Section Expand.
  Variable V : Type.
  Variable vzero : V.
  Variable vadd : V -> V -> V.
  Hypothesis add_0_l : forall x, vadd vzero x = x.
  Hypothesis add_0_r : forall x, vadd x vzero = x.

  Lemma fold_zero : forall (f : nat -> V) l acc,
    (forall x, In x l -> f x = vzero) -> fold_left vadd (map f l) acc = acc.
  Proof.
    induction l; simpl; intros; auto.
    rewrite (H a) by auto. rewrite add_0_r. apply IHl. auto.
  Qed.

  Lemma fold_single : forall (f : nat -> V) l c,
    NoDup l -> In c l -> (forall x, In x l -> x <> c -> f x = vzero) ->
    fold_left vadd (map f l) vzero = f c.
  Proof.
    induction l; simpl; intros c ND Hin Hz; try contradiction.
    inversion ND; subst.
    destruct (Nat.eq_dec a c).
    - subst. rewrite add_0_l. apply fold_zero.
      intros x Hx. apply Hz; auto. intro; subst; auto.
    - rewrite (Hz a) by auto. rewrite add_0_l.
      destruct Hin; try congruence. apply IHl; auto.
  Qed.

  (* ---------------------------------------------------------------- colour array *)

  Definition ca_step (c : nat) (acc : nat * nat) (g : list nat) : nat * nat :=
    (if memb c g then snd acc else fst acc, S (snd acc)).

  Lemma ca_nochange : forall c gs a n,
    (forall k, ~ In c (nth k gs [])) -> fst (fold_left (ca_step c) gs (a, n)) = a.
  Proof.
    induction gs; simpl; intros; auto.
    unfold ca_step at 2; simpl.
    assert (memb c a = false). { apply memb_false. apply (H 0). }
    rewrite H0. apply IHgs. intros k. apply (H (S k)).
  Qed.

  Lemma ca_unique : forall c gs a n k,
    In c (nth k gs []) -> (forall k', In c (nth k' gs []) -> k' = k) ->
    fst (fold_left (ca_step c) gs (a, n)) = n + k.
  Proof.
    induction gs; intros a0 n k Hin Hu.
    - destruct k; simpl in Hin; contradiction.
    - simpl. unfold ca_step at 2; simpl. destruct k.
      + simpl in Hin. assert (memb c a = true) by (apply memb_In; auto). rewrite H.
        rewrite ca_nochange. lia.
        intros k Hc. specialize (Hu (S k) Hc). discriminate.
      + assert (memb c a = false).
        { apply memb_false. intro Hc. specialize (Hu 0 Hc). discriminate. }
        rewrite H. rewrite (IHgs a0 (S n) k); auto. lia.
        intros k' Hc. specialize (Hu (S k') Hc). congruence.
  Qed.

  Lemma color_array_spec : forall groups c k,
    NoDup (concat groups) -> In c (nth k groups []) -> color_array groups c = k.
  Proof.
    intros. unfold color_array.
    change (fst (fold_left (ca_step c) groups (0, 0)) = k).
    rewrite (ca_unique c groups 0 0 k); auto.
    intros. eapply NoDup_concat_unique; eauto.
  Qed.

  (* ---------------------------------------------------------------- (b) fwd *)

  (* row-local form: only row r of M and of the pattern matter *)
  Lemma expand_compress_fwd_row : forall (P : pattern) (ncols : nat) (groups : list (list nat))
                                         (M : nat -> nat -> V) (r : nat),
    (forall c, c < ncols -> pat P r c = false -> M r c = vzero) ->
    NoDup (concat groups) ->
    proper_groups P groups ->
    (forall c, c < ncols -> pat P r c = true -> exists k, In c (nth k groups [])) ->
    forall c, c < ncols ->
      expand_fwd V vzero P groups (compress_fwd V vzero vadd M ncols groups) r c = M r c.
  Proof.
    intros P ncols groups M r Hpat ND Hprop Hcov c Hc.
    unfold expand_fwd. destruct (pat P r c) eqn:E.
    - destruct (Hcov c Hc E) as [k Hk].
      rewrite (color_array_spec groups c k ND Hk).
      unfold compress_fwd, comp_fwd, vsum.
      apply (fold_single (fun c' => M r c')).
      + apply NoDup_filter. apply seq_NoDup.
      + apply filter_In. split. apply in_seq; lia. apply memb_In; auto.
      + intros x Hx Hne. apply filter_In in Hx. destruct Hx as [Hx1 Hx]. apply memb_In in Hx.
        apply in_seq in Hx1.
        apply Hpat. lia. destruct (pat P r x) eqn:E2; auto.
        exfalso. eapply (Hprop k x c r); eauto.
    - symmetry. auto.
  Qed.

  Theorem expand_compress_fwd : forall (P : pattern) (ncols : nat) (groups : list (list nat))
                                       (M : nat -> nat -> V),
    (forall r c, pat P r c = false -> M r c = vzero) ->            (* M has pattern P *)
    NoDup (concat groups) ->                                       (* at most one colour per column *)
    proper_groups P groups ->                                      (* proper colouring *)
    (forall r c, c < ncols -> pat P r c = true -> exists k, In c (nth k groups [])) ->
    forall r c, c < ncols ->
      expand_fwd V vzero P groups (compress_fwd V vzero vadd M ncols groups) r c = M r c.
  Proof.
    intros. apply expand_compress_fwd_row; auto. intros. eauto.
  Qed.

  (* every visiting order that enumerates the non-empty columns gives an exact reconstruction *)
  Theorem fwd_coloring_reconstructs : forall (P : pattern) (ncols : nat) (ord : list nat)
                                             (M : nat -> nat -> V),
    (forall r c, pat P r c = false -> M r c = vzero) ->
    order_ok P ncols ord = true ->
    let groups := greedy ncols (nbrs P ncols) ord in
    forall r c, c < ncols ->
      expand_fwd V vzero P groups (compress_fwd V vzero vadd M ncols groups) r c = M r c.
  Proof.
    intros P ncols ord M Hpat Hok groups r c Hc.
    apply order_ok_sound in Hok. destruct Hok as (ND & Hlt & Hcov).
    destruct (greedy_proper P ncols ord ND Hlt) as (Hperm & HND & _ & _ & _ & Hprop).
    fold groups in Hperm, HND, Hprop.
    apply expand_compress_fwd; auto.
    intros r' c' Hc' Hp.
    assert (Hin : In c' (concat groups)).
    { eapply Permutation_in. apply Permutation_sym; eauto. eapply Hcov; eauto. }
    destruct (In_concat_nth _ _ Hin) as [k [_ Hk]]. eauto.
  Qed.

  (* ---------------------------------------------------------------- rev, by transposition *)

  Lemma pat_transpose : forall P ncols r c, c < ncols -> pat (transpose ncols P) c r = pat P r c.
  Proof.
    intros. unfold pat, transpose.
    rewrite (nth_indep _ [] (map (fun row => nth 0 row false) P)) by (rewrite map_length, seq_length; auto).
    rewrite (map_nth (fun c0 => map (fun row => nth c0 row false) P) (seq 0 ncols) 0 c).
    rewrite seq_nth by auto. simpl.
    destruct (Nat.lt_ge_cases r (length P)).
    - rewrite (nth_indep _ false (nth c [] false)) by (rewrite map_length; auto).
      rewrite (map_nth (fun row => nth c row false) P [] r). reflexivity.
    - rewrite nth_overflow by (rewrite map_length; auto).
      rewrite (nth_overflow P) by auto. rewrite nth_nil_false. reflexivity.
  Qed.

  Theorem expand_compress_rev : forall (P : pattern) (nrows ncols : nat)
                                       (groups : list (list nat)) (M : nat -> nat -> V),
    (forall r c, pat P r c = false -> M r c = vzero) ->
    NoDup (concat groups) ->
    proper_groups (transpose ncols P) groups ->
    (forall r c, r < nrows -> c < ncols -> pat P r c = true -> exists k, In r (nth k groups [])) ->
    forall r c, r < nrows -> c < ncols ->
      expand_rev V vzero P groups (compress_rev V vzero vadd M nrows groups) r c = M r c.
  Proof.
    intros P nrows ncols groups M Hpat ND Hprop Hcov r c Hr Hc.
    pose proof (expand_compress_fwd_row (transpose ncols P) nrows groups (fun a b => M b a) c) as H.
    unfold expand_rev. unfold expand_fwd in H.
    rewrite <- (pat_transpose P ncols r c Hc).
    apply H; auto.
    - intros x Hx Hf. rewrite pat_transpose in Hf by auto. auto.
    - intros x Hx Ht. rewrite pat_transpose in Ht by auto. eauto.
  Qed.

  Theorem rev_coloring_reconstructs : forall (P : pattern) (ncols : nat) (ord : list nat)
                                             (M : nat -> nat -> V),
    (forall r c, pat P r c = false -> M r c = vzero) ->
    order_ok (transpose ncols P) (length P) ord = true ->
    let groups := greedy (length P) (nbrs (transpose ncols P) (length P)) ord in
    forall r c, r < length P -> c < ncols ->
      expand_rev V vzero P groups (compress_rev V vzero vadd M (length P) groups) r c = M r c.
  Proof.
    intros P ncols ord M Hpat Hok groups r c Hr Hc.
    apply order_ok_sound in Hok. destruct Hok as (ND & Hlt & Hcov).
    destruct (greedy_proper (transpose ncols P) (length P) ord ND Hlt)
      as (Hperm & HND & _ & _ & _ & Hprop).
    fold groups in Hperm, HND, Hprop.
    apply expand_compress_rev with (ncols := ncols); auto.
    intros r' c' Hr' Hc' Hp.
    assert (Hin : In r' (concat groups)).
    { eapply Permutation_in. apply Permutation_sym; eauto.
      apply (Hcov c' r'); auto. rewrite pat_transpose; auto. }
    destruct (In_concat_nth _ _ Hin) as [k [_ Hk]]. eauto.
  Qed.
End Expand.
