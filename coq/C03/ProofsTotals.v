(* C03 -- number of solves of mode=auto, and the interaction of the substitution method's
   subtractions with the row/column scaling at the end of compute_totals. *)
From Coq Require Import ZArith List Bool Arith Lia Permutation.
From OMV Require Import Base.Val C03.Model C03.ProofsGreedy C03.ProofsExpand C03.ProofsBidir.
Import ListNotations.
Open Scope nat_scope.

(* ------------------------------------------------------------------ solves *)

Lemma nodup_bounded_length : forall (l : list nat) n,
  NoDup l -> (forall x, In x l -> x < n) -> length l <= n.
Proof.
  intros. rewrite <- (seq_length n 0). apply NoDup_incl_length; auto.
  intros x Hx. apply in_seq. specialize (H0 x Hx). lia.
Qed.

Lemma auto_select_le : forall b f r,
  snd (auto_select b f r) <= b /\ snd (auto_select b f r) <= f /\ snd (auto_select b f r) <= r.
Proof.
  intros. unfold auto_select.
  destruct (Nat.leb_spec f b); simpl;
    match goal with |- context [if ?x <? ?y then _ else _] => destruct (Nat.ltb_spec x y) end;
    simpl; lia.
Qed.

(* fwd colouring never needs more solves than columns, rev never more than rows, and what
   _compute_coloring(mode='auto') keeps never needs more than min(nrows, ncols) *)
Theorem solves_le_uncolored : forall (P : pattern) (ncols : nat) (ordf ordr : list nat) (bidir : nat),
  order_ok P ncols ordf = true ->
  order_ok (transpose ncols P) (length P) ordr = true ->
  let nf := length (greedy ncols (nbrs P ncols) ordf) in
  let nr := length (greedy (length P) (nbrs (transpose ncols P) (length P)) ordr) in
  nf <= ncols /\ nr <= length P /\
  snd (auto_select bidir nf nr) <= Nat.min (length P) ncols /\
  snd (auto_select bidir nf nr) <= bidir.
Proof.
  intros P ncols ordf ordr bidir Hf Hr nf nr.
  apply order_ok_sound in Hf. destruct Hf as (NDf & Ltf & _).
  apply order_ok_sound in Hr. destruct Hr as (NDr & Ltr & _).
  destruct (greedy_proper P ncols ordf NDf Ltf) as (_ & _ & _ & _ & Lf & _).
  destruct (greedy_proper (transpose ncols P) (length P) ordr NDr Ltr) as (_ & _ & _ & _ & Lr & _).
  pose proof (nodup_bounded_length _ _ NDf Ltf).
  pose proof (nodup_bounded_length _ _ NDr Ltr).
  destruct (auto_select_le bidir nf nr) as (A & B & C).
  fold nf in Lf. fold nr in Lr.
  repeat split; try lia.
Qed.

(* ------------------------------------------------------------------ scaling *)

Lemma jget_scale : forall sc J r c, jget 0%Z (scale_J sc J) r c = (sc r c * jget 0%Z J r c)%Z.
Proof.
  unfold jget, scale_J. induction J as [|e J IH]; simpl; intros.
  - rewrite Z.mul_0_r. reflexivity.
  - destruct (Nat.eqb (fst (fst e)) r && Nat.eqb (snd (fst e)) c) eqn:E; simpl.
    + apply andb_true_iff in E. destruct E as [E1 E2].
      apply Nat.eqb_eq in E1. apply Nat.eqb_eq in E2. subst. reflexivity.
    + apply IH.
Qed.

(* (d) repaired order (subtractions on the raw derivatives, scaling afterwards): the scaled total
   jacobian is exact for every accepted colouring, every matrix with the pattern, every scaling *)
Theorem totals_repaired_correct : forall P nrows ncols fg fnz rg rnz subs,
  valid_bidir P nrows ncols fg fnz rg rnz subs = true ->
  forall (M sc : nat -> nat -> Z), (forall r c, pat P r c = false -> M r c = 0%Z) ->
  forall r c, r < nrows -> c < ncols ->
    jget 0%Z (totals_repaired M sc nrows ncols fg fnz rg rnz subs) r c = (sc r c * M r c)%Z.
Proof.
  intros. unfold totals_repaired. rewrite jget_scale.
  rewrite (valid_bidir_sound_Z P nrows ncols fg fnz rg rnz subs H M H0 r c H1 H2). reflexivity.
Qed.

(* present order (scaling first, subtractions afterwards): refuted.  Witness: the 6x6 arrow-head
   pattern with the colouring that the real MNCO_bidir(direct=False) returns for it, a row scaling
   (constraint scaler 1,2,3,4,5 below the objective row) and entry (4,0): 360 instead of 4*50. *)
Definition arrow_P : pattern :=
  [[true; true; true; true; true; true];
   [true; true; false; false; false; false];
   [true; false; true; false; false; false];
   [true; false; false; true; false; false];
   [true; false; false; false; true; false];
   [true; false; false; false; false; true]].
Definition arrow_M : list (list Z) :=
  [[1; 2; 3; 4; 5; 6]; [20; 8; 0; 0; 0; 0]; [30; 0; 9; 0; 0; 0];
   [40; 0; 0; 10; 0; 0]; [50; 0; 0; 0; 11; 0]; [60; 0; 0; 0; 0; 12]]%Z.
Definition arrow_fg := [[0]].
Definition arrow_fnz := [[0; 1; 2; 3]; []; []; []; []; []].
Definition arrow_rg := [[0]; [1; 2; 3; 4]; [5]].
Definition arrow_rnz := [[1; 2; 3; 4; 5]; [1]; [2]; [3]; [0; 4]; [0; 5]].
Definition arrow_subs : list subtraction := [((4, 0), [(1, 0); (2, 0); (3, 0)])].
Definition arrow_sc (r c : nat) : Z := nth r [1; 1; 2; 3; 4; 5]%Z 1%Z.

Theorem totals_present_refuted :
  exists P nrows ncols fg fnz rg rnz subs (M sc : nat -> nat -> Z) r c,
    valid_bidir P nrows ncols fg fnz rg rnz subs = true /\
    (forall r c, pat P r c = false -> M r c = 0%Z) /\
    r < nrows /\ c < ncols /\
    jget 0%Z (totals_present M sc nrows ncols fg fnz rg rnz subs) r c <> (sc r c * M r c)%Z.
Proof.
  exists arrow_P, 6, 6, arrow_fg, arrow_fnz, arrow_rg, arrow_rnz, arrow_subs,
         (mat_of arrow_M), arrow_sc, 4, 0.
  split. vm_compute; reflexivity.
  split.
  { intros r c. do 7 (destruct r as [|r]; [ do 7 (destruct c as [|c]; [vm_compute; congruence|]);
      intros _; unfold mat_of; simpl; destruct c; reflexivity |]).
    intros _. unfold mat_of. simpl. destruct r; destruct c; reflexivity. }
  split. lia. split. lia.
  vm_compute. congruence.
Qed.

(* the same colouring without scaling reconstructs exactly (non-vacuity of the validator) *)
Example arrow_valid : valid_bidir arrow_P 6 6 arrow_fg arrow_fnz arrow_rg arrow_rnz arrow_subs = true.
Proof. vm_compute. reflexivity. Qed.

Example arrow_present_value :
  jget 0%Z (totals_present (mat_of arrow_M) arrow_sc 6 6 arrow_fg arrow_fnz arrow_rg arrow_rnz arrow_subs) 4 0
  = 360%Z.
Proof. vm_compute. reflexivity. Qed.

Example arrow_repaired_value :
  jget 0%Z (totals_repaired (mat_of arrow_M) arrow_sc 6 6 arrow_fg arrow_fnz arrow_rg arrow_rnz arrow_subs) 4 0
  = 200%Z.
Proof. vm_compute. reflexivity. Qed.

(* non-vacuity of the premises of greedy_proper / fwd_coloring_reconstructs *)
Example arrow_order_ok : order_ok arrow_P 6 (order_by_ID 6 (nbrs arrow_P 6)) = true.
Proof. vm_compute. reflexivity. Qed.
