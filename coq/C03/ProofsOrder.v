(* C03 -- _order_by_ID (incidence-degree ordering) visits every non-empty column exactly once, for
   every pattern: the per-case check [order_ok] is not needed for the orders the code computes. *)
From Coq Require Import ZArith List Bool Arith Lia Permutation.
From OMV Require Import Base.Val C03.Model C03.ProofsGreedy C03.ProofsExpand C03.ProofsTotals.
Import ListNotations.
Open Scope nat_scope.

(* ------------------------------------------------------------------ argmax over Z *)

(* value-carrying version: easier to reason about *)
Fixpoint argmaxv_from (bi : nat) (b : Z) (i : nat) (l : list Z) : nat * Z :=
  match l with
  | [] => (bi, b)
  | x :: t => if (b <? x)%Z then argmaxv_from i x (S i) t else argmaxv_from bi b (S i) t
  end.

Lemma argmaxv_fst : forall t bi b i, fst (argmaxv_from bi b i t) = argmax_from bi b i t.
Proof. induction t; simpl; intros; auto. destruct (b <? a)%Z; auto. Qed.

Lemma argmaxv_spec : forall t bi b i d,
  let res := argmaxv_from bi b i t in
  ((fst res = bi /\ snd res = b) \/
   (exists j, j < length t /\ fst res = i + j /\ snd res = nth j t d)) /\
  (b <= snd res)%Z /\
  (forall j, j < length t -> (nth j t d <= snd res)%Z).
Proof.
  induction t as [|x t IH]; intros bi b i d; simpl.
  - split. left; auto. split. lia. intros; lia.
  - destruct (b <? x)%Z eqn:E.
    + destruct (IH i x (S i) d) as (A & B & C). split; [|split].
      * right. destruct A as [[A1 A2]|[j [Hj [A1 A2]]]].
        -- exists 0. split. lia. rewrite A1, A2. split; auto.
        -- exists (S j). split. lia. rewrite A1, A2. split; auto. lia.
      * apply Z.ltb_lt in E. lia.
      * intros j Hj. destruct j; auto. apply C. lia.
    + destruct (IH bi b (S i) d) as (A & B & C). split; [|split].
      * destruct A as [[A1 A2]|[j [Hj [A1 A2]]]].
        -- left; auto.
        -- right. exists (S j). split. lia. rewrite A1, A2. split; auto. lia.
      * auto.
      * intros j Hj. destruct j.
        -- apply Z.ltb_ge in E. lia.
        -- apply C. lia.
Qed.

Lemma argmax_spec : forall l d, l <> [] ->
  argmax l < length l /\ forall j, j < length l -> (nth j l d <= nth (argmax l) l d)%Z.
Proof.
  intros l d Hl. destruct l as [|x t]; try congruence. unfold argmax.
  rewrite <- argmaxv_fst.
  destruct (argmaxv_spec t 0 x 1 d) as (A & B & C).
  assert (T : forall j, j < length (x :: t) ->
              (nth j (x :: t) d <= snd (argmaxv_from 0 x 1 t))%Z).
  { intros j Hj. destruct j; [exact B | apply C; simpl in Hj; lia]. }
  destruct A as [[A1 A2]|[j [Hj [A1 A2]]]].
  - rewrite A1. split; [simpl; lia|]. intros j Hj.
    change (nth 0 (x :: t) d) with x. pose proof (T j Hj) as H. rewrite A2 in H. exact H.
  - rewrite A1. split; [simpl; lia|]. intros j' Hj'.
    change (nth (1 + j) (x :: t) d) with (nth j t d). pose proof (T j' Hj') as H. rewrite A2 in H. exact H.
Qed.

(* ------------------------------------------------------------------ the increments *)

Lemma fold_incr_length : forall l (d : list Z),
  length (fold_left (fun d j => upd j (Z.add 1) d) l d) = length d.
Proof. induction l; simpl; intros; auto. rewrite IHl. apply upd_length. Qed.

Lemma fold_incr_nth : forall l (d : list Z) c,
  NoDup l -> (forall j, In j l -> j < length d) ->
  nth c (fold_left (fun d j => upd j (Z.add 1) d) l d) 0%Z =
  (nth c d 0 + (if memb c l then 1 else 0))%Z.
Proof.
  induction l as [|a l IH]; intros d c ND Hlt.
  - simpl. lia.
  - cbn [fold_left]. inversion ND; subst.
    rewrite IH; auto.
    2: { intros j Hj. rewrite upd_length. apply Hlt. right; auto. }
    assert (MC : memb c (a :: l) = (Nat.eqb c a || memb c l)) by reflexivity.
    rewrite MC.
    destruct (Nat.eqb_spec c a).
    + subst. rewrite nth_upd_same by (apply Hlt; left; auto).
      assert (Hm : memb a l = false) by (apply memb_false; auto).
      rewrite Hm. cbn [orb]. lia.
    + rewrite nth_upd_other by auto. cbn [orb]. reflexivity.
Qed.

(* ------------------------------------------------------------------ the ordering loop *)

Lemma nodup_bounded_length' : forall (l : list nat) n,
  NoDup l -> (forall x, In x l -> x < n) -> length l <= n.
Proof. exact nodup_bounded_length. Qed.

Lemma exists_unvisited : forall (E V : list nat),
  NoDup E -> length V < length E -> exists c, In c E /\ ~ In c V.
Proof.
  intros E V ND Hlen.
  destruct (forallb (fun c => memb c V) E) eqn:F.
  - exfalso. rewrite forallb_forall in F.
    assert (incl E V). { intros c Hc. apply memb_In. auto. }
    pose proof (NoDup_incl_length ND H). lia.
  - assert (exists c, In c E /\ memb c V = false).
    { clear ND Hlen. induction E as [|e E IH]; simpl in F; try discriminate.
      destruct (memb e V) eqn:M.
      - simpl in F. destruct (IH F) as [c [? ?]]. exists c; split; auto. right; auto.
      - exists e. split; auto. left; auto. }
    destruct H as [c [? H2]]. exists c. split; auto. apply memb_false; auto.
Qed.

Section Order.
  Variable ncols : nat.
  Variable nb : nat -> list nat.
  Hypothesis nb_lt : forall c a, In a (nb c) -> a < ncols.
  Hypothesis nb_sym : forall c a, c < ncols -> In a (nb c) -> In c (nb a).
  Hypothesis nb_nodup : forall c, NoDup (nb c).

  Definition Inv (degs : list Z) (V : list nat) : Prop :=
    length degs = ncols /\ NoDup V /\
    (forall c, In c V -> c < ncols /\ nb c <> []) /\
    (forall c, In c V -> (nth c degs 0 <= - Z.of_nat ncols + Z.of_nat (length V) - 1)%Z) /\
    (forall c, c < ncols -> ~ In c V -> nb c <> [] -> (1 <= nth c degs 0)%Z) /\
    (forall c, c < ncols -> ~ In c V -> nb c = [] -> nth c degs 0%Z = 0%Z).

  Definition next_degs (degs : list Z) : list Z :=
    let col := argmax degs in
    upd col (fun _ => (- Z.of_nat ncols)%Z)
        (fold_left (fun d j => upd j (Z.add 1) d) (nb col) degs).

  Lemma Inv_step : forall degs V c0,
    Inv degs V -> c0 < ncols -> ~ In c0 V -> nb c0 <> [] ->
    let col := argmax degs in
    col < ncols /\ ~ In col V /\ nb col <> [] /\ Inv (next_degs degs) (col :: V).
  Proof.
    intros degs V c0 (Hlen & HND & HV & Hvis & Hpos & Hzero) Hc0 Hn0 He0 col.
    assert (Hne : degs <> []). { intro E. rewrite E in Hlen. simpl in Hlen. lia. }
    destruct (argmax_spec degs 0%Z Hne) as [Hcol Hmax]. fold col in Hcol, Hmax.
    rewrite Hlen in Hcol.
    assert (Hge : (1 <= nth col degs 0)%Z).
    { eapply Z.le_trans. apply (Hpos c0); auto. apply Hmax. lia. }
    assert (HVlen : length V <= ncols).
    { apply nodup_bounded_length'; auto. intros x Hx. apply HV; auto. }
    assert (HcolV : ~ In col V).
    { intro Hc. specialize (Hvis col Hc). lia. }
    assert (Hcolne : nb col <> []).
    { intro E. specialize (Hzero col Hcol HcolV E). lia. }
    split; auto. split; auto. split; auto.
    unfold next_degs. fold col.
    set (degs1 := fold_left (fun d j => upd j (Z.add 1) d) (nb col) degs).
    assert (Hl1 : length degs1 = ncols) by (unfold degs1; rewrite fold_incr_length; auto).
    assert (Hn1 : forall c, nth c degs1 0%Z =
                  (nth c degs 0 + (if memb c (nb col) then 1 else 0))%Z).
    { intros c. unfold degs1. apply fold_incr_nth; auto.
      intros j Hj. rewrite Hlen. eapply nb_lt; eauto. }
    unfold Inv. repeat split.
    - rewrite upd_length. auto.
    - constructor; auto.
    - destruct H as [H|H]. subst; auto. apply HV; auto.
    - destruct H as [H|H]. subst; auto. apply HV; auto.
    - intros c Hc. simpl length. destruct (Nat.eq_dec c col).
      + subst c. rewrite nth_upd_same by lia. lia.
      + rewrite nth_upd_other by auto. destruct Hc as [Hc|Hc]; try congruence.
        rewrite Hn1. specialize (Hvis c Hc). destruct (memb c (nb col)); lia.
    - intros c Hc Hnin Hne'. assert (c <> col) by (intro; subst; apply Hnin; left; auto).
      rewrite nth_upd_other by auto. rewrite Hn1.
      assert (~ In c V) by (intro; apply Hnin; right; auto).
      specialize (Hpos c Hc H0 Hne'). destruct (memb c (nb col)); lia.
    - intros c Hc Hnin He. assert (c <> col) by (intro; subst; apply Hnin; left; auto).
      rewrite nth_upd_other by auto. rewrite Hn1.
      assert (~ In c V) by (intro; apply Hnin; right; auto).
      rewrite (Hzero c Hc H0 He).
      destruct (memb c (nb col)) eqn:M; auto.
      exfalso. apply memb_In in M. apply nb_sym in M; auto. rewrite He in M. contradiction.
  Qed.

  Variable E : list nat.                       (* the non-empty columns *)
  Hypothesis E_nodup : NoDup E.
  Hypothesis E_spec : forall c, In c E <-> c < ncols /\ nb c <> [].

  Lemma order_loop_spec : forall fuel degs V,
    Inv degs V -> length V + fuel <= length E ->
    let L := order_loop fuel ncols nb degs in
    length L = fuel /\ NoDup L /\ (forall c, In c L -> ~ In c V) /\ (forall c, In c L -> In c E).
  Proof.
    induction fuel as [|k IH]; intros degs V HI Hlen; simpl.
    - split; [reflexivity|]. split; [constructor|]. split; intros c [].
    - assert (HVE : forall x, In x V -> In x E).
      { intros x Hx. apply E_spec. destruct HI as (_ & _ & HV & _). apply HV; auto. }
      destruct (exists_unvisited E V E_nodup) as [c0 [Hc0 Hn0]]. lia.
      apply E_spec in Hc0. destruct Hc0 as [Hc0 He0].
      destruct (Inv_step degs V c0 HI Hc0 Hn0 He0) as (Hcol & HcolV & Hcolne & HI').
      unfold next_degs in HI'.
      destruct (IH _ (argmax degs :: V) HI') as (A & B & C & D). simpl; lia.
      split; [|split; [|split]].
      + simpl. f_equal. exact A.
      + constructor; auto. intro Hc. apply (C _ Hc). left; auto.
      + intros c [Hc|Hc]. subst; auto. intro Hv. apply (C _ Hc). right; auto.
      + intros c [Hc|Hc]. subst. apply E_spec; auto. auto.
  Qed.
End Order.

(* ------------------------------------------------------------------ instantiation *)

Definition nonemptyb (l : list nat) : bool := match l with [] => false | _ => true end.

Lemma init_degrees_count : forall ncols nb,
  length (filter (fun d => negb (Z.eqb d 0)) (init_degrees ncols nb)) =
  length (filter (fun c => nonemptyb (nb c)) (seq 0 ncols)).
Proof.
  intros. unfold init_degrees. induction (seq 0 ncols) as [|c l IH]; simpl; auto.
  destruct (nb c); simpl; rewrite IH; reflexivity.
Qed.

Lemma init_degrees_nth : forall ncols nb c, c < ncols ->
  nth c (init_degrees ncols nb) 0%Z = match nb c with [] => 0%Z | _ => 1%Z end.
Proof.
  intros. unfold init_degrees.
  rewrite (nth_indep _ 0%Z ((fun c => match nb c with [] => 0%Z | _ => 1%Z end) 0))
    by (rewrite map_length, seq_length; auto).
  rewrite (map_nth (fun c => match nb c with [] => 0%Z | _ => 1%Z end) (seq 0 ncols) 0 c).
  rewrite seq_nth by auto. reflexivity.
Qed.

Theorem order_by_ID_enumerates_gen : forall ncols nb,
  (forall c a, In a (nb c) -> a < ncols) ->
  (forall c a, c < ncols -> In a (nb c) -> In c (nb a)) ->
  (forall c, NoDup (nb c)) ->
  let ord := order_by_ID ncols nb in
  NoDup ord /\ (forall c, In c ord <-> c < ncols /\ nb c <> []).
Proof.
  intros ncols nb Hlt Hsym Hnd ord.
  set (E := filter (fun c => nonemptyb (nb c)) (seq 0 ncols)).
  assert (END : NoDup E) by (apply NoDup_filter; apply seq_NoDup).
  assert (Espec : forall c, In c E <-> c < ncols /\ nb c <> []).
  { intros c. unfold E. rewrite filter_In, in_seq. unfold nonemptyb.
    destruct (nb c); split; intros [? ?]; split; try lia; try congruence; auto; try discriminate. }
  assert (I0 : Inv ncols nb (init_degrees ncols nb) []).
  { unfold Inv. repeat split.
    - unfold init_degrees. rewrite map_length, seq_length. reflexivity.
    - constructor.
    - destruct H.
    - destruct H.
    - intros c [].
    - intros c Hc _ Hne. rewrite init_degrees_nth by auto. destruct (nb c); try congruence. lia.
    - intros c Hc _ He. rewrite init_degrees_nth by auto. rewrite He. reflexivity. }
  unfold ord, order_by_ID. rewrite init_degrees_count. fold E.
  destruct (order_loop_spec ncols nb Hlt Hsym Hnd E END Espec (length E) _ [] I0)
    as (A & B & _ & D). simpl; lia.
  split; auto.
  intros c. rewrite <- Espec. split; auto.
  intro Hc. revert c Hc. apply NoDup_length_incl; auto. lia.
Qed.

(* for patterns *)
Lemma nbrs_nonempty : forall P ncols c, c < ncols ->
  (nbrs P ncols c <> [] <-> exists r, pat P r c = true).
Proof.
  intros P ncols c Hc. split.
  - intro H. destruct (nbrs P ncols c) as [|a l] eqn:E; try congruence.
    assert (In a (nbrs P ncols c)) by (rewrite E; left; auto).
    apply nbrs_spec in H0. destruct H0 as [_ H0]. apply adjb_spec in H0.
    destruct H0 as [r [_ H0]]. eauto.
  - intros [r Hr] E.
    assert (In c (nbrs P ncols c)).
    { apply nbrs_spec. split; auto. apply adjb_spec. eauto. }
    rewrite E in H. contradiction.
Qed.

(* the visiting order the code computes enumerates exactly the non-empty columns, once each *)
Theorem order_by_ID_enumerates : forall (P : pattern) (ncols : nat),
  let ord := order_by_ID ncols (nbrs P ncols) in
  NoDup ord /\ (forall c, In c ord -> c < ncols) /\
  (forall c, In c ord <-> c < ncols /\ exists r, pat P r c = true).
Proof.
  intros P ncols ord.
  destruct (order_by_ID_enumerates_gen ncols (nbrs P ncols)) as [ND Hin].
  - intros c a H. apply nbrs_spec in H. tauto.
  - intros c a Hc H. apply nbrs_spec in H. destruct H as [Ha Hadj].
    apply nbrs_spec. split; auto. rewrite adjb_sym. auto.
  - intros c. unfold nbrs. apply NoDup_filter. apply seq_NoDup.
  - fold ord in ND, Hin. split; auto. split.
    + intros c Hc. apply Hin in Hc. tauto.
    + intros c. rewrite Hin. split; intros [Hc H]; split; auto; apply (nbrs_nonempty P ncols c Hc); auto.
Qed.

(* ------------------------------------------------------------------ unconditional corollaries *)

(* what _compute_coloring(mode='fwd') returns is a proper colouring of exactly the non-empty columns *)
Theorem fwd_groups_proper : forall (P : pattern) (ncols : nat),
  let groups := fwd_groups P ncols in
  NoDup (concat groups) /\
  (forall c, In c (concat groups) <-> c < ncols /\ exists r, pat P r c = true) /\
  (forall c k1 k2, In c (nth k1 groups []) -> In c (nth k2 groups []) -> k1 = k2) /\
  Forall (fun g => g <> []) groups /\ length groups <= ncols /\
  proper_groups P groups.
Proof.
  intros P ncols. cbv zeta. unfold fwd_groups.
  destruct (order_by_ID_enumerates P ncols) as (ND & Lt & Cov).
  destruct (greedy_proper P ncols _ ND Lt) as (Hperm & HND & Huniq & Hne & Hlen & Hprop).
  split; auto. split.
  - intros c. rewrite <- Cov. split; intro H.
    + eapply Permutation_in; eauto.
    + eapply Permutation_in. apply Permutation_sym; eauto. auto.
  - split; auto. split; auto. split; auto.
    pose proof (nodup_bounded_length _ _ ND Lt). lia.
Qed.

Section Uncond.
  Variable V : Type.
  Variable vzero : V.
  Variable vadd : V -> V -> V.
  Hypothesis add_0_l : forall x, vadd vzero x = x.
  Hypothesis add_0_r : forall x, vadd x vzero = x.

  Theorem fwd_groups_reconstruct : forall (P : pattern) (ncols : nat) (M : nat -> nat -> V),
    (forall r c, pat P r c = false -> M r c = vzero) ->
    forall r c, c < ncols ->
      expand_fwd V vzero P (fwd_groups P ncols)
                 (compress_fwd V vzero vadd M ncols (fwd_groups P ncols)) r c = M r c.
  Proof.
    intros P ncols M Hpat r c Hc.
    destruct (fwd_groups_proper P ncols) as (HND & Hin & _ & _ & _ & Hprop).
    apply (expand_compress_fwd V vzero vadd add_0_l add_0_r); auto.
    intros r' c' Hc' Hp.
    assert (Hi : In c' (concat (fwd_groups P ncols))) by (apply Hin; eauto).
    destruct (In_concat_nth _ _ Hi) as [k [_ Hk]]. eauto.
  Qed.

  Theorem rev_groups_reconstruct : forall (P : pattern) (ncols : nat) (M : nat -> nat -> V),
    (forall r c, pat P r c = false -> M r c = vzero) ->
    forall r c, r < length P -> c < ncols ->
      expand_rev V vzero P (rev_groups P ncols)
                 (compress_rev V vzero vadd M (length P) (rev_groups P ncols)) r c = M r c.
  Proof.
    intros P ncols M Hpat r c Hr Hc. unfold rev_groups.
    destruct (fwd_groups_proper (transpose ncols P) (length P)) as (HND & Hin & _ & _ & _ & Hprop).
    apply (expand_compress_rev V vzero vadd add_0_l add_0_r) with (ncols := ncols); auto.
    intros r' c' Hr' Hc' Hp.
    assert (Hi : In r' (concat (fwd_groups (transpose ncols P) (length P)))).
    { apply Hin. split; auto. exists c'. rewrite pat_transpose; auto. }
    destruct (In_concat_nth _ _ Hi) as [k [_ Hk]]. eauto.
  Qed.
End Uncond.

(* solves: unconditional *)
Theorem solves_le_uncolored_uncond : forall (P : pattern) (ncols bidir : nat),
  let nf := length (fwd_groups P ncols) in
  let nr := length (rev_groups P ncols) in
  nf <= ncols /\ nr <= length P /\
  snd (auto_select bidir nf nr) <= Nat.min (length P) ncols /\
  snd (auto_select bidir nf nr) <= bidir.
Proof.
  intros P ncols bidir nf nr.
  destruct (fwd_groups_proper P ncols) as (_ & _ & _ & _ & Lf & _).
  destruct (fwd_groups_proper (transpose ncols P) (length P)) as (_ & _ & _ & _ & Lr & _).
  fold (rev_groups P ncols) in Lr. fold nf in Lf. fold nr in Lr.
  destruct (auto_select_le bidir nf nr) as (A & B & C).
  repeat split; try lia.
Qed.

(* non-vacuity: the arrow-head pattern *)
Example arrow_fwd_groups : fwd_groups arrow_P 6 = [[0]; [1]; [2]; [3]; [4]; [5]].
Proof. vm_compute. reflexivity. Qed.
