(* C15 -- the one-dimensional fixed-dimension classes (Interp1DSlinear, Interp1DLagrange2, Interp1DLagrange3):
   compute_coeffs expands the cell polynomial into powers of t = x - (first stencil node), interpolate
   evaluates it in Horner form.  Definitions only; index conventions of InterpAlgorithmFixed: the cell index
   is -1 below the table and n-1 above it. *)
From Coq Require Import ZArith QArith List Bool.
From OMV Require Import Base.Val C15.Model.
Import ListNotations.
Open Scope Z_scope.
Open Scope Q_scope.

(* Interp1DSlinear: a[0] = c0, a[1] = (c1 - c0)/(x1 - x0); val = a[0] + a[1]*(x - grid[idx]) *)
Definition fslin (p0 p1 v0 v1 x : Q) : Q :=
  let a0 := v0 in
  let a1 := (v1 - v0) / (p1 - p0) in
  a0 + a1 * (x - p0).

Definition fixed_slinear1 (g : list Q) (idx : Z) (x : Q) (vs : list Q) : Q :=
  let n := zlen g in
  let i := if (idx =? n - 1)%Z then (n - 2)%Z else if (idx =? -1)%Z then 0%Z else idx in
  fslin (gq g i) (gq g (i + 1)) (vq vs i) (vq vs (i + 1)) x.

(* Interp1DLagrange2.compute_coeffs / interpolate *)
Definition flag2 (p1 p2 p3 v1 v2 v3 x : Q) : Q :=
  let c12 := p1 - p2 in let c13 := p1 - p3 in let c23 := p2 - p3 in
  let d2 := p2 - p1 in let d3 := p3 - p1 in
  let t21 := 1 / (c12 * c13) in let t22 := - (1) / (c12 * c23) in let t23 := 1 / (c13 * c23) in
  let t11 := (d2 + d3) * - t21 in let t12 := d3 * - t22 in let t13 := d2 * - t23 in
  let t01 := (d2 * d3) * t21 in let t02 := 0 * t22 in let t03 := 0 * t23 in
  let a0 := t01 * v1 + t02 * v2 + t03 * v3 in
  let a1 := t11 * v1 + t12 * v2 + t13 * v3 in
  let a2 := t21 * v1 + t22 * v2 + t23 * v3 in
  let t := x - p1 in
  a0 + t * (a1 + t * a2).

Definition fixed_lagrange2_1 (g : list Q) (idx : Z) (x : Q) (vs : list Q) : Q :=
  let n := zlen g in
  let i := if (idx >? n - 3)%Z then (n - 3)%Z else if (idx <? 0)%Z then 0%Z else idx in
  flag2 (gq g i) (gq g (i + 1)) (gq g (i + 2)) (vq vs i) (vq vs (i + 1)) (vq vs (i + 2)) x.

(* Interp1DLagrange3.compute_coeffs / interpolate *)
Definition flag3 (p1 p2 p3 p4 v1 v2 v3 v4 x : Q) : Q :=
  let c12 := p1 - p2 in let c13 := p1 - p3 in let c14 := p1 - p4 in
  let c23 := p2 - p3 in let c24 := p2 - p4 in let c34 := p3 - p4 in
  let d2 := p2 - p1 in let d3 := p3 - p1 in let d4 := p4 - p1 in
  let t31 := 1 / (c12 * c13 * c14) in let t32 := - (1) / (c12 * c23 * c24) in
  let t33 := 1 / (c13 * c23 * c34) in let t34 := - (1) / (c14 * c24 * c34) in
  let t21 := (d2 + d3 + d4) * - t31 in let t22 := (d3 + d4) * - t32 in
  let t23 := (d2 + d4) * - t33 in let t24 := (d2 + d3) * - t34 in
  let t11 := (d2 * d3 + d2 * d4 + d3 * d4) * t31 in let t12 := (d3 * d4) * t32 in
  let t13 := (d2 * d4) * t33 in let t14 := (d2 * d3) * t34 in
  let t01 := (d2 * d3 * d4) * - t31 in let t02 := 0 * - t32 in let t03 := 0 * - t33 in let t04 := 0 * - t34 in
  let a0 := t01 * v1 + t02 * v2 + t03 * v3 + t04 * v4 in
  let a1 := t11 * v1 + t12 * v2 + t13 * v3 + t14 * v4 in
  let a2 := t21 * v1 + t22 * v2 + t23 * v3 + t24 * v4 in
  let a3 := t31 * v1 + t32 * v2 + t33 * v3 + t34 * v4 in
  let t := x - p1 in
  a0 + t * (a1 + t * (a2 + t * a3)).

Definition fixed_lagrange3_1 (g : list Q) (idx : Z) (x : Q) (vs : list Q) : Q :=
  let n := zlen g in
  let i := if (idx >? n - 3)%Z then (n - 3)%Z else if (idx <? 1)%Z then 1%Z else idx in
  flag3 (gq g (i - 1)) (gq g i) (gq g (i + 1)) (gq g (i + 2))
        (vq vs (i - 1)) (vq vs i) (vq vs (i + 1)) (vq vs (i + 2)) x.

Definition fixed1 (m : method) (g : list Q) (idx : Z) (x : Q) (vs : list Q) : Q :=
  match m with
  | Slinear => fixed_slinear1 g idx x vs
  | Lagrange2 => fixed_lagrange2_1 g idx x vs
  | Lagrange3 => fixed_lagrange3_1 g idx x vs
  | _ => interp1 m g idx x vs
  end.

(* the general method's index for a fixed-class index (-1 below the table becomes cell 0) *)
Definition gen_idx (idx : Z) : Z := if (idx <? 0)%Z then 0%Z else idx.

(* ---- cell search of the fixed classes (InterpAlgorithmFixed.bracket) *)
(* several points at once: np.searchsorted(grid, x, side='left') - 1 *)
Definition ssl (g : list Q) (x : Q) : Z :=
  (Z.of_nat (length (filter (fun gi => Qltb gi x) g)) - 1)%Z.

(* one point: _bracket_dim with the cached index (same three loops as InterpAlgorithm.bracket, but -1 is
   returned below the table and the cache is clamped with max(last_index, 0)) *)
Definition bracket_dim (g : list Q) (last : Z) (x : Q) : Z :=
  let b := bracket g (Z.max last 0) x in
  if (snd b =? -1)%Z then (-1)%Z else fst b.

Fixpoint fixed1_history (m : method) (g vs : list Q) (last : Z) (pts : list Q) : list Q :=
  match pts with
  | [] => []
  | x :: r => let idx := bracket_dim g last x in
              Qred (fixed1 m g idx x vs) :: fixed1_history m g vs idx r
  end.

(* a call on a one-dimensional table: [single] = one point per call on the same object (history);
   otherwise all points in one call (vectorised when there is more than one point) *)
Definition run_fixed1 (m : method) (g : list Q) (T : tensor) (extrapolate single : bool) (pts : list Q) : val :=
  let vs := map leafval (children T) in
  let go := if single || (length pts <=? 1)%nat then vqs (fixed1_history m g vs 0 pts)
            else vqs (map (fun x => Qred (fixed1 m g (ssl g x) x vs)) pts) in
  if extrapolate then go
  else match oob_scan eps_fixed 0 [g] [pts] with
       | Some (i, c) => VL [VE c; VZ i]
       | None => go
       end.

(* a history of calls on one object: one-point calls use _bracket_dim and its cache, calls with several
   points use searchsorted and (repaired code, props/C15/fix_3.diff) leave the cache alone *)
Fixpoint fixed1_calls (m : method) (g vs : list Q) (last : Z) (calls : list (list Q)) : list Q :=
  match calls with
  | [] => []
  | pts :: r =>
      match pts with
      | [x] => let idx := bracket_dim g last x in
               Qred (fixed1 m g idx x vs) :: fixed1_calls m g vs idx r
      | _ => map (fun x => Qred (fixed1 m g (ssl g x) x vs)) pts ++ fixed1_calls m g vs last r
      end
  end.

Definition run_fixed1_calls (m : method) (g : list Q) (T : tensor) (extrapolate : bool)
           (calls : list (list Q)) : val :=
  let vs := map leafval (children T) in
  let go := vqs (fixed1_calls m g vs 0 calls) in
  if extrapolate then go
  else match oob_scan eps_fixed 0 [g] [concat calls] with
       | Some (i, c) => VL [VE c; VZ i]
       | None => go
       end.
