(* C15 -- fixed_eq_general for the one-dimensional classes: as functions over Q (every x, inside or outside
   the table) Interp1DSlinear / Interp1DLagrange2 / Interp1DLagrange3 compute the same value as the general
   InterpLinear / InterpLagrange2 / InterpLagrange3 on the same cell. *)
From Coq Require Import ZArith QArith Qabs List Bool Lia Lqa Field Qfield.
From OMV Require Import Base.Val C15.Model C15.ModelFixed C15.Proofs1D.
Import ListNotations.
Open Scope Z_scope.
Open Scope Q_scope.

Lemma fslin_eq p0 p1 v0 v1 x : ~ p1 - p0 == 0 -> fslin p0 p1 v0 v1 x == slin p0 p1 v0 v1 x.
Proof. intros; unfold fslin, slin; field; auto. Qed.

Lemma flag2_eq p1 p2 p3 v1 v2 v3 x :
  ~ p1 - p2 == 0 -> ~ p1 - p3 == 0 -> ~ p2 - p3 == 0 ->
  flag2 p1 p2 p3 v1 v2 v3 x == lag2 p1 p2 p3 v1 v2 v3 x.
Proof. intros; unfold flag2, lag2; field; auto. Qed.

Lemma flag3_eq p1 p2 p3 p4 v1 v2 v3 v4 x :
  ~ p1 - p2 == 0 -> ~ p1 - p3 == 0 -> ~ p1 - p4 == 0 ->
  ~ p2 - p3 == 0 -> ~ p2 - p4 == 0 -> ~ p3 - p4 == 0 ->
  flag3 p1 p2 p3 p4 v1 v2 v3 v4 x == lag3 p1 p2 p3 p4 v1 v2 v3 v4 x.
Proof. intros; unfold flag3, lag3; field; auto 10. Qed.

Definition fixed_method (m : method) : Prop := m = Slinear \/ m = Lagrange2 \/ m = Lagrange3.

Theorem fixed1_eq_general m g idx x vs :
  fixed_method m -> incr g -> (kmin m <= zlen g)%Z -> (-1 <= idx <= zlen g - 1)%Z ->
  fixed1 m g idx x vs == interp1 m g (gen_idx idx) x vs.
Proof.
  intros Hm Hg Hn Hi. unfold interp1. rewrite Qred_correct.
  destruct Hm as [-> | [-> | ->]]; simpl in Hn; cbn [fixed1].
  - unfold fixed_slinear1, slinear1, gen_idx.
    set (i := if (idx =? zlen g - 1)%Z then (zlen g - 2)%Z else if (idx =? -1)%Z then 0%Z else idx).
    assert (E : (if ((if (idx <? 0)%Z then 0 else idx) =? zlen g - 1)%Z
                 then ((if (idx <? 0)%Z then 0 else idx) - 1)%Z else (if (idx <? 0)%Z then 0%Z else idx)) = i).
    { unfold i. destruct (idx <? 0)%Z eqn:E0, (idx =? zlen g - 1)%Z eqn:E1, (idx =? -1)%Z eqn:E2;
        try destruct (0 =? zlen g - 1)%Z eqn:E3; lia. }
    rewrite E.
    assert (Ri : (0 <= i)%Z /\ (i + 1 < zlen g)%Z).
    { unfold i. destruct (idx =? zlen g - 1)%Z eqn:E1, (idx =? -1)%Z eqn:E2; lia. }
    assert (gq g i < gq g (i + 1)) by (apply Hg; lia).
    apply fslin_eq. lra.
  - unfold fixed_lagrange2_1, lagrange2_1, gen_idx.
    set (i := if (idx >? zlen g - 3)%Z then (zlen g - 3)%Z else if (idx <? 0)%Z then 0%Z else idx).
    assert (E : (if ((if (idx <? 0)%Z then 0 else idx) >? zlen g - 3)%Z
                 then (zlen g - 3)%Z else (if (idx <? 0)%Z then 0%Z else idx)) = i).
    { unfold i. destruct (idx <? 0)%Z eqn:E0, (idx >? zlen g - 3)%Z eqn:E1;
        try destruct (0 >? zlen g - 3)%Z eqn:E3; lia. }
    rewrite E.
    assert (Ri : (0 <= i)%Z /\ (i + 2 < zlen g)%Z).
    { unfold i. destruct (idx >? zlen g - 3)%Z eqn:E1, (idx <? 0)%Z eqn:E2; lia. }
    destruct (l2_sep g i Hg (proj1 Ri) (proj2 Ri)) as (N12 & N13 & N23).
    apply flag2_eq; auto.
  - unfold fixed_lagrange3_1, lagrange3_1, gen_idx.
    set (i := if (idx >? zlen g - 3)%Z then (zlen g - 3)%Z else if (idx <? 1)%Z then 1%Z else idx).
    assert (E : (if ((if (idx <? 0)%Z then 0 else idx) >? zlen g - 3)%Z then (zlen g - 3)%Z
                 else if ((if (idx <? 0)%Z then 0 else idx) =? 0)%Z then 1%Z
                      else (if (idx <? 0)%Z then 0%Z else idx)) = i).
    { unfold i. destruct (idx <? 0)%Z eqn:E0, (idx >? zlen g - 3)%Z eqn:E1, (idx <? 1)%Z eqn:E2;
        try destruct (0 >? zlen g - 3)%Z eqn:E3; try destruct (idx =? 0)%Z eqn:E4; simpl; lia. }
    rewrite E.
    assert (Ri : (1 <= i)%Z /\ (i + 2 < zlen g)%Z).
    { unfold i. destruct (idx >? zlen g - 3)%Z eqn:E1, (idx <? 1)%Z eqn:E2; lia. }
    destruct (l3_sep g i Hg (proj1 Ri) (proj2 Ri)) as (N12 & N13 & N14 & N23 & N24 & N34).
    apply flag3_eq; auto.
Qed.
