(* C15 -- one-dimensional formulas: node exactness and reproduction of the method's degree.
   Pure field identities; the only hypothesis on the grid is "strictly increasing" (no sign assumption). *)
From Coq Require Import ZArith QArith Qabs List Bool Lia Lqa Field Qfield.
From OMV Require Import Base.Val C15.Model.
Import ListNotations.
Open Scope Z_scope.
Open Scope Q_scope.

(* ------------------------------------------------------------------ grids *)

Definition incr (g : list Q) : Prop :=
  forall i j, (0 <= i < j)%Z -> (j < zlen g)%Z -> gq g i < gq g j.

Lemma Qltb_true a b : Qltb a b = true -> a < b.
Proof.
  unfold Qltb. intros H. apply negb_true_iff in H.
  destruct (Qlt_le_dec a b) as [L | L]; [exact L |].
  apply Qle_bool_iff in L. congruence.
Qed.

Lemma Qltb_false a b : Qltb a b = false -> b <= a.
Proof.
  unfold Qltb. intros H. apply negb_false_iff in H. now apply Qle_bool_iff.
Qed.

Lemma Qltb_lt a b : a < b -> Qltb a b = true.
Proof.
  intros H. destruct (Qltb a b) eqn:E; [reflexivity |]. apply Qltb_false in E. lra.
Qed.

Lemma Qltb_ge a b : b <= a -> Qltb a b = false.
Proof.
  intros H. destruct (Qltb a b) eqn:E; [| reflexivity]. apply Qltb_true in E. lra.
Qed.

Lemma incr_le g i j : incr g -> (0 <= i <= j)%Z -> (j < zlen g)%Z -> gq g i <= gq g j.
Proof.
  intros Hg Hij Hj. destruct (Z.eq_dec i j) as [-> | N]; [lra |].
  apply Qlt_le_weak, Hg; lia.
Qed.

Lemma incr_inj_le g i j :
  incr g -> (0 <= i < zlen g)%Z -> (0 <= j < zlen g)%Z -> gq g i <= gq g j -> (i <= j)%Z.
Proof.
  intros Hg Hi Hj H. destruct (Z_le_gt_dec i j) as [L | L]; [exact L |].
  assert (gq g j < gq g i) by (apply Hg; lia). lra.
Qed.

(* executable test is sound *)
Lemma incrb_adj g : incrb g = true ->
  forall m : nat, (S m < length g)%nat -> nth m g 0 < nth (S m) g 0.
Proof.
  induction g as [| a t IH]; intros H m Hm; [simpl in Hm; lia |].
  destruct t as [| b t']; [simpl in Hm; lia |].
  cbn [incrb] in H. apply andb_prop in H. destruct H as [H1 H2].
  destruct m as [| m'].
  - simpl. now apply Qltb_true.
  - change (nth m' (b :: t') 0 < nth (S m') (b :: t') 0). apply IH; auto. simpl in *. lia.
Qed.

Lemma adj_incr g :
  (forall m : nat, (S m < length g)%nat -> nth m g 0 < nth (S m) g 0) ->
  forall d i : nat, (i + S d < length g)%nat -> nth i g 0 < nth (i + S d) g 0.
Proof.
  intros A. induction d as [| d IH]; intros i Hi.
  - replace (i + 1)%nat with (S i) by lia. apply A. lia.
  - assert (nth i g 0 < nth (i + S d) g 0) by (apply IH; lia).
    assert (nth (i + S d) g 0 < nth (S (i + S d)) g 0) by (apply A; lia).
    replace (i + S (S d))%nat with (S (i + S d)) by lia. lra.
Qed.

Lemma incrb_sound g : incrb g = true -> incr g.
Proof.
  intros H i j Hij Hj. unfold gq, zlen in *.
  replace (Z.to_nat j) with (Z.to_nat i + S (Z.to_nat (j - i - 1)))%nat by lia.
  apply adj_incr; [apply incrb_adj; auto | lia].
Qed.

(* ------------------------------------------------------------------ slinear *)

Lemma slin_left p0 p1 v0 v1 : ~ p1 - p0 == 0 -> slin p0 p1 v0 v1 p0 == v0.
Proof. intros; unfold slin; field; auto. Qed.

Lemma slin_right p0 p1 v0 v1 : ~ p1 - p0 == 0 -> slin p0 p1 v0 v1 p1 == v1.
Proof. intros; unfold slin; field; auto. Qed.

Lemma slin_lin p0 p1 v0 v1 c0 c1 x :
  ~ p1 - p0 == 0 -> v0 == c0 + c1 * p0 -> v1 == c0 + c1 * p1 ->
  slin p0 p1 v0 v1 x == c0 + c1 * x.
Proof. intros N H0 H1; unfold slin; rewrite H0, H1; field; auto. Qed.

Lemma slinear1_node g idx k vs :
  incr g -> (2 <= zlen g)%Z -> (0 <= idx <= zlen g - 1)%Z ->
  (k = idx \/ k = idx + 1)%Z -> (0 <= k <= zlen g - 1)%Z ->
  slinear1 g idx (gq g k) vs == vq vs k.
Proof.
  intros Hg Hn Hi Hk Hk2. unfold slinear1.
  destruct (idx =? zlen g - 1)%Z eqn:E.
  - apply Z.eqb_eq in E.
    assert (k = idx - 1 + 1)%Z by lia. subst k.
    apply slin_right. assert (gq g (idx - 1) < gq g (idx - 1 + 1)) by (apply Hg; lia). lra.
  - apply Z.eqb_neq in E.
    assert (gq g idx < gq g (idx + 1)) by (apply Hg; lia).
    destruct Hk; subst k; [apply slin_left | apply slin_right]; lra.
Qed.

Lemma slinear1_lin g idx x vs c0 c1 :
  incr g -> (2 <= zlen g)%Z -> (0 <= idx <= zlen g - 1)%Z ->
  (forall k, (0 <= k < zlen g)%Z -> vq vs k == c0 + c1 * gq g k) ->
  slinear1 g idx x vs == c0 + c1 * x.
Proof.
  intros Hg Hn Hi Hv. unfold slinear1.
  destruct (idx =? zlen g - 1)%Z eqn:E.
  - apply Z.eqb_eq in E.
    assert (gq g (idx - 1) < gq g (idx - 1 + 1)) by (apply Hg; lia).
    apply slin_lin; [lra | apply Hv; lia | apply Hv; lia].
  - apply Z.eqb_neq in E.
    assert (gq g idx < gq g (idx + 1)) by (apply Hg; lia).
    apply slin_lin; [lra | apply Hv; lia | apply Hv; lia].
Qed.

(* ------------------------------------------------------------------ lagrange2 *)

Section Lag2.
  Variables p1 p2 p3 v1 v2 v3 : Q.
  Hypothesis N12 : ~ p1 - p2 == 0.
  Hypothesis N13 : ~ p1 - p3 == 0.
  Hypothesis N23 : ~ p2 - p3 == 0.

  Lemma lag2_at1 : lag2 p1 p2 p3 v1 v2 v3 p1 == v1.
  Proof. unfold lag2; field; auto. Qed.
  Lemma lag2_at2 : lag2 p1 p2 p3 v1 v2 v3 p2 == v2.
  Proof. unfold lag2; field; auto. Qed.
  Lemma lag2_at3 : lag2 p1 p2 p3 v1 v2 v3 p3 == v3.
  Proof. unfold lag2; field; auto. Qed.

  Lemma lag2_quad c0 c1 c2 x :
    v1 == c0 + c1 * p1 + c2 * (p1 * p1) ->
    v2 == c0 + c1 * p2 + c2 * (p2 * p2) ->
    v3 == c0 + c1 * p3 + c2 * (p3 * p3) ->
    lag2 p1 p2 p3 v1 v2 v3 x == c0 + c1 * x + c2 * (x * x).
  Proof. intros H1 H2 H3; unfold lag2; rewrite H1, H2, H3; field; auto. Qed.
End Lag2.

Definition l2idx (g : list Q) (idx : Z) : Z := if (idx >? zlen g - 3)%Z then (zlen g - 3)%Z else idx.

Lemma l2_sep g i : incr g -> (0 <= i)%Z -> (i + 2 < zlen g)%Z ->
  ~ gq g i - gq g (i + 1) == 0 /\ ~ gq g i - gq g (i + 2) == 0 /\ ~ gq g (i + 1) - gq g (i + 2) == 0.
Proof.
  intros Hg H0 H2.
  assert (gq g i < gq g (i + 1)) by (apply Hg; lia).
  assert (gq g (i + 1) < gq g (i + 2)) by (apply Hg; lia).
  repeat split; lra.
Qed.

Lemma lagrange2_1_node g idx k vs :
  incr g -> (3 <= zlen g)%Z -> (0 <= idx <= zlen g - 1)%Z ->
  (k = idx \/ k = idx + 1)%Z -> (0 <= k <= zlen g - 1)%Z ->
  lagrange2_1 g idx (gq g k) vs == vq vs k.
Proof.
  intros Hg Hn Hi Hk Hk2. unfold lagrange2_1. fold (l2idx g idx).
  assert (Hr : (0 <= l2idx g idx)%Z /\ (l2idx g idx + 2 < zlen g)%Z /\
               (k = l2idx g idx \/ k = l2idx g idx + 1 \/ k = l2idx g idx + 2)%Z).
  { unfold l2idx. destruct (idx >? zlen g - 3)%Z eqn:E; lia. }
  destruct Hr as (R0 & R2 & Rk).
  destruct (l2_sep g (l2idx g idx) Hg R0 R2) as (N12 & N13 & N23).
  destruct Rk as [-> | [-> | ->]].
  - apply lag2_at1; auto.
  - apply lag2_at2; auto.
  - apply lag2_at3; auto.
Qed.

Lemma lagrange2_1_quad g idx x vs c0 c1 c2 :
  incr g -> (3 <= zlen g)%Z -> (0 <= idx <= zlen g - 1)%Z ->
  (forall k, (0 <= k < zlen g)%Z -> vq vs k == c0 + c1 * gq g k + c2 * (gq g k * gq g k)) ->
  lagrange2_1 g idx x vs == c0 + c1 * x + c2 * (x * x).
Proof.
  intros Hg Hn Hi Hv. unfold lagrange2_1. fold (l2idx g idx).
  assert (Hr : (0 <= l2idx g idx)%Z /\ (l2idx g idx + 2 < zlen g)%Z).
  { unfold l2idx. destruct (idx >? zlen g - 3)%Z eqn:E; lia. }
  destruct Hr as (R0 & R2).
  destruct (l2_sep g (l2idx g idx) Hg R0 R2) as (N12 & N13 & N23).
  apply lag2_quad; auto; apply Hv; lia.
Qed.

(* ------------------------------------------------------------------ lagrange3 *)

Section Lag3.
  Variables p1 p2 p3 p4 v1 v2 v3 v4 : Q.
  Hypothesis N12 : ~ p1 - p2 == 0.
  Hypothesis N13 : ~ p1 - p3 == 0.
  Hypothesis N14 : ~ p1 - p4 == 0.
  Hypothesis N23 : ~ p2 - p3 == 0.
  Hypothesis N24 : ~ p2 - p4 == 0.
  Hypothesis N34 : ~ p3 - p4 == 0.

  Lemma lag3_at1 : lag3 p1 p2 p3 p4 v1 v2 v3 v4 p1 == v1.
  Proof. unfold lag3; field; auto 10. Qed.
  Lemma lag3_at2 : lag3 p1 p2 p3 p4 v1 v2 v3 v4 p2 == v2.
  Proof. unfold lag3; field; auto 10. Qed.
  Lemma lag3_at3 : lag3 p1 p2 p3 p4 v1 v2 v3 v4 p3 == v3.
  Proof. unfold lag3; field; auto 10. Qed.
  Lemma lag3_at4 : lag3 p1 p2 p3 p4 v1 v2 v3 v4 p4 == v4.
  Proof. unfold lag3; field; auto 10. Qed.

  Lemma lag3_cubic c0 c1 c2 c3 x :
    v1 == c0 + c1 * p1 + c2 * (p1 * p1) + c3 * (p1 * p1 * p1) ->
    v2 == c0 + c1 * p2 + c2 * (p2 * p2) + c3 * (p2 * p2 * p2) ->
    v3 == c0 + c1 * p3 + c2 * (p3 * p3) + c3 * (p3 * p3 * p3) ->
    v4 == c0 + c1 * p4 + c2 * (p4 * p4) + c3 * (p4 * p4 * p4) ->
    lag3 p1 p2 p3 p4 v1 v2 v3 v4 x == c0 + c1 * x + c2 * (x * x) + c3 * (x * x * x).
  Proof. intros H1 H2 H3 H4; unfold lag3; rewrite H1, H2, H3, H4; field; auto 10. Qed.
End Lag3.

Definition l3idx (g : list Q) (idx : Z) : Z :=
  if (idx >? zlen g - 3)%Z then (zlen g - 3)%Z else if (idx =? 0)%Z then 1%Z else idx.

Lemma l3_sep g i : incr g -> (1 <= i)%Z -> (i + 2 < zlen g)%Z ->
  ~ gq g (i - 1) - gq g i == 0 /\ ~ gq g (i - 1) - gq g (i + 1) == 0 /\ ~ gq g (i - 1) - gq g (i + 2) == 0 /\
  ~ gq g i - gq g (i + 1) == 0 /\ ~ gq g i - gq g (i + 2) == 0 /\ ~ gq g (i + 1) - gq g (i + 2) == 0.
Proof.
  intros Hg H0 H2.
  assert (gq g (i - 1) < gq g i) by (apply Hg; lia).
  assert (gq g i < gq g (i + 1)) by (apply Hg; lia).
  assert (gq g (i + 1) < gq g (i + 2)) by (apply Hg; lia).
  repeat split; lra.
Qed.

Lemma lagrange3_1_node g idx k vs :
  incr g -> (4 <= zlen g)%Z -> (0 <= idx <= zlen g - 1)%Z ->
  (k = idx \/ k = idx + 1)%Z -> (0 <= k <= zlen g - 1)%Z ->
  lagrange3_1 g idx (gq g k) vs == vq vs k.
Proof.
  intros Hg Hn Hi Hk Hk2. unfold lagrange3_1. fold (l3idx g idx).
  assert (Hr : (1 <= l3idx g idx)%Z /\ (l3idx g idx + 2 < zlen g)%Z /\
               (k = l3idx g idx - 1 \/ k = l3idx g idx \/ k = l3idx g idx + 1 \/ k = l3idx g idx + 2)%Z).
  { unfold l3idx. destruct (idx >? zlen g - 3)%Z eqn:E; [lia |].
    destruct (idx =? 0)%Z eqn:E0; lia. }
  destruct Hr as (R0 & R2 & Rk).
  destruct (l3_sep g (l3idx g idx) Hg R0 R2) as (N12 & N13 & N14 & N23 & N24 & N34).
  destruct Rk as [-> | [-> | [-> | ->]]].
  - apply lag3_at1; auto.
  - apply lag3_at2; auto.
  - apply lag3_at3; auto.
  - apply lag3_at4; auto.
Qed.

Lemma lagrange3_1_cubic g idx x vs c0 c1 c2 c3 :
  incr g -> (4 <= zlen g)%Z -> (0 <= idx <= zlen g - 1)%Z ->
  (forall k, (0 <= k < zlen g)%Z ->
             vq vs k == c0 + c1 * gq g k + c2 * (gq g k * gq g k) + c3 * (gq g k * gq g k * gq g k)) ->
  lagrange3_1 g idx x vs == c0 + c1 * x + c2 * (x * x) + c3 * (x * x * x).
Proof.
  intros Hg Hn Hi Hv. unfold lagrange3_1. fold (l3idx g idx).
  assert (Hr : (1 <= l3idx g idx)%Z /\ (l3idx g idx + 2 < zlen g)%Z).
  { unfold l3idx. destruct (idx >? zlen g - 3)%Z eqn:E; [lia |].
    destruct (idx =? 0)%Z eqn:E0; lia. }
  destruct Hr as (R0 & R2).
  destruct (l3_sep g (l3idx g idx) Hg R0 R2) as (N12 & N13 & N14 & N23 & N24 & N34).
  apply lag3_cubic; auto; apply Hv; lia.
Qed.

(* ------------------------------------------------------------------ akima *)

Lemma akima_poly_left p0 p1 pf v3 v4 m3 b bp1 :
  ~ p1 - p0 == 0 -> akima_poly 0 p0 p1 pf v3 v4 m3 b bp1 p0 == v3.
Proof. intros; unfold akima_poly; simpl; field; auto. Qed.

Lemma akima_poly_right p0 p1 pf v3 v4 m3 b bp1 :
  ~ p1 - p0 == 0 -> m3 == (v4 - v3) / (p1 - p0) ->
  akima_poly 0 p0 p1 pf v3 v4 m3 b bp1 p1 == v4.
Proof. intros N H; unfold akima_poly; simpl; rewrite H; field; auto. Qed.

Lemma akima_poly_hi p0 p1 pf v3 v4 m3 b bp1 :
  akima_poly 1 p0 p1 pf v3 v4 m3 b bp1 p1 == v4.
Proof. unfold akima_poly; simpl; ring. Qed.

Lemma akima_poly_lin extrap p0 p1 pf v3 v4 m3 b bp1 c0 c1 x :
  ~ p1 - p0 == 0 -> m3 == c1 -> b == c1 -> bp1 == c1 ->
  v3 == c0 + c1 * p0 -> v4 == c0 + c1 * p1 ->
  (extrap <> 0%Z -> extrap <> 1%Z -> pf == p0) ->
  akima_poly extrap p0 p1 pf v3 v4 m3 b bp1 x == c0 + c1 * x.
Proof.
  intros N Hm Hb Hbp H3 H4 Hpf. unfold akima_poly.
  destruct (extrap =? 0)%Z eqn:E0.
  - rewrite Hm, Hb, Hbp, H3. field; auto.
  - destruct (extrap =? 1)%Z eqn:E1.
    + rewrite Hbp, H4. ring.
    + apply Z.eqb_neq in E0. apply Z.eqb_neq in E1.
      rewrite Hb, H3, (Hpf E0 E1). ring.
Qed.

Lemma akima_w_same ma mb wa wb c : ma == c -> mb == c -> akima_w ma mb wa wb == c.
Proof.
  intros Ha Hb. unfold akima_w.
  destruct (Qltb akima_eps (wa + wb)) eqn:E.
  - apply Qltb_true in E.
    assert (0 < akima_eps) by reflexivity.
    rewrite Ha, Hb. field. lra.
  - rewrite Ha, Hb. field.
Qed.

Lemma akima1_node g idx k vs :
  incr g -> (4 <= zlen g)%Z -> (0 <= idx <= zlen g - 1)%Z ->
  (k = idx \/ k = idx + 1)%Z -> (0 <= k <= zlen g - 1)%Z ->
  akima1 g idx (gq g k) vs == vq vs k.
Proof.
  intros Hg Hn Hi Hk Hk2. unfold akima1.
  destruct (idx =? zlen g - 1)%Z eqn:E.
  - apply Z.eqb_eq in E. assert (k = zlen g - 2 + 1)%Z by lia. subst k.
    apply akima_poly_hi.
  - apply Z.eqb_neq in E.
    assert (L : gq g idx < gq g (idx + 1)) by (apply Hg; lia).
    assert (F : ((idx =? 0)%Z && Qltb (gq g k) (gq g 0)) = false).
    { apply andb_false_iff. right. apply Qltb_ge. apply incr_le; auto; lia. }
    rewrite F.
    destruct Hk; subst k.
    + apply akima_poly_left. lra.
    + apply akima_poly_right; [lra |]. unfold akima_m3, akima_slope. reflexivity.
Qed.

Section AkimaLin.
  Variables (g vs : list Q) (c0 c1 : Q).
  Hypothesis Hg : incr g.
  Hypothesis Hn : (4 <= zlen g)%Z.
  Hypothesis Hv : forall k, (0 <= k < zlen g)%Z -> vq vs k == c0 + c1 * gq g k.

  Lemma akima_slope_lin i : (0 <= i)%Z -> (i + 1 < zlen g)%Z -> akima_slope g vs i == c1.
  Proof.
    intros H0 H1. unfold akima_slope.
    assert (gq g i < gq g (i + 1)) by (apply Hg; lia).
    rewrite (Hv (i + 1)%Z), (Hv i) by lia. field. lra.
  Qed.

  Variable idx : Z.
  Hypothesis Hi : (0 <= idx <= zlen g - 2)%Z.

  Lemma akima_m3_lin : akima_m3 g vs idx == c1.
  Proof. unfold akima_m3. apply akima_slope_lin; lia. Qed.

  Lemma akima_m2_lin : akima_m2 g vs idx == c1.
  Proof.
    unfold akima_m2. destruct (idx =? 0)%Z eqn:E.
    - apply Z.eqb_eq in E. rewrite akima_m3_lin. unfold akima_m4a.
      destruct (idx <? zlen g - 2)%Z eqn:E2; [| lia].
      rewrite akima_slope_lin by lia. ring.
    - apply Z.eqb_neq in E. unfold akima_m2a.
      destruct (idx >=? 1)%Z eqn:E2; [| lia]. apply akima_slope_lin; lia.
  Qed.

  Lemma akima_m4_lin : akima_m4 g vs idx == c1.
  Proof.
    unfold akima_m4, akima_m4a.
    destruct (idx =? zlen g - 3)%Z eqn:E3.
    - destruct (idx <? zlen g - 2)%Z eqn:E2; [| lia]. apply akima_slope_lin; lia.
    - destruct (idx =? zlen g - 2)%Z eqn:E4.
      + rewrite akima_m3_lin, akima_m2_lin. ring.
      + destruct (idx <? zlen g - 2)%Z eqn:E2; [| lia]. apply akima_slope_lin; lia.
  Qed.

  Lemma akima_b_lin : akima_b g vs idx == c1.
  Proof. unfold akima_b. apply akima_w_same; [apply akima_m2_lin | apply akima_m3_lin]. Qed.

  Lemma akima_bp1_lin : akima_bp1 g vs idx == c1.
  Proof. unfold akima_bp1. apply akima_w_same; [apply akima_m3_lin | apply akima_m4_lin]. Qed.
End AkimaLin.

Lemma akima1_lin g idx x vs c0 c1 :
  incr g -> (4 <= zlen g)%Z -> (0 <= idx <= zlen g - 1)%Z ->
  (forall k, (0 <= k < zlen g)%Z -> vq vs k == c0 + c1 * gq g k) ->
  akima1 g idx x vs == c0 + c1 * x.
Proof.
  intros Hg Hn Hi Hv. unfold akima1.
  set (i := if (idx =? zlen g - 1)%Z then (zlen g - 2)%Z else idx).
  assert (Ri : (0 <= i <= zlen g - 2)%Z).
  { unfold i. destruct (idx =? zlen g - 1)%Z eqn:E; lia. }
  assert (L : gq g i < gq g (i + 1)) by (apply Hg; lia).
  apply akima_poly_lin.
  - lra.
  - apply (akima_m3_lin g vs c0 c1); auto.
  - apply (akima_b_lin g vs c0 c1); auto.
  - apply (akima_bp1_lin g vs c0 c1); auto.
  - apply Hv; lia.
  - apply Hv; lia.
  - intros N0 N1. unfold i.
    destruct (idx =? zlen g - 1)%Z eqn:E; [congruence |].
    destruct ((idx =? 0)%Z && Qltb x (gq g 0)) eqn:E2; [| congruence].
    apply andb_prop in E2. destruct E2 as [E2 _]. apply Z.eqb_eq in E2. subst idx. reflexivity.
Qed.

(* ------------------------------------------------------------------ natural cubic spline *)

Lemma cub_left p0 p1 v0 v1 s0 s1 : ~ p1 - p0 == 0 -> cub p0 p1 v0 v1 s0 s1 p0 == v0.
Proof. intros; unfold cub; field; auto. Qed.

Lemma cub_right p0 p1 v0 v1 s0 s1 : ~ p1 - p0 == 0 -> cub p0 p1 v0 v1 s0 s1 p1 == v1.
Proof. intros; unfold cub; field; auto. Qed.

Lemma cub_lin p0 p1 v0 v1 s0 s1 c0 c1 x :
  ~ p1 - p0 == 0 -> s0 == 0 -> s1 == 0 -> v0 == c0 + c1 * p0 -> v1 == c0 + c1 * p1 ->
  cub p0 p1 v0 v1 s0 s1 x == c0 + c1 * x.
Proof. intros N S0 S1 H0 H1; unfold cub; rewrite S0, S1, H0, H1; field; auto. Qed.

Lemma cubic1_node g idx k vs :
  incr g -> (2 <= zlen g)%Z -> (0 <= idx <= zlen g - 1)%Z ->
  (k = idx \/ k = idx + 1)%Z -> (0 <= k <= zlen g - 1)%Z ->
  cubic1 g idx (gq g k) vs == vq vs k.
Proof.
  intros Hg Hn Hi Hk Hk2. unfold cubic1.
  destruct (idx =? zlen g - 1)%Z eqn:E.
  - apply Z.eqb_eq in E.
    assert (k = idx - 1 + 1)%Z by lia. subst k.
    apply cub_right. assert (gq g (idx - 1) < gq g (idx - 1 + 1)) by (apply Hg; lia). lra.
  - apply Z.eqb_neq in E.
    assert (gq g idx < gq g (idx + 1)) by (apply Hg; lia).
    destruct Hk; subst k; [apply cub_left | apply cub_right]; lra.
Qed.

Definition allz (l : list Q) : Prop := Forall (fun q => q == 0) l.

Lemma cubic_fwd_zero mus tmps sdp tp :
  allz tmps -> tp == 0 -> Forall (fun st => snd st == 0) (cubic_fwd mus tmps sdp tp).
Proof.
  revert tmps sdp tp. induction mus as [| mu mus IH]; intros tmps sdp tp Ht Htp; [constructor |].
  destruct tmps as [| t tmps]; [constructor |].
  inversion Ht; subst. cbn [cubic_fwd].
  assert (E : Qred ((t - mu * tp) * (1 / (mu * sdp + 2))) == 0).
  { rewrite Qred_correct. rewrite H1, Htp. unfold Qdiv. ring. }
  constructor; [exact E |]. apply IH; auto.
Qed.

Lemma cubic_back_zero l : Forall (fun st => snd st == 0) l -> allz (cubic_back l).
Proof.
  induction l as [| st l IH]; intros H.
  - unfold cubic_back; simpl. constructor; [reflexivity | constructor].
  - inversion H; subst. specialize (IH H3). unfold cubic_back in *. cbn [fold_right].
    constructor; [| exact IH].
    rewrite Qred_correct, H2.
    assert (Hh : hd 0 (fold_right (fun st acc => Qred (fst st * hd 0 acc + snd st) :: acc) [0] l) == 0).
    { destruct IH; [reflexivity | assumption]. }
    rewrite Hh. ring.
Qed.

Lemma allz_nth l i : allz l -> nth i l 0 == 0.
Proof.
  intros H. revert i. induction H; intros [| i]; simpl; try reflexivity; auto.
Qed.

Lemma qn_vq l (i : nat) : qn l i = vq l (Z.of_nat i).
Proof. unfold qn, vq. now rewrite Nat2Z.id. Qed.

Lemma qn_gq l (i : nat) : qn l i = gq l (Z.of_nat i).
Proof. unfold qn, gq. now rewrite Nat2Z.id. Qed.

Lemma cubic_sd_lin g vs c0 c1 :
  incr g -> (forall k, (0 <= k < zlen g)%Z -> vq vs k == c0 + c1 * gq g k) ->
  allz (cubic_sd g vs).
Proof.
  intros Hg Hv. unfold cubic_sd. constructor; [reflexivity |].
  apply cubic_back_zero, cubic_fwd_zero; [| reflexivity].
  unfold allz. apply Forall_forall. intros q Hq. apply in_map_iff in Hq.
  destruct Hq as (i & <- & Hi). apply in_seq in Hi.
  assert (Hlen : (Z.of_nat i + 2 < zlen g)%Z) by (unfold zlen; lia).
  unfold cubic_tmp, cubic_vdiff. rewrite !qn_gq. change (gq vs) with (vq vs).
  replace (Z.of_nat (i + 1 + 1)) with (Z.of_nat i + 2)%Z by lia.
  replace (Z.of_nat (i + 2)) with (Z.of_nat i + 2)%Z by lia.
  replace (Z.of_nat (i + 1)) with (Z.of_nat i + 1)%Z by lia.
  set (z := Z.of_nat i) in *.
  assert (gq g z < gq g (z + 1)) by (apply Hg; lia).
  assert (gq g (z + 1) < gq g (z + 2)) by (apply Hg; lia).
  rewrite (Hv z), (Hv (z + 1)%Z), (Hv (z + 2)%Z) by lia.
  field. repeat split; lra.
Qed.

Lemma cubic1_lin g idx x vs c0 c1 :
  incr g -> (2 <= zlen g)%Z -> (0 <= idx <= zlen g - 1)%Z ->
  (forall k, (0 <= k < zlen g)%Z -> vq vs k == c0 + c1 * gq g k) ->
  cubic1 g idx x vs == c0 + c1 * x.
Proof.
  intros Hg Hn Hi Hv. unfold cubic1.
  pose proof (cubic_sd_lin g vs c0 c1 Hg Hv) as Hz.
  set (i := if (idx =? zlen g - 1)%Z then (idx - 1)%Z else idx).
  assert (Ri : (0 <= i <= zlen g - 2)%Z).
  { unfold i. destruct (idx =? zlen g - 1)%Z eqn:E; lia. }
  assert (L : gq g i < gq g (i + 1)) by (apply Hg; lia).
  apply cub_lin; [lra | apply allz_nth; auto | apply allz_nth; auto | apply Hv; lia | apply Hv; lia].
Qed.
