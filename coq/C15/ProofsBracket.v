(* C15 -- the bracket search (InterpAlgorithm.bracket) returns a cell that contains x, for every strictly
   increasing grid, every cached last_index and every x; the flag tells on which side x left the grid. *)
From Coq Require Import ZArith QArith Qabs List Bool Lia Lqa.
From OMV Require Import Base.Val Base.Tactics C15.Model C15.Proofs1D.
Import ListNotations.
Open Scope Z_scope.
Open Scope Q_scope.

Lemma Qle_bool_false a b : Qle_bool a b = false -> b < a.
Proof.
  intros H. destruct (Qlt_le_dec b a) as [L | L]; [exact L |].
  apply Qle_bool_iff in L. congruence.
Qed.

Lemma loop_down_spec fuel g x : forall last high inc r,
  (0 <= last <= zlen g - 1)%Z -> (1 <= inc)%Z -> (last < Z.of_nat fuel)%Z ->
  loop_down fuel g x last high inc = r ->
  match r with
  | Ret i f => i = 0%Z /\ f = (-1)%Z /\ x < gq g 0
  | Cont l h inc' =>
      (0 <= l <= zlen g - 1)%Z /\ (1 <= inc')%Z /\ gq g l <= x /\
      ((h = high /\ l = last /\ gq g l < x) \/ ((l <= h <= zlen g - 1)%Z /\ x <= gq g h))
  end.
Proof.
  induction fuel as [| f IH]; intros last high inc r Hl Hinc Hf; [lia |].
  cbn [loop_down].
  destruct (Qle_bool x (gq g last)) eqn:E1.
  - apply Qle_bool_iff in E1.
    destruct (last - inc <? 0)%Z eqn:E2.
    + destruct (Qltb x (gq g 0)) eqn:E3; intros <-.
      * apply Qltb_true in E3. auto.
      * apply Qltb_false in E3.
        split; [lia | split; [lia | split; [exact E3 | right; split; [lia | exact E1]]]].
    + intros Hr. apply IH in Hr; try lia.
      destruct r as [i fl | l h inc']; [exact Hr |].
      destruct Hr as (A & A' & B & [(C1 & C2 & C3) | (C1 & C2)]).
      * subst. split; [lia | split; [lia | split; [exact B | right; split; [lia | exact E1]]]].
      * split; [lia | split; [lia | split; [exact B | right; split; [lia | exact C2]]]].
  - apply Qle_bool_false in E1. intros <-.
    split; [lia | split; [lia | split; [lra | left; auto]]].
Qed.

Lemma loop_up_spec fuel g x hb : forall l h inc r,
  hb = (zlen g - 1)%Z -> (0 <= l <= h)%Z -> (h <= hb)%Z -> gq g l <= x -> (1 <= inc)%Z ->
  (hb - h < Z.of_nat fuel)%Z ->
  loop_up fuel g x hb l h inc = r ->
  match r with
  | Ret i f => i = hb /\ f = 1%Z /\ gq g hb < x
  | Cont l' h' _ => (0 <= l' <= h')%Z /\ (h' <= hb)%Z /\ gq g l' <= x /\ x <= gq g h'
  end.
Proof.
  induction fuel as [| f IH]; intros l h inc r Hhb Hl Hh Hx Hinc Hf; [lia |].
  cbn [loop_up].
  destruct (Qltb (gq g h) x) eqn:E1.
  - apply Qltb_true in E1.
    destruct (h + inc >=? hb)%Z eqn:E2.
    + destruct (Qltb (gq g hb) x) eqn:E3; intros <-.
      * apply Qltb_true in E3. auto.
      * apply Qltb_false in E3. repeat split; try lia; auto. lra.
    + intros Hr. apply IH in Hr; try lia; auto. lra.
  - apply Qltb_false in E1. intros <-. repeat split; try lia; auto.
Qed.

Lemma bisect_spec fuel g x : forall l h,
  (0 <= l <= h)%Z -> gq g l <= x -> x <= gq g h -> (h - l <= Z.of_nat fuel)%Z ->
  (l <= bisect fuel g x l h <= h)%Z /\ gq g (bisect fuel g x l h) <= x /\
  exists h', (bisect fuel g x l h <= h' <= bisect fuel g x l h + 1)%Z /\ (h' <= h)%Z /\ x <= gq g h'.
Proof.
  induction fuel as [| f IH]; intros l h Hl Hlo Hhi Hf.
  - cbn [bisect]. repeat split; try lia; auto. exists h. repeat split; try lia; auto.
  - cbn [bisect].
    destruct (h - l >? 1)%Z eqn:E1.
    + cbv zeta.
      assert (Hm : (l < (h + l) / 2 < h)%Z) by lia.
      destruct (Qltb x (gq g ((h + l) / 2))) eqn:E2.
      * apply Qltb_true in E2.
        destruct (IH l ((h + l) / 2)%Z) as (A & B & h' & C1 & C2 & C3); try lia; auto; [lra |].
        repeat split; try lia; auto. exists h'. repeat split; try lia; auto.
      * apply Qltb_false in E2.
        destruct (IH ((h + l) / 2)%Z h) as (A & B & h' & C1 & C2 & C3); try lia; auto.
        repeat split; try lia; auto. exists h'. repeat split; try lia; auto.
    + repeat split; try lia; auto. exists h. repeat split; try lia; auto.
Qed.

Theorem bracket_spec g last0 x :
  incr g -> (2 <= zlen g)%Z -> (0 <= last0 <= zlen g - 1)%Z ->
  let idx := fst (bracket g last0 x) in
  let flag := snd (bracket g last0 x) in
  (flag = (-1)%Z /\ idx = 0%Z /\ x < gq g 0) \/
  (flag = 1%Z /\ idx = (zlen g - 1)%Z /\ gq g (zlen g - 1) < x) \/
  (flag = 0%Z /\ (0 <= idx <= zlen g - 1)%Z /\ gq g idx <= x /\ x <= gq g (Z.min (idx + 1) (zlen g - 1))).
Proof.
  intros Hg Hn Hl. cbv zeta. unfold bracket.
  assert (Hlen : zlen g = Z.of_nat (length g)) by reflexivity.
  destruct (loop_down (S (length g)) g x last0 (last0 + 1) 1) as [i fl | l h inc] eqn:E1;
    apply loop_down_spec in E1; try lia.
  - cbn [fst snd]. left. tauto.
  - destruct E1 as (A & A' & B & C).
    set (h1 := if (h >? zlen g - 1)%Z then (zlen g - 1)%Z else h).
    assert (Hh1 : (l <= h1 <= zlen g - 1)%Z).
    { unfold h1. destruct C as [(C1 & C2 & C3) | (C1 & C2)]; destruct (h >? zlen g - 1)%Z eqn:E; lia. }
    destruct (loop_up (S (length g)) g x (zlen g - 1) l h1 inc) as [i fl | l2 h2 inc2] eqn:E2;
      apply loop_up_spec in E2; try lia; auto.
    + cbn [fst snd]. right. left. tauto.
    + cbn [fst snd]. destruct E2 as (D1 & D2 & D3 & D4).
      destruct (bisect_spec (S (length g)) g x l2 h2) as (F1 & F2 & h' & F3 & F4 & F5); try lia; auto.
      right. right. repeat split; try lia; auto.
      eapply Qle_trans; [exact F5 |]. apply incr_le; auto; lia.
Qed.

(* the flag is 0 exactly for in-bounds points *)
Corollary bracket_flag_inbounds g last0 x :
  incr g -> (2 <= zlen g)%Z -> (0 <= last0 <= zlen g - 1)%Z ->
  (snd (bracket g last0 x) = 0%Z <-> gq g 0 <= x /\ x <= gq g (zlen g - 1)).
Proof.
  intros Hg Hn Hl.
  destruct (bracket_spec g last0 x Hg Hn Hl) as [(F & I & X) | [(F & I & X) | (F & I & X1 & X2)]].
  - split; [intros H; rewrite H in F; discriminate | intros [H _]; lra].
  - split; [intros H; rewrite H in F; discriminate | intros [_ H]; lra].
  - split; [| auto]. intros _. split.
    + eapply Qle_trans; [| exact X1]. apply incr_le; auto; lia.
    + eapply Qle_trans; [exact X2 |]. apply incr_le; auto; lia.
Qed.

(* a grid node is bracketed by a cell it belongs to *)
Corollary bracket_node g last0 k :
  incr g -> (2 <= zlen g)%Z -> (0 <= last0 <= zlen g - 1)%Z -> (0 <= k <= zlen g - 1)%Z ->
  let idx := fst (bracket g last0 (gq g k)) in
  (0 <= idx <= zlen g - 1)%Z /\ (k = idx \/ k = idx + 1)%Z.
Proof.
  intros Hg Hn Hl Hk. cbv zeta.
  destruct (bracket_spec g last0 (gq g k) Hg Hn Hl) as [(F & I & X) | [(F & I & X) | (F & I & X1 & X2)]].
  - assert (gq g 0 <= gq g k) by (apply incr_le; auto; lia). lra.
  - assert (gq g k <= gq g (zlen g - 1)) by (apply incr_le; auto; lia). lra.
  - split; [exact I |].
    apply incr_inj_le in X1; auto; try lia.
    apply incr_inj_le in X2; auto; lia.
Qed.
