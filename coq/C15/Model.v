(* C15 -- table interpolation (openmdao/components/interp_util): executable model over Q.

   Definitions only.  The model follows the code that exists:
     InterpAlgorithm.bracket            -> [bracket] (the three loops, with the cached last_index)
     InterpND._interpolate bounds test  -> [oob_scan] ([eps_present] is the code of the pinned commit,
                                           [eps_fixed] the repaired code, see props/C15/FINDINGS.md)
     InterpLinear/InterpLagrange2/InterpLagrange3/InterpAkima/InterpCubic .interpolate (value part)
                                        -> [slinear1] [lagrange2_1] [lagrange3_1] [akima1] [cubic1]
     the recursion over table dimensions (sub-tables evaluated on the slice, then combined)
                                        -> [evalND]
   Floating point rounding is not modelled: all arithmetic is exact rational arithmetic. *)
From Coq Require Import ZArith QArith Qabs List Bool.
From OMV Require Import Base.Val.
Import ListNotations.
Open Scope Z_scope.
Open Scope Q_scope.

(* ------------------------------------------------------------------ basics *)

Definition gq (g : list Q) (i : Z) : Q := nth (Z.to_nat i) g 0.
Definition zlen (g : list Q) : Z := Z.of_nat (length g).
Definition Qltb (a b : Q) : bool := negb (Qle_bool b a).

Inductive method := Slinear | Lagrange2 | Lagrange3 | Akima | Cubic.

(* minimal number of grid points (InterpAlgorithm.check_config, attribute k) *)
Definition kmin (m : method) : Z :=
  match m with Slinear => 2 | Lagrange2 => 3 | _ => 4 end%Z.

(* polynomial degree each method is exact for (per coordinate) *)
Definition deg (m : method) : nat :=
  match m with Slinear => 1 | Lagrange2 => 2 | Lagrange3 => 3 | Akima => 1 | Cubic => 1 end%nat.

(* ------------------------------------------------------------------ bracket search *)

Inductive brk := Ret (idx flag : Z) | Cont (last high inc : Z).

(* while x <= grid[last_index]: ... *)
Fixpoint loop_down (fuel : nat) (g : list Q) (x : Q) (last high inc : Z) : brk :=
  match fuel with
  | O => Cont last high inc
  | S f =>
      if Qle_bool x (gq g last) then
        if (last - inc <? 0)%Z then
          (if Qltb x (gq g 0) then Ret 0 (-1) else Cont 0 last inc)
        else loop_down f g x (last - inc)%Z last (inc + inc)%Z
      else Cont last high inc
  end.

(* while x > grid[high]: ... *)
Fixpoint loop_up (fuel : nat) (g : list Q) (x : Q) (hb last high inc : Z) : brk :=
  match fuel with
  | O => Cont last high inc
  | S f =>
      if Qltb (gq g high) x then
        if (high + inc >=? hb)%Z then
          (if Qltb (gq g hb) x then Ret hb 1 else Cont high hb inc)
        else loop_up f g x hb high (high + inc)%Z (inc + inc)%Z
      else Cont last high inc
  end.

(* while high - last_index > 1: ... *)
Fixpoint bisect (fuel : nat) (g : list Q) (x : Q) (last high : Z) : Z :=
  match fuel with
  | O => last
  | S f =>
      if (high - last >? 1)%Z then
        let low := ((high + last) / 2)%Z in
        if Qltb x (gq g low) then bisect f g x last low else bisect f g x low high
      else last
  end.

Definition bracket (g : list Q) (last0 : Z) (x : Q) : Z * Z :=
  let hb := (zlen g - 1)%Z in
  let fuel := S (length g) in
  match loop_down fuel g x last0 (last0 + 1)%Z 1%Z with
  | Ret i f => (i, f)
  | Cont last high inc =>
      let high1 := if (high >? hb)%Z then hb else high in
      match loop_up fuel g x hb last high1 inc with
      | Ret i f => (i, f)
      | Cont last2 high2 _ => (bisect fuel g x last2 high2, 0%Z)
      end
  end.

(* ------------------------------------------------------------------ out-of-bounds test *)

Definition tiny : Q := 1 # 100000000000000.          (* 1e-14 *)
Definition glast (g : list Q) : Q := gq g (zlen g - 1).
Definition eps_present (g : list Q) : Q := tiny * glast g.          (* eps = 1e-14 * grid[-1]      *)
Definition eps_fixed (g : list Q) : Q := tiny * Qabs (glast g).     (* eps = 1e-14 * abs(grid[-1]) *)

(* np.any(p < grid[0] - eps) or np.any(p > grid[-1] + eps) *)
Definition oob_test (eps : Q) (g : list Q) (p : Q) : bool :=
  Qltb p (gq g 0 - eps) || Qltb (glast g + eps) p.
(* membership in p1 / p2:  grid[0] > p  or  p > grid[-1] *)
Definition truly_out (g : list Q) (p : Q) : bool :=
  Qltb p (gq g 0) || Qltb (glast g) p.

(* result of the loop over dimensions: None = accepted; Some (dim, code) with code 1 = OutOfBoundsError,
   code 2 = the test fired but the set of violating entries is empty (KeyError from set().pop()) *)
Fixpoint oob_scan (epsf : list Q -> Q) (i : Z) (gs : list (list Q)) (cols : list (list Q))
  : option (Z * Z) :=
  match gs, cols with
  | g :: gs', ps :: cols' =>
      if existsb (oob_test (epsf g) g) ps then
        Some (i, if existsb (truly_out g) ps then 1%Z else 2%Z)
      else oob_scan epsf (i + 1)%Z gs' cols'
  | _, _ => None
  end.

(* ------------------------------------------------------------------ one-dimensional formulas *)

Definition vq (vs : list Q) (i : Z) : Q := nth (Z.to_nat i) vs 0.

(* slinear: values[idx] + (x - grid[idx]) * ((values[idx+1] - values[idx]) * (1/(grid[idx+1]-grid[idx]))) *)
Definition slin (p0 p1 v0 v1 x : Q) : Q :=
  let h := 1 / (p1 - p0) in
  let slope := (v1 - v0) * h in
  v0 + (x - p0) * slope.

Definition slinear1 (g : list Q) (idx : Z) (x : Q) (vs : list Q) : Q :=
  let i := if (idx =? zlen g - 1)%Z then (idx - 1)%Z else idx in
  slin (gq g i) (gq g (i + 1)) (vq vs i) (vq vs (i + 1)) x.

Definition lag2 (p1 p2 p3 v1 v2 v3 x : Q) : Q :=
  let xx1 := x - p1 in let xx2 := x - p2 in let xx3 := x - p3 in
  let c12 := p1 - p2 in let c13 := p1 - p3 in let c23 := p2 - p3 in
  let q1 := v1 / (c12 * c13) in
  let q2 := v2 / (c12 * c23) in
  let q3 := v3 / (c13 * c23) in
  xx3 * (q1 * xx2 - q2 * xx1) + q3 * xx1 * xx2.

Definition lagrange2_1 (g : list Q) (idx : Z) (x : Q) (vs : list Q) : Q :=
  let n := zlen g in
  let i := if (idx >? n - 3)%Z then (n - 3)%Z else idx in
  lag2 (gq g i) (gq g (i + 1)) (gq g (i + 2)) (vq vs i) (vq vs (i + 1)) (vq vs (i + 2)) x.

Definition lag3 (p1 p2 p3 p4 v1 v2 v3 v4 x : Q) : Q :=
  let xx1 := x - p1 in let xx2 := x - p2 in let xx3 := x - p3 in let xx4 := x - p4 in
  let c12 := 1 / (p1 - p2) in let c13 := 1 / (p1 - p3) in let c14 := 1 / (p1 - p4) in
  let c23 := 1 / (p2 - p3) in let c24 := 1 / (p2 - p4) in let c34 := 1 / (p3 - p4) in
  let q1 := v1 * (c12 * c13 * c14) in
  let q2 := v2 * (c12 * c23 * c24) in
  let q3 := v3 * (c13 * c23 * c34) in
  let q4 := v4 * (c14 * c24 * c34) in
  xx4 * (xx3 * (q1 * xx2 - q2 * xx1) + q3 * xx1 * xx2) - q4 * xx1 * xx2 * xx3.

Definition lagrange3_1 (g : list Q) (idx : Z) (x : Q) (vs : list Q) : Q :=
  let n := zlen g in
  let i := if (idx >? n - 3)%Z then (n - 3)%Z else if (idx =? 0)%Z then 1%Z else idx in
  lag3 (gq g (i - 1)) (gq g i) (gq g (i + 1)) (gq g (i + 2))
       (vq vs (i - 1)) (vq vs i) (vq vs (i + 1)) (vq vs (i + 2)) x.

(* ---- akima (delta_x = 0, eps = 1e-30) *)
Definition akima_eps : Q := 1 # 1000000000000000000000000000000.

(* slope weighting with the division-by-zero safeguard:
   b = 0.5*(ma+mb);  b[wa+wb > eps] = (ma*wa + mb*wb)/(wa+wb) *)
Definition akima_w (ma mb wa wb : Q) : Q :=
  if Qltb akima_eps (wa + wb) then (ma * wa + mb * wb) / (wa + wb) else (1 # 2) * (ma + mb).

Definition akima_slope (g vs : list Q) (i : Z) : Q :=   (* slope of interval (i, i+1) *)
  (vq vs (i + 1) - vq vs i) / (gq g (i + 1) - gq g i).

(* the slopes m1..m5 after the if/elif chain on idx *)
Definition akima_m3 (g vs : list Q) (idx : Z) : Q := akima_slope g vs idx.
Definition akima_m2a (g vs : list Q) (idx : Z) : Q :=
  if (idx >=? 1)%Z then akima_slope g vs (idx - 1) else 0.
Definition akima_m1a (g vs : list Q) (idx : Z) : Q :=
  if (idx >=? 2)%Z then akima_slope g vs (idx - 2) else 0.
Definition akima_m4a (g vs : list Q) (idx : Z) : Q :=
  if (idx <? zlen g - 2)%Z then akima_slope g vs (idx + 1) else 0.
Definition akima_m5a (g vs : list Q) (idx : Z) : Q :=
  if (idx <? zlen g - 3)%Z then akima_slope g vs (idx + 2) else 0.

Definition akima_m2 (g vs : list Q) (idx : Z) : Q :=
  if (idx =? 0)%Z then 2 * akima_m3 g vs idx - akima_m4a g vs idx else akima_m2a g vs idx.
Definition akima_m1 (g vs : list Q) (idx : Z) : Q :=
  if (idx =? 0)%Z then 2 * akima_m2 g vs idx - akima_m3 g vs idx
  else if (idx =? 1)%Z then 2 * akima_m2a g vs idx - akima_m3 g vs idx
  else akima_m1a g vs idx.
(* second chain of the repaired code (props/C15/fix_2.diff):  if idx == ngrid-3: ... elif idx == ngrid-2: ...
   -- in the pinned commit this was a continuation of the first elif chain, so that on a 4-point grid
   idx = 1 = ngrid-3 left m5 at its initial value (general class) or unbound (Interp1DAkima) *)
Definition akima_m4 (g vs : list Q) (idx : Z) : Q :=
  if (idx =? zlen g - 3)%Z then akima_m4a g vs idx
  else if (idx =? zlen g - 2)%Z then 2 * akima_m3 g vs idx - akima_m2 g vs idx
  else akima_m4a g vs idx.
Definition akima_m5 (g vs : list Q) (idx : Z) : Q :=
  if (idx =? zlen g - 3)%Z then 2 * akima_m4a g vs idx - akima_m3 g vs idx
  else if (idx =? zlen g - 2)%Z then 2 * akima_m4 g vs idx - akima_m3 g vs idx
  else akima_m5a g vs idx.

Definition akima_b (g vs : list Q) (idx : Z) : Q :=
  let m1 := akima_m1 g vs idx in let m2 := akima_m2 g vs idx in
  let m3 := akima_m3 g vs idx in let m4 := akima_m4 g vs idx in
  akima_w m2 m3 (Qabs (m4 - m3)) (Qabs (m2 - m1)).
Definition akima_bp1 (g vs : list Q) (idx : Z) : Q :=
  let m2 := akima_m2 g vs idx in let m3 := akima_m3 g vs idx in
  let m4 := akima_m4 g vs idx in let m5 := akima_m5 g vs idx in
  akima_w m3 m4 (Qabs (m5 - m4)) (Qabs (m3 - m2)).

(* a + dx*(b + dx*(c + dx*d)) for the three extrapolation states *)
Definition akima_poly (extrap : Z) (p0 p1 pfirst v3 v4 m3 b bp1 x : Q) : Q :=
  if (extrap =? 0)%Z then
    let h := 1 / (p1 - p0) in
    let c := (3 * m3 - 2 * b - bp1) * h in
    let d := (b + bp1 - 2 * m3) * h * h in
    let dx := x - p0 in
    v3 + dx * (b + dx * (c + dx * d))
  else if (extrap =? 1)%Z then
    let dx := x - p1 in v4 + dx * (bp1 + dx * (0 + dx * 0))
  else
    let dx := x - pfirst in v3 + dx * (b + dx * (0 + dx * 0)).

Definition akima1 (g : list Q) (idx0 : Z) (x : Q) (vs : list Q) : Q :=
  let n := zlen g in
  let extrap := if (idx0 =? n - 1)%Z then 1%Z
                else if (idx0 =? 0)%Z && Qltb x (gq g 0) then (-1)%Z else 0%Z in
  let idx := if (idx0 =? n - 1)%Z then (n - 2)%Z else idx0 in
  akima_poly extrap (gq g idx) (gq g (idx + 1)) (gq g 0) (vq vs idx) (vq vs (idx + 1))
             (akima_m3 g vs idx) (akima_b g vs idx) (akima_bp1 g vs idx) x.

(* ---- natural cubic spline: InterpCubic.compute_coeffs (tridiagonal forward and reverse pass) *)
Definition qn (l : list Q) (i : nat) : Q := nth i l 0.

Definition cubic_mu (g : list Q) (i : nat) : Q :=          (* mu[i] *)
  (qn g (i + 1) - qn g i) / (qn g (i + 2) - qn g i).
Definition cubic_vdiff (g vs : list Q) (i : nat) : Q :=    (* vdiff[i] *)
  (qn vs (i + 1) - qn vs i) / (qn g (i + 1) - qn g i).
Definition cubic_tmp (g vs : list Q) (i : nat) : Q :=      (* tmp[i] *)
  6 * (cubic_vdiff g vs (i + 1) - cubic_vdiff g vs i) / (qn g (i + 2) - qn g i).

(* forward pass, i = 1 .. n-2 : list of (sec_deriv[i], temp[i]) *)
Fixpoint cubic_fwd (mus tmps : list Q) (sdp tp : Q) : list (Q * Q) :=
  match mus, tmps with
  | mu :: mus', t :: tmps' =>
      let prtl := 1 / (mu * sdp + 2) in
      let sd := Qred ((mu - 1) * prtl) in
      let te := Qred ((t - mu * tp) * prtl) in
      (sd, te) :: cubic_fwd mus' tmps' sd te
  | _, _ => []
  end.

(* reverse pass, i = n-2 .. 1 : sec_deriv[i] = sec_deriv[i]*sec_deriv[i+1] + temp[i]; result is
   sec_deriv[1 .. n-1] with sec_deriv[n-1] = 0 *)
Definition cubic_back (l : list (Q * Q)) : list Q :=
  fold_right (fun st acc => Qred (fst st * hd 0 acc + snd st) :: acc) [0] l.

Definition cubic_sd (g vs : list Q) : list Q :=
  let n := length g in
  let mus := map (cubic_mu g) (seq 0 (n - 2)) in
  let tmps := map (cubic_tmp g vs) (seq 0 (n - 2)) in
  0 :: cubic_back (cubic_fwd mus tmps 0 0).

Definition cub (p0 p1 v0 v1 s0 s1 x : Q) : Q :=
  let step := p1 - p0 in
  let r_step := 1 / step in
  let a := (p1 - x) * r_step in
  let b := (x - p0) * r_step in
  let fact := 1 / 6 in
  a * v0 + b * v1 + ((a * a * a - a) * s0 + (b * b * b - b) * s1) * (step * step * fact).

Definition cubic1 (g : list Q) (idx : Z) (x : Q) (vs : list Q) : Q :=
  let i := if (idx =? zlen g - 1)%Z then (idx - 1)%Z else idx in
  let sd := cubic_sd g vs in
  cub (gq g i) (gq g (i + 1)) (vq vs i) (vq vs (i + 1)) (vq sd i) (vq sd (i + 1)) x.

(* [Qred] only normalises the representation of the rational (keeps vm_compute fast); == is unaffected *)
Definition interp1 (m : method) (g : list Q) (idx : Z) (x : Q) (vs : list Q) : Q :=
  Qred match m with
  | Slinear => slinear1 g idx x vs
  | Lagrange2 => lagrange2_1 g idx x vs
  | Lagrange3 => lagrange3_1 g idx x vs
  | Akima => akima1 g idx x vs
  | Cubic => cubic1 g idx x vs
  end.

(* ------------------------------------------------------------------ n-dimensional tables *)

Inductive tensor := Leaf (q : Q) | Node (l : list tensor).
Definition children (t : tensor) : list tensor := match t with Node l => l | Leaf _ => [] end.
Definition leafval (t : tensor) : Q := match t with Leaf q => q | Node _ => 0 end.

(* InterpAlgorithm.evaluate/interpolate: the sub-table (remaining dimensions) is evaluated for every
   entry of the slice of this dimension, the results are combined by this dimension's formula. *)
Fixpoint evalND (m : method) (gs : list (list Q)) (idxs : list Z) (xs : list Q) (T : tensor) : Q :=
  match gs, idxs, xs with
  | g :: gs', i :: is', x :: xs' => interp1 m g i x (map (evalND m gs' is' xs') (children T))
  | _, _, _ => leafval T
  end.

(* table of a function on the grid, entry at a multi-index *)
Fixpoint tabulate (gs : list (list Q)) (F : list Q -> Q) : tensor :=
  match gs with
  | [] => Leaf (F [])
  | g :: gs' => Node (map (fun a => tabulate gs' (fun tl => F (a :: tl))) g)
  end.

Fixpoint tget (T : tensor) (ks : list Z) : Q :=
  match ks with
  | [] => leafval T
  | k :: ks' => tget (nth (Z.to_nat k) (children T) (Leaf 0)) ks'
  end.

Fixpoint shaped (gs : list (list Q)) (T : tensor) : Prop :=
  match gs with
  | [] => exists q, T = Leaf q
  | g :: gs' => exists l, T = Node l /\ length l = length g /\ Forall (shaped gs') l
  end.

(* ------------------------------------------------------------------ a call of InterpND.interpolate *)

(* bracket every coordinate with that dimension's cached last_index; the cache becomes the index *)
Fixpoint brackets (gs : list (list Q)) (lasts : list Z) (xs : list Q) : list Z :=
  match gs, lasts, xs with
  | g :: gs', l :: ls', x :: xs' => fst (bracket g l x) :: brackets gs' ls' xs'
  | _, _, _ => []
  end.

Fixpoint eval_points (m : method) (gs : list (list Q)) (T : tensor) (lasts : list Z)
         (pts : list (list Q)) : list Q :=
  match pts with
  | [] => []
  | xs :: pts' =>
      let idxs := brackets gs lasts xs in
      evalND m gs idxs xs T :: eval_points m gs T idxs pts'
  end.

Definition column (pts : list (list Q)) (i : nat) : list Q := map (fun p => nth i p 0) pts.
Definition columns (n : nat) (pts : list (list Q)) : list (list Q) := map (column pts) (seq 0 n).

Definition run_interp (epsf : list Q -> Q) (m : method) (gs : list (list Q)) (T : tensor)
           (extrapolate : bool) (pts : list (list Q)) : val :=
  let go := vqs (eval_points m gs T (map (fun _ => 0%Z) gs) pts) in
  if extrapolate then go
  else match oob_scan epsf 0 gs (columns (length gs) pts) with
       | Some (i, c) => VL [VE c; VZ i]
       | None => go
       end.

Definition run_fixed := run_interp eps_fixed.        (* repaired code *)
Definition run_present := run_interp eps_present.    (* code of the pinned commit *)

(* the bracket search alone (correspondence with InterpAlgorithm.bracket for every cached index) *)
Definition run_bracket (g : list Q) (last : Z) (x : Q) : val :=
  VL [VZ (fst (bracket g last x)); VZ (snd (bracket g last x))].

(* executable check of "strictly increasing" *)
Fixpoint incrb (g : list Q) : bool :=
  match g with
  | a :: t => match t with b :: _ => Qltb a b && incrb t | [] => true end
  | [] => true
  end.
