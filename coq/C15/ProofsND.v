(* C15 -- n-dimensional tables (induction on the dimension), whole calls with the cached bracket indices,
   and the out-of-bounds decision. *)
From Coq Require Import ZArith QArith Qabs List Bool Lia Lqa.
From OMV Require Import Base.Val C15.Model C15.Proofs1D C15.ProofsBracket.
Import ListNotations.
Open Scope Z_scope.
Open Scope Q_scope.

(* ------------------------------------------------------------------ per-coordinate polynomials *)

Definition poly3 (c0 c1 c2 c3 x : Q) : Q := c0 + c1 * x + c2 * (x * x) + c3 * (x * x * x).

Definition is_poly (d : nat) (f : Q -> Q) : Prop :=
  exists c0 c1 c2 c3,
    ((d < 3)%nat -> c3 == 0) /\ ((d < 2)%nat -> c2 == 0) /\ ((d < 1)%nat -> c1 == 0) /\
    forall x, f x == poly3 c0 c1 c2 c3 x.

(* F is, in each of its first n coordinates separately, a polynomial of degree <= d
   (multilinear for d = 1, tensor-product quadratic / cubic for d = 2 / 3) *)
Fixpoint cwpoly (d n : nat) (F : list Q -> Q) : Prop :=
  match n with
  | O => True
  | S n' => (forall tl, is_poly d (fun x => F (x :: tl))) /\
            (forall x, cwpoly d n' (fun tl => F (x :: tl)))
  end.

Definition grid_ok (m : method) (g : list Q) : Prop := incr g /\ (kmin m <= zlen g)%Z.

Lemma kmin_ge2 m : (2 <= kmin m)%Z.
Proof. destruct m; simpl; lia. Qed.

Lemma interp1_repro m g idx x vs f :
  grid_ok m g -> (0 <= idx <= zlen g - 1)%Z -> is_poly (deg m) f ->
  (forall k, (0 <= k < zlen g)%Z -> vq vs k == f (gq g k)) ->
  interp1 m g idx x vs == f x.
Proof.
  intros [Hg Hn] Hi (c0 & c1 & c2 & c3 & D3 & D2 & D1 & Hf) Hv.
  unfold interp1. rewrite Qred_correct. rewrite Hf. unfold poly3.
  destruct m; simpl in *.
  - rewrite (D3 ltac:(lia)), (D2 ltac:(lia)).
    rewrite (slinear1_lin g idx x vs c0 c1); auto; [ring |].
    intros k Hk. rewrite Hv, Hf by auto. unfold poly3. rewrite (D3 ltac:(lia)), (D2 ltac:(lia)). ring.
  - rewrite (D3 ltac:(lia)).
    rewrite (lagrange2_1_quad g idx x vs c0 c1 c2); auto; [ring |].
    intros k Hk. rewrite Hv, Hf by auto. unfold poly3. rewrite (D3 ltac:(lia)). ring.
  - rewrite (lagrange3_1_cubic g idx x vs c0 c1 c2 c3); auto; [ring |].
    intros k Hk. rewrite Hv, Hf by auto. unfold poly3. ring.
  - rewrite (D3 ltac:(lia)), (D2 ltac:(lia)).
    rewrite (akima1_lin g idx x vs c0 c1); auto; [ring |].
    intros k Hk. rewrite Hv, Hf by auto. unfold poly3. rewrite (D3 ltac:(lia)), (D2 ltac:(lia)). ring.
  - rewrite (D3 ltac:(lia)), (D2 ltac:(lia)).
    rewrite (cubic1_lin g idx x vs c0 c1); auto; [ring | lia |].
    intros k Hk. rewrite Hv, Hf by auto. unfold poly3. rewrite (D3 ltac:(lia)), (D2 ltac:(lia)). ring.
Qed.

Lemma interp1_node m g idx k vs :
  grid_ok m g -> (0 <= idx <= zlen g - 1)%Z -> (k = idx \/ k = idx + 1)%Z -> (0 <= k <= zlen g - 1)%Z ->
  interp1 m g idx (gq g k) vs == vq vs k.
Proof.
  intros [Hg Hn] Hi Hk Hk2. unfold interp1. rewrite Qred_correct.
  destruct m; simpl in Hn.
  - apply slinear1_node; auto.
  - apply lagrange2_1_node; auto.
  - apply lagrange3_1_node; auto.
  - apply akima1_node; auto.
  - apply cubic1_node; auto. lia.
Qed.

(* ------------------------------------------------------------------ tensors *)

Lemma vq_map (h : Q -> Q) g k : (0 <= k < zlen g)%Z -> vq (map h g) k = h (gq g k).
Proof.
  intros Hk. unfold vq, gq, zlen in *.
  rewrite (nth_indep _ 0 (h 0)) by (rewrite map_length; lia). apply map_nth.
Qed.

Lemma vq_map_t (e : tensor -> Q) l k :
  (0 <= k < Z.of_nat (length l))%Z -> vq (map e l) k = e (nth (Z.to_nat k) l (Leaf 0)).
Proof.
  intros Hk. unfold vq.
  rewrite (nth_indep _ 0 (e (Leaf 0))) by (rewrite map_length; lia). apply map_nth.
Qed.

Definition idx_ok (g : list Q) (i : Z) : Prop := (0 <= i <= zlen g - 1)%Z.

(* Reproduction of every function that is coordinate-wise a polynomial of the method's degree, for
   tables of any dimension, any admissible cell indices (in particular those found by the bracket
   search) and ANY evaluation point (inside or outside the grid). *)
Theorem tensor_reproduces m : forall gs idxs xs F,
  Forall (grid_ok m) gs -> Forall2 idx_ok gs idxs -> length xs = length gs ->
  cwpoly (deg m) (length gs) F ->
  evalND m gs idxs xs (tabulate gs F) == F xs.
Proof.
  induction gs as [| g gs IH]; intros idxs xs F Hg Hi Hx HF.
  - destruct xs; [| discriminate]. simpl. reflexivity.
  - inversion Hg as [| ? ? Hg1 Hg2]; subst. inversion Hi as [| ? i ? is' Hi1 Hi2]; subst.
    destruct xs as [| x xs']; [discriminate |]. simpl in Hx. injection Hx as Hx.
    destruct HF as [HF1 HF2].
    cbn [evalND tabulate children]. rewrite map_map.
    apply (interp1_repro m g i x _ (fun x => F (x :: xs'))); auto.
    intros k Hk. rewrite vq_map by auto.
    apply (IH is' xs' (fun tl => F (gq g k :: tl))); auto.
Qed.

Inductive node_ok : list (list Q) -> list Z -> list Z -> Prop :=
| node_nil : node_ok [] [] []
| node_cons g gs i is' k ks :
    idx_ok g i -> (0 <= k <= zlen g - 1)%Z -> (k = i \/ k = i + 1)%Z ->
    node_ok gs is' ks -> node_ok (g :: gs) (i :: is') (k :: ks).

Fixpoint coords (gs : list (list Q)) (ks : list Z) : list Q :=
  match gs, ks with
  | g :: gs', k :: ks' => gq g k :: coords gs' ks'
  | _, _ => []
  end.

(* Exactness on grid nodes, any dimension. *)
Theorem tensor_node m : forall gs idxs ks T,
  Forall (grid_ok m) gs -> shaped gs T -> node_ok gs idxs ks ->
  evalND m gs idxs (coords gs ks) T == tget T ks.
Proof.
  intros gs idxs ks T Hg Hs Hn. revert T Hg Hs.
  induction Hn as [| g gs i is' k ks Hi Hk Hki Hn IH]; intros T Hg Hs.
  - simpl. reflexivity.
  - inversion Hg as [| ? ? Hg1 Hg2]; subst.
    destruct Hs as (l & -> & Hlen & Hall).
    cbn [evalND coords children tget].
    rewrite (interp1_node m g i k); auto.
    assert (Hkl : (0 <= k < Z.of_nat (length l))%Z) by (rewrite Hlen; unfold zlen in *; lia).
    rewrite vq_map_t by auto.
    apply IH; auto.
    rewrite Forall_forall in Hall. apply Hall. apply nth_In. lia.
Qed.

(* ------------------------------------------------------------------ calls with cached indices *)

Definition lasts_ok (gs : list (list Q)) (ls : list Z) : Prop := Forall2 idx_ok gs ls.

Lemma bracket_range g l x : incr g -> (2 <= zlen g)%Z -> idx_ok g l -> idx_ok g (fst (bracket g l x)).
Proof.
  intros Hg Hn Hl. unfold idx_ok in *.
  destruct (bracket_spec g l x Hg Hn Hl) as [(F & I & X) | [(F & I & X) | (F & I & X1 & X2)]]; lia.
Qed.

Lemma brackets_ok m : forall gs ls xs,
  Forall (grid_ok m) gs -> lasts_ok gs ls -> length xs = length gs ->
  lasts_ok gs (brackets gs ls xs).
Proof.
  induction gs as [| g gs IH]; intros ls xs Hg Hl Hx.
  - inversion Hl; subst. simpl. constructor.
  - inversion Hg as [| ? ? [Hg1 Hg1'] Hg2]; subst. inversion Hl as [| ? l ? ls' Hl1 Hl2]; subst.
    destruct xs as [| x xs']; [discriminate |]. simpl in Hx. injection Hx as Hx.
    cbn [brackets]. constructor.
    + apply bracket_range; auto. pose proof (kmin_ge2 m). lia.
    + apply IH; auto.
Qed.

Lemma brackets_node m : forall gs ls ks,
  Forall (grid_ok m) gs -> lasts_ok gs ls -> Forall2 (fun g k => (0 <= k <= zlen g - 1)%Z) gs ks ->
  node_ok gs (brackets gs ls (coords gs ks)) ks.
Proof.
  induction gs as [| g gs IH]; intros ls ks Hg Hl Hk.
  - inversion Hl; subst. inversion Hk; subst. simpl. constructor.
  - inversion Hg as [| ? ? [Hg1 Hg1'] Hg2]; subst. inversion Hl as [| ? l ? ls' Hl1 Hl2]; subst.
    inversion Hk as [| ? k ? ks' Hk1 Hk2]; subst.
    cbn [coords brackets].
    assert (H2 : (2 <= zlen g)%Z) by (pose proof (kmin_ge2 m); lia).
    destruct (bracket_node g l k Hg1 H2 Hl1 Hk1) as [B1 B2].
    constructor; auto.
Qed.

Lemma F2_length {A B} (R : A -> B -> Prop) l1 l2 : Forall2 R l1 l2 -> length l1 = length l2.
Proof. induction 1; simpl; auto. Qed.

Lemma coords_length gs ks : length ks = length gs -> length (coords gs ks) = length gs.
Proof.
  revert ks. induction gs as [| g gs IH]; intros [| k ks] H; simpl in *; try discriminate; auto.
Qed.

(* One call of InterpND.interpolate with several points: whatever the cached indices are at the start
   and however they evolve from point to point, every value is the tabulated function's value. *)
Theorem eval_points_reproduces m gs F : forall pts ls,
  Forall (grid_ok m) gs -> lasts_ok gs ls -> Forall (fun pt => length pt = length gs) pts ->
  cwpoly (deg m) (length gs) F ->
  Forall2 (fun v pt => v == F pt) (eval_points m gs (tabulate gs F) ls pts) pts.
Proof.
  induction pts as [| pt pts IH]; intros ls Hg Hl Hp HF; [constructor |].
  inversion Hp; subst. cbn [eval_points].
  assert (Hb : lasts_ok gs (brackets gs ls pt)) by (eapply brackets_ok; eauto).
  constructor.
  - apply tensor_reproduces; auto.
  - apply IH; auto.
Qed.

(* ... and every grid node returns the table value. *)
Theorem eval_points_nodes m gs T : forall kss ls,
  Forall (grid_ok m) gs -> shaped gs T -> lasts_ok gs ls ->
  Forall (fun ks => Forall2 (fun g k => (0 <= k <= zlen g - 1)%Z) gs ks) kss ->
  Forall2 (fun v ks => v == tget T ks) (eval_points m gs T ls (map (coords gs) kss)) kss.
Proof.
  induction kss as [| ks kss IH]; intros ls Hg Hs Hl Hk; [constructor |].
  inversion Hk as [| ? ? Hk1 Hk2]; subst. cbn [map eval_points].
  assert (Hlen : length (coords gs ks) = length gs).
  { apply coords_length. symmetry. eapply F2_length; eauto. }
  assert (Hb : lasts_ok gs (brackets gs ls (coords gs ks))) by (eapply brackets_ok; eauto).
  constructor.
  - apply tensor_node; auto. eapply brackets_node; eauto.
  - apply IH; auto.
Qed.

(* the cache of a fresh table (all zeros) is admissible *)
Lemma zeros_ok m gs : Forall (grid_ok m) gs -> lasts_ok gs (map (fun _ => 0%Z) gs).
Proof.
  induction 1 as [| g gs [H1 H2] H IH]; simpl; constructor; auto.
  unfold idx_ok. pose proof (kmin_ge2 m). lia.
Qed.

(* ------------------------------------------------------------------ out-of-bounds decision *)

Lemma eps_fixed_nonneg g : 0 <= eps_fixed g.
Proof.
  unfold eps_fixed, tiny. apply Qmult_le_0_compat; [discriminate | apply Qabs_nonneg].
Qed.

Lemma orb_Qltb a b c d : (Qltb a b || Qltb c d) = true <-> a < b \/ c < d.
Proof.
  rewrite orb_true_iff. split; intros [H | H]; auto using Qltb_true, Qltb_lt.
Qed.

(* repaired code: the test fires exactly outside the eps-widened grid, with eps >= 0 *)
Theorem oob_decision_exact g p :
  0 <= eps_fixed g /\
  (oob_test (eps_fixed g) g p = true <-> p < gq g 0 - eps_fixed g \/ glast g + eps_fixed g < p).
Proof. split; [apply eps_fixed_nonneg | apply orb_Qltb]. Qed.

(* hence: in-bounds points are never rejected ... *)
Theorem oob_fixed_inbounds g p :
  gq g 0 <= p -> p <= glast g -> oob_test (eps_fixed g) g p = false.
Proof.
  intros H1 H2. pose proof (eps_fixed_nonneg g).
  destruct (oob_test (eps_fixed g) g p) eqn:E; [| reflexivity].
  apply orb_Qltb in E. lra.
Qed.

(* ... and a rejected point is a genuine violator (the set popped by the code is never empty) *)
Theorem oob_fixed_truly g p : oob_test (eps_fixed g) g p = true -> truly_out g p = true.
Proof.
  intros E. pose proof (eps_fixed_nonneg g). apply orb_Qltb in E. apply orb_Qltb. lra.
Qed.

Definition inb (g : list Q) (ps : list Q) : Prop := Forall (fun p => gq g 0 <= p /\ p <= glast g) ps.

Lemma existsb_false {A} (f : A -> bool) l : Forall (fun a => f a = false) l -> existsb f l = false.
Proof. induction 1; simpl; auto. rewrite H. auto. Qed.

Theorem oob_scan_fixed_accepts : forall gs cols i,
  Forall2 inb gs cols -> oob_scan eps_fixed i gs cols = None.
Proof.
  induction gs as [| g gs IH]; intros cols i H; inversion H; subst; [reflexivity |].
  cbn [oob_scan]. rewrite existsb_false; [apply IH; auto |].
  eapply Forall_impl; [| eassumption]. intros p [P1 P2]. apply oob_fixed_inbounds; auto.
Qed.

Theorem oob_scan_fixed_code : forall gs cols i j c,
  oob_scan eps_fixed i gs cols = Some (j, c) -> c = 1%Z.
Proof.
  induction gs as [| g gs IH]; intros cols i j c H; [discriminate |].
  destruct cols as [| ps cols]; [discriminate |]. cbn [oob_scan] in H.
  destruct (existsb (oob_test (eps_fixed g) g) ps) eqn:E.
  - apply existsb_exists in E. destruct E as (p & Hin & Hp). apply oob_fixed_truly in Hp.
    assert (E2 : existsb (truly_out g) ps = true) by (apply existsb_exists; eauto).
    rewrite E2 in H. congruence.
  - eapply IH; eauto.
Qed.

(* the code of the pinned commit: eps = 1e-14 * grid[-1] is negative on an all-negative grid; the
   in-bounds boundary node -1 of the strictly increasing grid [-3,-2,-1] is rejected, and because it is
   not a genuine violator the code fails with KeyError (code 2) instead of OutOfBoundsError *)
Example oob_present_refuted :
  exists g p, incrb g = true /\ gq g 0 <= p /\ p <= glast g /\
              oob_test (eps_present g) g p = true /\ truly_out g p = false /\
              oob_scan eps_present 0 [g] [[p]] = Some (0%Z, 2%Z).
Proof.
  exists [(-3) # 1; (-2) # 1; (-1) # 1], ((-1) # 1).
  repeat split; vm_compute; congruence.
Qed.

(* a call with extrapolate=False on in-bounds points is never rejected by the repaired code *)
Theorem run_fixed_accepts m gs T pts :
  Forall2 inb gs (columns (length gs) pts) ->
  run_fixed m gs T false pts = vqs (eval_points m gs T (map (fun _ => 0%Z) gs) pts).
Proof.
  intros H. unfold run_fixed, run_interp. now rewrite oob_scan_fixed_accepts.
Qed.

(* non-vacuity: the hypotheses of the theorems are satisfiable on a grid with negative coordinates *)
Example grid_ok_example :
  Forall (grid_ok Lagrange3) [[(-3) # 1; (-2) # 1; (-1) # 1; 0]; [(-7) # 2; (-1) # 4; 0; 5 # 1]].
Proof. repeat constructor; try (apply incrb_sound; reflexivity); simpl; unfold zlen; simpl; lia. Qed.

Example cwpoly_example : cwpoly 1 2 (fun xs => 2 + nth 0 xs 0 * nth 1 xs 0 - 3 * nth 1 xs 0).
Proof.
  simpl. split.
  - intros tl. exists (2 - 3 * nth 0 tl 0), (nth 0 tl 0), 0, 0.
    split; [reflexivity | split; [reflexivity | split; [intros; lia |]]]. intros x. unfold poly3. simpl. ring.
  - intros x. split; [| intros; exact I].
    intros tl. exists 2, (x - 3), 0, 0. split; [reflexivity | split; [reflexivity | split; [intros; lia |]]]. intros y. unfold poly3. simpl. ring.
Qed.
