(* C15 -- property theorems (statements only; proofs by [exact] of lemmas in Proofs*.v).
   All grids are arbitrary strictly increasing lists of rationals: no sign assumption anywhere. *)
From Coq Require Import ZArith QArith Qabs List.
From OMV Require Import Base.Val C15.Model C15.ModelFixed C15.Proofs1D C15.ProofsBracket C15.ProofsND C15.ProofsFixed.
Import ListNotations.
Open Scope Z_scope.
Open Scope Q_scope.

(* The bracket search: for every strictly increasing grid, every cached index and every x, the flag is
   -1 / +1 exactly when x is below / above the grid, and otherwise the returned cell contains x. *)
Theorem C15_bracket_correct : forall (g : list Q) (last0 : Z) (x : Q),
  incr g -> (2 <= zlen g)%Z -> (0 <= last0 <= zlen g - 1)%Z ->
  let idx := fst (bracket g last0 x) in
  let flag := snd (bracket g last0 x) in
  (flag = (-1)%Z /\ idx = 0%Z /\ x < gq g 0) \/
  (flag = 1%Z /\ idx = (zlen g - 1)%Z /\ gq g (zlen g - 1) < x) \/
  (flag = 0%Z /\ (0 <= idx <= zlen g - 1)%Z /\ gq g idx <= x /\ x <= gq g (Z.min (idx + 1) (zlen g - 1))).
Proof. exact bracket_spec. Qed.
Print Assumptions C15_bracket_correct.

(* One-dimensional node exactness of all five methods (slinear, lagrange2, lagrange3, akima, cubic). *)
Theorem C15_interp1_node : forall (m : method) (g : list Q) (idx k : Z) (vs : list Q),
  grid_ok m g -> (0 <= idx <= zlen g - 1)%Z -> (k = idx \/ k = idx + 1)%Z -> (0 <= k <= zlen g - 1)%Z ->
  interp1 m g idx (gq g k) vs == vq vs k.
Proof. exact interp1_node. Qed.
Print Assumptions C15_interp1_node.

(* One-dimensional reproduction: linear functions for slinear, akima and the natural cubic spline,
   quadratics for lagrange2, cubics for lagrange3 -- at every x, inside or outside the grid. *)
Theorem C15_interp1_reproduces : forall (m : method) (g : list Q) (idx : Z) (x : Q) (vs : list Q) (f : Q -> Q),
  grid_ok m g -> (0 <= idx <= zlen g - 1)%Z -> is_poly (deg m) f ->
  (forall k, (0 <= k < zlen g)%Z -> vq vs k == f (gq g k)) ->
  interp1 m g idx x vs == f x.
Proof. exact interp1_repro. Qed.
Print Assumptions C15_interp1_reproduces.

(* Tables of any dimension (induction on the dimension): every function that is a polynomial of the
   method's degree in each coordinate separately (multilinear; tensor-product quadratic / cubic) is
   reproduced exactly from its table. *)
Theorem C15_tensor_reproduces : forall (m : method) (gs : list (list Q)) (idxs : list Z) (xs : list Q)
                                       (F : list Q -> Q),
  Forall (grid_ok m) gs -> Forall2 idx_ok gs idxs -> length xs = length gs ->
  cwpoly (deg m) (length gs) F ->
  evalND m gs idxs xs (tabulate gs F) == F xs.
Proof. exact tensor_reproduces. Qed.
Print Assumptions C15_tensor_reproduces.

(* Whole calls: for any number of points evaluated one after the other through the same table object,
   whatever the cached bracket indices are, every returned value is the function value ... *)
Theorem C15_call_reproduces : forall (m : method) (gs : list (list Q)) (F : list Q -> Q)
                                     (pts : list (list Q)) (ls : list Z),
  Forall (grid_ok m) gs -> lasts_ok gs ls -> Forall (fun pt => length pt = length gs) pts ->
  cwpoly (deg m) (length gs) F ->
  Forall2 (fun v pt => v == F pt) (eval_points m gs (tabulate gs F) ls pts) pts.
Proof. exact eval_points_reproduces. Qed.
Print Assumptions C15_call_reproduces.

(* ... and every grid node returns the table entry, for arbitrary table values. *)
Theorem C15_call_nodes : forall (m : method) (gs : list (list Q)) (T : tensor) (kss : list (list Z)) (ls : list Z),
  Forall (grid_ok m) gs -> shaped gs T -> lasts_ok gs ls ->
  Forall (fun ks => Forall2 (fun g k => (0 <= k <= zlen g - 1)%Z) gs ks) kss ->
  Forall2 (fun v ks => v == tget T ks) (eval_points m gs T ls (map (coords gs) kss)) kss.
Proof. exact eval_points_nodes. Qed.
Print Assumptions C15_call_nodes.

(* The out-of-bounds decision of the repaired code (eps = 1e-14*abs(grid[-1]) >= 0): the test fires
   exactly outside the eps-widened grid ... *)
Theorem C15_oob_decision_exact : forall (g : list Q) (p : Q),
  0 <= eps_fixed g /\
  (oob_test (eps_fixed g) g p = true <-> p < gq g 0 - eps_fixed g \/ glast g + eps_fixed g < p).
Proof. exact oob_decision_exact. Qed.
Print Assumptions C15_oob_decision_exact.

(* ... so calls on in-bounds points are never rejected (any grid, any sign) ... *)
Theorem C15_inbounds_accepted : forall (m : method) (gs : list (list Q)) (T : tensor) (pts : list (list Q)),
  Forall2 inb gs (columns (length gs) pts) ->
  run_fixed m gs T false pts = vqs (eval_points m gs T (map (fun _ => 0%Z) gs) pts).
Proof. exact run_fixed_accepts. Qed.
Print Assumptions C15_inbounds_accepted.

(* ... and a rejection always names a genuine violator (OutOfBoundsError, never the KeyError). *)
Theorem C15_rejection_is_out_of_bounds : forall (gs : list (list Q)) (cols : list (list Q)) (i j c : Z),
  oob_scan eps_fixed i gs cols = Some (j, c) -> c = 1%Z.
Proof. exact oob_scan_fixed_code. Qed.
Print Assumptions C15_rejection_is_out_of_bounds.

(* The code of the pinned commit (eps = 1e-14*grid[-1]) violates this on all-negative grids. *)
Theorem C15_oob_present_refuted :
  exists g p, incrb g = true /\ gq g 0 <= p /\ p <= glast g /\
              oob_test (eps_present g) g p = true /\ truly_out g p = false /\
              oob_scan eps_present 0 [g] [[p]] = Some (0%Z, 2%Z).
Proof. exact oob_present_refuted. Qed.
Print Assumptions C15_oob_present_refuted.

(* fixed_eq_general, one-dimensional classes: the coefficient form of Interp1DSlinear / Interp1DLagrange2 /
   Interp1DLagrange3 (powers of x - first stencil node, Horner evaluation) is, over Q, the same function as
   the general InterpLinear / InterpLagrange2 / InterpLagrange3 on the same cell -- every strictly
   increasing grid, every cell index of the fixed classes (-1 below .. n-1 above the table), every table,
   every x. *)
Theorem C15_fixed1_eq_general : forall (m : method) (g : list Q) (idx : Z) (x : Q) (vs : list Q),
  fixed_method m -> incr g -> (kmin m <= zlen g)%Z -> (-1 <= idx <= zlen g - 1)%Z ->
  fixed1 m g idx x vs == interp1 m g (gen_idx idx) x vs.
Proof. exact fixed1_eq_general. Qed.
Print Assumptions C15_fixed1_eq_general.
