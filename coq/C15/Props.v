From Coq Require Import ZArith QArith List.
From OMV Require Import Base.Val C15.Model.
Theorem C15_placeholder : True. Proof. exact I. Qed.
Print Assumptions C15_placeholder.
