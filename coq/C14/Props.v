(* C14 — property theorems (statements only; proofs by [exact]). *)
From Coq Require Import Reals List Arith.
From Coquelicot Require Import Coquelicot.
From OMV Require Import Expr.Expr Expr.ExprProofs C14.Model C14.Proofs C14.ProofsCS.
Import ListNotations.
Open Scope R_scope.

(* the symbolic derivative is the derivative: every expression of the language, every
   environment in which it is smooth, every variable *)
Theorem C14_D_correct : forall (e : expr) (rho : env) (x : nat),
  smooth rho e ->
  is_derive (fun t => evalR (upd rho x t) e) (rho x) (evalR rho (D x e)).
Proof. exact D_correct. Qed.
Print Assumptions C14_D_correct.

(* array semantics: the dense sub-jacobian of y = e(x...) w.r.t. an array input is diagonal
   with D_i e on the diagonal — for every element pair (k, l) *)
Theorem C14_exec_partial_elem : forall e xs i k l,
  smooth (env_at xs k) e ->
  is_derive (fun t => exec_out e (pert_elem xs i l t) k) (xs i l) (jac_entry e xs i k l).
Proof. exact exec_partial_elem. Qed.
Print Assumptions C14_exec_partial_elem.

(* scalar (broadcast) input: the column is D_i e at each element *)
Theorem C14_exec_partial_scalar : forall e xs i k,
  smooth (env_at xs k) e ->
  is_derive (fun t => exec_out e (pert_scalar xs i t) k) (xs i k) (jac_diag e xs i k).
Proof. exact exec_partial_scalar. Qed.
Print Assumptions C14_exec_partial_scalar.

(* has_diag_partials stores exactly the diagonal of that jacobian; nothing is lost *)
Theorem C14_diag_partials_correct : forall e xs i k l,
  jac_entry e xs i k l = if Nat.eqb k l then jac_diag e xs i k else 0.
Proof. exact diag_partials_correct. Qed.
Print Assumptions C14_diag_partials_correct.

(* y = sum(e) *)
Theorem C14_exec_sum_partial : forall e xs i l n,
  (l < n)%nat -> (forall k, (k < n)%nat -> smooth (env_at xs k) e) ->
  is_derive (fun t => exec_sum e (pert_elem xs i l t) n) (xs i l) (jac_diag e xs i l).
Proof. exact exec_sum_partial. Qed.
Print Assumptions C14_exec_sum_partial.

(* the executable rational twin agrees with the real semantics on the rational fragment *)
Theorem C14_evalQ_sound : forall e rq r,
  evalQ rq e = Some r -> evalR (env_of_Q rq) e = Q2R r /\ defined (env_of_Q rq) e.
Proof. exact evalQ_sound. Qed.
Print Assumptions C14_evalQ_sound.

(* ---- the complex-step mechanism of compute_partials, on the polynomial / rational fragment
   (variables, constants, + - * /, integer powers), for every expression, point and variable ---- *)

(* at h = 0 the complex evaluation is the real value, and the real part is stationary in h *)
Theorem C14_cs_real_part : forall e x v,
  cs_frag e = true -> defined x e ->
  evalC (cs_env x v 0) e = (evalR x e, 0) /\
  is_derive (fun h => fst (evalC (cs_env x v h) e)) 0 0.
Proof. exact cs_real_part. Qed.
Print Assumptions C14_cs_real_part.

(* the imaginary part of e(x + i h e_v) has slope exactly D_v e at h = 0 *)
Theorem C14_cs_imag_derive : forall e x v,
  cs_frag e = true -> defined x e ->
  is_derive (fun h => snd (evalC (cs_env x v h) e)) 0 (evalR x (D v e)).
Proof. exact cs_imag_derive. Qed.
Print Assumptions C14_cs_imag_derive.

(* what compute_partials stores, imag / h, converges to the exact partial derivative *)
Theorem C14_cs_quotient_limit : forall e x v,
  cs_frag e = true -> defined x e ->
  forall eps, 0 < eps -> exists delta : posreal, forall h,
    h <> 0 -> Rabs h < delta -> Rabs (cs_quotient e x v h - evalR x (D v e)) < eps.
Proof. exact cs_quotient_limit. Qed.
Print Assumptions C14_cs_quotient_limit.

(* real part even, imaginary part odd in the step (any expression): imag / h is even in h, so
   its error has no first-order term *)
Theorem C14_cs_parity : forall e x v h,
  fst (evalC (cs_env x v (- h)) e) = fst (evalC (cs_env x v h) e) /\
  snd (evalC (cs_env x v (- h)) e) = - snd (evalC (cs_env x v h) e).
Proof. exact cs_parity. Qed.
Print Assumptions C14_cs_parity.

Theorem C14_cs_quotient_even : forall e x v h,
  h <> 0 -> cs_quotient e x v (- h) = cs_quotient e x v h.
Proof. exact cs_quotient_even. Qed.
Print Assumptions C14_cs_quotient_even.
