(* C14 — the complex-step mechanism itself (ExecComp.compute_partials): on the polynomial /
   rational fragment, evaluating the expression in complex arithmetic at x + i*h*e_v gives an
   imaginary part whose derivative in h at 0 is exactly the partial derivative D_v e, a real part
   that is stationary there, and an imaginary part that is ODD in h (real part even): the
   quotient imag / h converges to D_v e and its error has no first-order term in h. *)
From Coq Require Import Reals QArith Qreals ZArith List Arith Bool Lia Lra.
From Coquelicot Require Import Coquelicot.
From OMV Require Import Expr.Expr Expr.ExprProofs C14.Model.
Import ListNotations.
Open Scope R_scope.

(* a curve h |-> F h in C that is real at h = 0, with stationary real part and imaginary slope der *)
Definition csreg (F : R -> Cx) (val der : R) : Prop :=
  fst (F 0) = val /\ snd (F 0) = 0 /\
  is_derive (fun h => fst (F h)) 0 0 /\ is_derive (fun h => snd (F h)) 0 der.

Ltac cs_split := split; [|split; [|split]].

Lemma csreg_const c : csreg (fun _ => (c, 0)) c 0.
Proof. unfold csreg; cbn [fst snd]. cs_split; try reflexivity; apply @is_derive_const. Qed.

Lemma csreg_step x : csreg (fun h => (x, h)) x 1.
Proof.
  unfold csreg; cbn [fst snd]. cs_split; try reflexivity. apply @is_derive_const. apply @is_derive_id.
Qed.

Lemma csreg_neg F a a' : csreg F a a' -> csreg (fun h => cneg (F h)) (- a) (- a').
Proof.
  intros [H1 [H2 [H3 H4]]]. unfold csreg, cneg; cbn [fst snd]. cs_split.
  - now rewrite H1.
  - rewrite H2. ring.
  - evar_last. apply @is_derive_opp. exact H3. unfold opp; simpl. ring.
  - apply @is_derive_opp. exact H4.
Qed.

Lemma csreg_add F G a a' b b' :
  csreg F a a' -> csreg G b b' -> csreg (fun h => cadd (F h) (G h)) (a + b) (a' + b').
Proof.
  intros [H1 [H2 [H3 H4]]] [K1 [K2 [K3 K4]]]. unfold csreg, cadd; cbn [fst snd]. cs_split.
  - now rewrite H1, K1.
  - rewrite H2, K2. ring.
  - evar_last. apply @is_derive_plus; [exact H3 | exact K3]. unfold plus; simpl. ring.
  - apply @is_derive_plus; [exact H4 | exact K4].
Qed.

Lemma csreg_sub F G a a' b b' :
  csreg F a a' -> csreg G b b' -> csreg (fun h => csub (F h) (G h)) (a - b) (a' - b').
Proof.
  intros [H1 [H2 [H3 H4]]] [K1 [K2 [K3 K4]]]. unfold csreg, csub; cbn [fst snd]. cs_split.
  - now rewrite H1, K1.
  - rewrite H2, K2. ring.
  - evar_last. apply @is_derive_minus; [exact H3 | exact K3]. unfold minus, plus, opp; simpl. ring.
  - apply @is_derive_minus; [exact H4 | exact K4].
Qed.

Lemma csreg_mul F G a a' b b' :
  csreg F a a' -> csreg G b b' ->
  csreg (fun h => cmul (F h) (G h)) (a * b) (a' * b + a * b').
Proof.
  intros [H1 [H2 [H3 H4]]] [K1 [K2 [K3 K4]]]. unfold csreg, cmul; cbn [fst snd]. cs_split.
  - rewrite H1, H2, K1, K2. ring.
  - rewrite H1, H2, K1, K2. ring.
  - evar_last. apply @is_derive_minus.
    apply (Derive.is_derive_mult _ _ 0 _ _ H3 K3).
    apply (Derive.is_derive_mult _ _ 0 _ _ H4 K4).
    cbv beta. rewrite H2, K2. unfold minus, plus, opp; simpl. ring.
  - evar_last. apply @is_derive_plus.
    apply (Derive.is_derive_mult _ _ 0 _ _ H3 K4).
    apply (Derive.is_derive_mult _ _ 0 _ _ H4 K3).
    cbv beta. rewrite H1, K1. unfold plus; simpl. ring.
Qed.

Lemma csreg_inv G b b' :
  csreg G b b' -> b <> 0 -> csreg (fun h => cinv (G h)) (/ b) (- b' / (b * b)).
Proof.
  intros [K1 [K2 [K3 K4]]] Hb. unfold csreg, cinv; cbn [fst snd]. cbv zeta.
  assert (Hn : is_derive (fun h => fst (G h) * fst (G h) + snd (G h) * snd (G h)) 0 0).
  { evar_last. apply @is_derive_plus.
    apply (Derive.is_derive_mult _ _ 0 _ _ K3 K3).
    apply (Derive.is_derive_mult _ _ 0 _ _ K4 K4).
    cbv beta. rewrite K2. unfold plus; simpl. ring. }
  assert (Hn0 : fst (G 0) * fst (G 0) + snd (G 0) * snd (G 0) <> 0).
  { rewrite K1, K2. intro E. apply Hb. nra. }
  cs_split.
  - rewrite K1, K2. field. exact Hb.
  - rewrite K1, K2. field. exact Hb.
  - evar_last. apply (is_derive_div _ _ 0 _ _ K3 Hn Hn0).
    cbv beta. rewrite K1, K2. field. exact Hb.
  - evar_last.
    apply (is_derive_div (fun h => - snd (G h)) _ 0 (- b') 0).
    apply @is_derive_opp. exact K4. exact Hn. exact Hn0.
    cbv beta. rewrite K1, K2. field. exact Hb.
Qed.

Lemma csreg_div F G a a' b b' :
  csreg F a a' -> csreg G b b' -> b <> 0 ->
  csreg (fun h => cdiv (F h) (G h)) (a / b) ((a' * b - a * b') / (b * b)).
Proof.
  intros HF HG Hb. unfold cdiv.
  generalize (csreg_mul _ _ _ _ _ _ HF (csreg_inv _ _ _ HG Hb)).
  unfold csreg. intros [H1 [H2 [H3 H4]]]. cs_split; auto.
  evar_last. exact H4. field. exact Hb.
Qed.

Lemma csreg_pow_nat F a a' k :
  csreg F a a' ->
  csreg (fun h => cpow_nat (F h) k) (a ^ k) (INR k * a ^ pred k * a').
Proof.
  intros HF. induction k as [|k IH].
  - cbn [cpow_nat]. generalize (csreg_const 1). unfold csreg. intros [H1 [H2 [H3 H4]]].
    cs_split; auto. evar_last. exact H4. simpl. ring.
  - cbn [cpow_nat]. generalize (csreg_mul _ _ _ _ _ _ HF IH).
    unfold csreg. intros [H1 [H2 [H3 H4]]]. cs_split; auto.
    evar_last. exact H4. rewrite S_INR. cbn [pred].
    destruct k as [|k].
    + simpl. ring.
    + cbn [pred]. rewrite <- (tech_pow_Rmult a k). ring.
Qed.

(* the slope produced by the integer power is the one D writes down *)
Lemma pow_slope_pos a p :
  INR (Pos.to_nat p) * a ^ pred (Pos.to_nat p) = IZR (Z.pos p) * powerRZ a (Z.pos p - 1).
Proof.
  assert (H1 : is_derive (fun t => t ^ Pos.to_nat p) a (INR (Pos.to_nat p) * a ^ pred (Pos.to_nat p))).
  { evar_last. apply is_derive_pow. apply @is_derive_id. unfold one; simpl. ring. }
  assert (H2 : is_derive (fun t => t ^ Pos.to_nat p) a (IZR (Z.pos p) * powerRZ a (Z.pos p - 1))).
  { apply (is_derive_powerRZ (Z.pos p) a). left. lia. }
  rewrite <- (is_derive_unique _ _ _ H1). now apply is_derive_unique.
Qed.

Lemma pow_slope_neg a p :
  a <> 0 ->
  - (INR (Pos.to_nat p) * a ^ pred (Pos.to_nat p)) / (a ^ Pos.to_nat p * a ^ Pos.to_nat p)
  = IZR (Z.neg p) * powerRZ a (Z.neg p - 1).
Proof.
  intros Ha.
  assert (H1 : is_derive (fun t => / t ^ Pos.to_nat p) a
                 (- (INR (Pos.to_nat p) * a ^ pred (Pos.to_nat p))
                  / (a ^ Pos.to_nat p * a ^ Pos.to_nat p))).
  { evar_last. apply is_derive_inv. apply is_derive_pow. apply @is_derive_id.
    now apply pow_nonzero. unfold one; simpl. field. now apply pow_nonzero. }
  assert (H2 : is_derive (fun t => / t ^ Pos.to_nat p) a (IZR (Z.neg p) * powerRZ a (Z.neg p - 1))).
  { apply (is_derive_powerRZ (Z.neg p) a). now right. }
  rewrite <- (is_derive_unique _ _ _ H1). now apply is_derive_unique.
Qed.

Lemma csreg_pow F a a' n :
  csreg F a a' -> ((0 <= n)%Z \/ a <> 0) ->
  csreg (fun h => cpow (F h) n) (powerRZ a n)
        (if Z.eqb n 0 then 0 else IZR n * powerRZ a (n - 1) * a').
Proof.
  intros HF Hd. destruct n as [|p|p]; cbn [cpow Z.eqb].
  - cbn [powerRZ]. apply csreg_const.
  - generalize (csreg_pow_nat _ _ _ (Pos.to_nat p) HF). unfold csreg.
    intros [H1 [H2 [H3 H4]]]. cs_split; auto.
    evar_last. exact H4. rewrite pow_slope_pos. reflexivity.
  - assert (Ha : a <> 0) by (destruct Hd as [Hd|Hd]; [lia | exact Hd]).
    assert (Hk : a ^ Pos.to_nat p <> 0) by now apply pow_nonzero.
    generalize (csreg_inv _ _ _ (csreg_pow_nat _ _ _ (Pos.to_nat p) HF) Hk). unfold csreg.
    intros [H1 [H2 [H3 H4]]]. cs_split; auto.
    evar_last. exact H4.
    rewrite <- (pow_slope_neg a p Ha). field. exact Hk.
Qed.

(* ------------------------------------------------------------------ main theorem *)

Theorem cs_regular e x v :
  cs_frag e = true -> defined x e ->
  csreg (fun h => evalC (cs_env x v h) e) (evalR x e) (evalR x (D v e)).
Proof.
  induction e; intros Hf Hd; cbn [cs_frag] in Hf; try discriminate;
    cbn [defined] in Hd; cbn [evalC evalR D].
  - (* EVar *)
    unfold cs_env. destruct (Nat.eqb i v) eqn:E; cbn [evalR].
    + replace (Q2R 1) with 1 by (unfold Q2R; simpl; field). apply csreg_step.
    + replace (Q2R 0) with 0 by (unfold Q2R; simpl; field). apply csreg_const.
  - (* ECst *)
    replace (Q2R 0) with 0 by (unfold Q2R; simpl; field). apply csreg_const.
  - apply csreg_neg. now apply IHe.
  - apply andb_true_iff in Hf. destruct Hf, Hd. apply csreg_add; [now apply IHe1 | now apply IHe2].
  - apply andb_true_iff in Hf. destruct Hf, Hd. apply csreg_sub; [now apply IHe1 | now apply IHe2].
  - apply andb_true_iff in Hf. destruct Hf, Hd.
    generalize (csreg_mul _ _ _ _ _ _ (IHe1 H H1) (IHe2 H0 H2)). unfold csreg.
    intros [K1 [K2 [K3 K4]]]. cs_split; auto.
  - apply andb_true_iff in Hf. destruct Hf as [F1 F2]. destruct Hd as [D1 [D2 D3]].
    generalize (csreg_div _ _ _ _ _ _ (IHe1 F1 D1) (IHe2 F2 D2) D3). unfold csreg.
    intros [K1 [K2 [K3 K4]]]. cs_split; auto.
  - destruct Hd as [D1 D2].
    generalize (csreg_pow _ _ _ n (IHe Hf D1) D2). unfold csreg.
    intros [K1 [K2 [K3 K4]]]. cs_split; auto.
    evar_last. exact K4.
    destruct (Z.eqb n 0); cbn [evalR e_Z].
    + unfold Q2R; simpl; field.
    + unfold Q2R; simpl. field.
Qed.

(* the quantities compute_partials works with *)
Theorem cs_real_part e x v :
  cs_frag e = true -> defined x e ->
  evalC (cs_env x v 0) e = (evalR x e, 0) /\
  is_derive (fun h => fst (evalC (cs_env x v h) e)) 0 0.
Proof.
  intros Hf Hd. destruct (cs_regular e x v Hf Hd) as [H1 [H2 [H3 _]]]. split; auto.
  destruct (evalC (cs_env x v 0) e); cbn [fst snd] in *. now subst.
Qed.

Theorem cs_imag_derive e x v :
  cs_frag e = true -> defined x e ->
  is_derive (fun h => snd (evalC (cs_env x v h) e)) 0 (evalR x (D v e)).
Proof. intros Hf Hd. now destruct (cs_regular e x v Hf Hd) as [_ [_ [_ H]]]. Qed.

(* imag / h converges to the exact partial derivative as h -> 0 *)
Theorem cs_quotient_limit e x v :
  cs_frag e = true -> defined x e ->
  forall eps, 0 < eps -> exists delta : posreal, forall h,
    h <> 0 -> Rabs h < delta -> Rabs (cs_quotient e x v h - evalR x (D v e)) < eps.
Proof.
  intros Hf Hd eps He.
  generalize (cs_imag_derive e x v Hf Hd). intro Hder.
  apply is_derive_Reals in Hder.
  destruct (Hder eps He) as [delta Hdel]. exists delta. intros h Hh Hlt.
  generalize (Hdel h Hh Hlt). unfold cs_quotient.
  destruct (cs_regular e x v Hf Hd) as [_ [H2 _]].
  rewrite Rplus_0_l, H2, Rminus_0_r. auto.
Qed.

(* ------------------------------------------------------------------ parity in h *)

Definition cconj (z : Cx) : Cx := (fst z, - snd z).

Lemma cconj_mul z w : cmul (cconj z) (cconj w) = cconj (cmul z w).
Proof. unfold cmul, cconj; cbn [fst snd]. f_equal; ring. Qed.

Lemma cconj_inv z : cinv (cconj z) = cconj (cinv z).
Proof.
  unfold cinv, cconj; cbn [fst snd]. cbv zeta.
  replace (fst z * fst z + - snd z * - snd z) with (fst z * fst z + snd z * snd z) by ring.
  f_equal. unfold Rdiv. ring.
Qed.

Lemma cconj_pow_nat z k : cpow_nat (cconj z) k = cconj (cpow_nat z k).
Proof.
  induction k; cbn [cpow_nat]. unfold cconj; cbn [fst snd]. f_equal. ring.
  now rewrite IHk, cconj_mul.
Qed.

Lemma evalC_conj e rho :
  evalC (fun j => cconj (rho j)) e = cconj (evalC rho e).
Proof.
  induction e; cbn [evalC]; try (solve [unfold cconj; cbn [fst snd]; f_equal; ring]).
  - rewrite IHe. unfold cneg, cconj; cbn [fst snd]. reflexivity.
  - rewrite IHe1, IHe2. unfold cadd, cconj; cbn [fst snd]. f_equal. ring.
  - rewrite IHe1, IHe2. unfold csub, cconj; cbn [fst snd]. f_equal. ring.
  - now rewrite IHe1, IHe2, cconj_mul.
  - rewrite IHe1, IHe2. unfold cdiv. now rewrite cconj_inv, cconj_mul.
  - rewrite IHe. destruct n; cbn [cpow].
    + unfold cconj; cbn [fst snd]. f_equal. ring.
    + apply cconj_pow_nat.
    + now rewrite cconj_pow_nat, cconj_inv.
Qed.

Lemma evalC_ext e rho1 rho2 : (forall j, rho1 j = rho2 j) -> evalC rho1 e = evalC rho2 e.
Proof.
  intros H. induction e; cbn [evalC]; auto;
    try (rewrite IHe; reflexivity); try (rewrite IHe1, IHe2; reflexivity).
Qed.

Lemma cs_env_neg x v h j : cs_env x v (- h) j = cconj (cs_env x v h j).
Proof.
  unfold cs_env, cconj; cbn [fst snd]. destruct (Nat.eqb j v); f_equal. ring.
Qed.

(* the real part is even and the imaginary part odd in the step, for EVERY expression: the
   quotient imag / h is even, so its error carries no first-order term in h *)
Theorem cs_parity e x v h :
  fst (evalC (cs_env x v (- h)) e) = fst (evalC (cs_env x v h) e) /\
  snd (evalC (cs_env x v (- h)) e) = - snd (evalC (cs_env x v h) e).
Proof.
  assert (E : evalC (cs_env x v (- h)) e = cconj (evalC (cs_env x v h) e)).
  { rewrite <- evalC_conj. apply evalC_ext. intros j. apply cs_env_neg. }
  rewrite E. unfold cconj; cbn [fst snd]. split; reflexivity.
Qed.

Corollary cs_quotient_even e x v h :
  h <> 0 -> cs_quotient e x v (- h) = cs_quotient e x v h.
Proof.
  intros Hh. unfold cs_quotient. destruct (cs_parity e x v h) as [_ E]. rewrite E.
  field. exact Hh.
Qed.

(* exact closed forms on small polynomials (the remainder is explicit): x^2 is exact, x^3 has
   remainder - h^2 *)
Example cs_square_exact x h :
  h <> 0 -> cs_quotient (EPow (EVar 0) 2) (fun _ => x) 0 h = 2 * x.
Proof.
  intros Hh. unfold cs_quotient, cs_env. cbn [evalC cpow Nat.eqb].
  change (Pos.to_nat 2) with 2%nat. cbn [cpow_nat cmul fst snd]. field. exact Hh.
Qed.

Example cs_cube_remainder x h :
  h <> 0 -> cs_quotient (EPow (EVar 0) 3) (fun _ => x) 0 h = 3 * x * x - h * h.
Proof.
  intros Hh. unfold cs_quotient, cs_env. cbn [evalC cpow Nat.eqb].
  change (Pos.to_nat 3) with 3%nat. cbn [cpow_nat cmul fst snd]. field. exact Hh.
Qed.

(* non-vacuity *)
Example cs_premises_satisfiable :
  cs_frag (EDiv (EPow (EVar 0) (-2)) (EAdd (EVar 1) (ECst 1))) = true /\
  defined (env_of_list [2; 3]) (EDiv (EPow (EVar 0) (-2)) (EAdd (EVar 1) (ECst 1))).
Proof.
  split. reflexivity.
  cbn [defined evalR env_of_list nth]. unfold Q2R; simpl.
  repeat split; try lra; try (right; lra).
Qed.
