(* C14 — ExecComp.  The expression language is the shared Expr/Expr.v (the table of function
   names is regenerated from exec_comp.py's _expr_dict into GenFuncs.v).  This file models the
   array semantics of an assignment  y = e(x_0, x_1, ...) : pointwise lifting with scalar
   broadcasting, the jacobian ExecComp assembles from it (dense, has_diag_partials), and the
   reduction sum().  Definitions only. *)
From Coq Require Import Reals List Arith Bool.
From OMV Require Import Expr.Expr.
Import ListNotations.
Open Scope R_scope.

(* inputs: xs i k = value of input i at (flat) element k; a scalar input is constant in k *)
Definition inputs := nat -> nat -> R.

Definition env_at (xs : inputs) (k : nat) : env := fun i => xs i k.

(* outputs['y'][k] *)
Definition exec_out (e : expr) (xs : inputs) (k : nat) : R := evalR (env_at xs k) e.

(* perturbation of element l of an array input i / of a scalar (broadcast) input i *)
Definition pert_elem (xs : inputs) (i l : nat) (t : R) : inputs :=
  fun i' k' => if Nat.eqb i' i && Nat.eqb k' l then t else xs i' k'.
Definition pert_scalar (xs : inputs) (i : nat) (t : R) : inputs :=
  fun i' k' => if Nat.eqb i' i then t else xs i' k'.

(* dense sub-jacobian d y[k] / d x_i[l] that compute_partials fills for an array input *)
Definition jac_entry (e : expr) (xs : inputs) (i k l : nat) : R :=
  if Nat.eqb k l then evalR (env_at xs k) (D i e) else 0.

(* column d y[k] / d x_i for a scalar input; also the has_diag_partials vector *)
Definition jac_diag (e : expr) (xs : inputs) (i k : nat) : R := evalR (env_at xs k) (D i e).

(* y = sum(e) over n elements *)
Fixpoint sum_upto (f : nat -> R) (n : nat) : R :=
  match n with O => 0 | S m => sum_upto f m + f m end.
Definition exec_sum (e : expr) (xs : inputs) (n : nat) : R := sum_upto (exec_out e xs) n.

(* concrete inputs from literal lists (used by the generated goals): a list of length 1 is a
   scalar and broadcasts *)
Definition inputs_of_lists (ls : list (list R)) : inputs :=
  fun i k => let v := nth i ls [] in
             match v with [x] => x | _ => nth k v 0 end.
