(* C14 — ExecComp.  The expression language is the shared Expr/Expr.v (the table of function
   names is regenerated from exec_comp.py's _expr_dict into GenFuncs.v).  This file models the
   array semantics of an assignment  y = e(x_0, x_1, ...) : pointwise lifting with scalar
   broadcasting, the jacobian ExecComp assembles from it (dense, has_diag_partials), and the
   reduction sum().  Definitions only. *)
From Coq Require Import Reals QArith Qreals ZArith List Arith Bool.
From OMV Require Import Expr.Expr.
Import ListNotations.
Open Scope R_scope.

(* inputs: xs i k = value of input i at (flat) element k; a scalar input is constant in k *)
Definition inputs := nat -> nat -> R.

Definition env_at (xs : inputs) (k : nat) : env := fun i => xs i k.

(* outputs['y'][k] *)
Definition exec_out (e : expr) (xs : inputs) (k : nat) : R := evalR (env_at xs k) e.

(* perturbation of element l of an array input i / of a scalar (broadcast) input i *)
Definition pert_elem (xs : inputs) (i l : nat) (t : R) : inputs :=
  fun i' k' => if Nat.eqb i' i && Nat.eqb k' l then t else xs i' k'.
Definition pert_scalar (xs : inputs) (i : nat) (t : R) : inputs :=
  fun i' k' => if Nat.eqb i' i then t else xs i' k'.

(* dense sub-jacobian d y[k] / d x_i[l] that compute_partials fills for an array input *)
Definition jac_entry (e : expr) (xs : inputs) (i k l : nat) : R :=
  if Nat.eqb k l then evalR (env_at xs k) (D i e) else 0.

(* column d y[k] / d x_i for a scalar input; also the has_diag_partials vector *)
Definition jac_diag (e : expr) (xs : inputs) (i k : nat) : R := evalR (env_at xs k) (D i e).

(* y = sum(e) over n elements *)
Fixpoint sum_upto (f : nat -> R) (n : nat) : R :=
  match n with O => 0 | S m => sum_upto f m + f m end.
Definition exec_sum (e : expr) (xs : inputs) (n : nat) : R := sum_upto (exec_out e xs) n.

(* concrete inputs from literal lists (used by the generated goals): a list of length 1 is a
   scalar and broadcasts *)
Definition inputs_of_lists (ls : list (list R)) : inputs :=
  fun i k => let v := nth i ls [] in
             match v with [x] => x | _ => nth k v 0 end.

(* ------------------------------------------------------------------ complex-step evaluation *)
(* ExecComp.compute_partials evaluates the expression on x + i*h*e_v in COMPLEX arithmetic and
   returns imag(y) / h.  Complex numbers as pairs of reals; the polynomial / rational fragment
   (variables, constants, + - * /, integer powers) is modelled, with the same total division
   convention as evalR. *)
Definition Cx : Type := (R * R)%type.
Definition cadd (z w : Cx) : Cx := (fst z + fst w, snd z + snd w).
Definition cneg (z : Cx) : Cx := (- fst z, - snd z).
Definition csub (z w : Cx) : Cx := (fst z - fst w, snd z - snd w).
Definition cmul (z w : Cx) : Cx :=
  (fst z * fst w - snd z * snd w, fst z * snd w + snd z * fst w).
Definition cinv (z : Cx) : Cx :=
  let n := fst z * fst z + snd z * snd z in (fst z / n, - snd z / n).
Definition cdiv (z w : Cx) : Cx := cmul z (cinv w).
Fixpoint cpow_nat (z : Cx) (k : nat) : Cx :=
  match k with O => (1, 0) | S k' => cmul z (cpow_nat z k') end.
Definition cpow (z : Cx) (n : Z) : Cx :=
  match n with
  | Z0 => (1, 0)
  | Zpos p => cpow_nat z (Pos.to_nat p)
  | Zneg p => cinv (cpow_nat z (Pos.to_nat p))
  end.

(* expressions of the fragment; everything else evaluates to (0, 0) and is excluded by cs_frag *)
Fixpoint evalC (rho : nat -> Cx) (e : expr) : Cx :=
  match e with
  | EVar i   => rho i
  | ECst q   => (Q2R q, 0)
  | ENeg a   => cneg (evalC rho a)
  | EAdd a b => cadd (evalC rho a) (evalC rho b)
  | ESub a b => csub (evalC rho a) (evalC rho b)
  | EMul a b => cmul (evalC rho a) (evalC rho b)
  | EDiv a b => cdiv (evalC rho a) (evalC rho b)
  | EPow a n => cpow (evalC rho a) n
  | _ => (0, 0)
  end.

Fixpoint cs_frag (e : expr) : bool :=
  match e with
  | EVar _ | ECst _ => true
  | ENeg a | EPow a _ => cs_frag a
  | EAdd a b | ESub a b | EMul a b | EDiv a b => cs_frag a && cs_frag b
  | _ => false
  end.

(* the complex-step environment: input v perturbed by i*h *)
Definition cs_env (x : env) (v : nat) (h : R) : nat -> Cx :=
  fun j => (x j, if Nat.eqb j v then h else 0).

(* what compute_partials stores: imag(e(x + i h e_v)) / h *)
Definition cs_quotient (e : expr) (x : env) (v : nat) (h : R) : R :=
  snd (evalC (cs_env x v h) e) / h.
