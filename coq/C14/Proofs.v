(* C14 — proofs: the jacobian ExecComp assembles is the derivative of its outputs. *)
From Coq Require Import Reals List Arith Bool Lia Lra.
From Coquelicot Require Import Coquelicot.
From OMV Require Import Expr.Expr Expr.ExprProofs C14.Model.
Import ListNotations.
Open Scope R_scope.

Lemma env_pert_elem_same xs i k t j :
  env_at (pert_elem xs i k t) k j = upd (env_at xs k) i t j.
Proof.
  unfold env_at, pert_elem, upd. rewrite Nat.eqb_refl, andb_true_r. reflexivity.
Qed.

Lemma env_pert_elem_other xs i k l t j : k <> l -> env_at (pert_elem xs i l t) k j = env_at xs k j.
Proof.
  intros H. unfold env_at, pert_elem. apply Nat.eqb_neq in H. rewrite H, andb_false_r. reflexivity.
Qed.

Lemma env_pert_scalar xs i k t j : env_at (pert_scalar xs i t) k j = upd (env_at xs k) i t j.
Proof. reflexivity. Qed.

(* array input: d y[k] / d x_i[l] is D_i e at element k on the diagonal and 0 off it *)
Theorem exec_partial_elem e xs i k l :
  smooth (env_at xs k) e ->
  is_derive (fun t => exec_out e (pert_elem xs i l t) k) (xs i l) (jac_entry e xs i k l).
Proof.
  intros Hs. unfold exec_out, jac_entry.
  destruct (Nat.eqb k l) eqn:E.
  - apply Nat.eqb_eq in E. subst l.
    apply is_derive_ext with (f := fun t => evalR (upd (env_at xs k) i t) e).
    { intros t. apply evalR_ext. intros j. symmetry. apply env_pert_elem_same. }
    exact (D_correct e (env_at xs k) i Hs).
  - apply Nat.eqb_neq in E.
    apply is_derive_ext with (f := fun _ : R => evalR (env_at xs k) e).
    { intros t. apply evalR_ext. intros j. symmetry. now apply env_pert_elem_other. }
    apply @is_derive_const.
Qed.

(* scalar (broadcast) input: column of D_i e *)
Theorem exec_partial_scalar e xs i k :
  smooth (env_at xs k) e ->
  is_derive (fun t => exec_out e (pert_scalar xs i t) k) (xs i k) (jac_diag e xs i k).
Proof.
  intros Hs. unfold exec_out, jac_diag.
  apply is_derive_ext with (f := fun t => evalR (upd (env_at xs k) i t) e).
  { intros t. apply evalR_ext. intros j. symmetry. apply env_pert_scalar. }
  exact (D_correct e (env_at xs k) i Hs).
Qed.

(* has_diag_partials: the stored vector is the diagonal of the dense jacobian, whose
   off-diagonal entries are all zero *)
Theorem diag_partials_correct e xs i k l :
  jac_entry e xs i k l = if Nat.eqb k l then jac_diag e xs i k else 0.
Proof. reflexivity. Qed.

(* y = sum(e): d y / d x_i[l] = D_i e at element l *)
Lemma sum_upto_indicator (g : nat -> R) l n :
  sum_upto (fun k => if Nat.eqb k l then g k else 0) n = if Nat.ltb l n then g l else 0.
Proof.
  induction n; cbn [sum_upto]. reflexivity.
  rewrite IHn. destruct (Nat.eqb n l) eqn:E.
  - apply Nat.eqb_eq in E. subst. rewrite Nat.ltb_irrefl.
    replace (l <? S l)%nat with true by (symmetry; apply Nat.ltb_lt; lia). ring.
  - apply Nat.eqb_neq in E. destruct (Nat.ltb l n) eqn:L.
    + apply Nat.ltb_lt in L. replace (l <? S n)%nat with true by (symmetry; apply Nat.ltb_lt; lia). ring.
    + apply Nat.ltb_ge in L. replace (l <? S n)%nat with false by (symmetry; apply Nat.ltb_ge; lia). ring.
Qed.

Lemma is_derive_sum_upto (f : nat -> R -> R) (d : nat -> R) x n :
  (forall k, (k < n)%nat -> is_derive (f k) x (d k)) ->
  is_derive (fun t => sum_upto (fun k => f k t) n) x (sum_upto d n).
Proof.
  induction n; intros H; cbn [sum_upto].
  - apply @is_derive_const.
  - apply @is_derive_plus. apply IHn. intros; apply H; lia. apply H; lia.
Qed.

Theorem exec_sum_partial e xs i l n :
  (l < n)%nat -> (forall k, (k < n)%nat -> smooth (env_at xs k) e) ->
  is_derive (fun t => exec_sum e (pert_elem xs i l t) n) (xs i l) (jac_diag e xs i l).
Proof.
  intros Hl Hs. unfold exec_sum.
  evar_last.
  apply (is_derive_sum_upto (fun k t => exec_out e (pert_elem xs i l t) k)
                            (fun k => jac_entry e xs i k l)).
  intros k Hk. apply exec_partial_elem. now apply Hs.
  unfold jac_entry, jac_diag.
  rewrite (sum_upto_indicator (fun k => evalR (env_at xs k) (D i e)) l n).
  replace (l <? n)%nat with true by (symmetry; apply Nat.ltb_lt; lia). reflexivity.
Qed.
