(* C28 -- linear-algebra cores of the surrogate models. *)
From Coq Require Import ZArith QArith Qabs List Bool Lia Lqa Field Qfield.
From OMV Require Import Base.Val C28.Model.
Import ListNotations.
Open Scope Q_scope.

(* ------------------------------------------------------------------ dot products *)

Lemma dot_nil_r l : dotq l [] = 0.
Proof. destruct l; reflexivity. Qed.

Lemma dot_comm a : forall b, dotq a b == dotq b a.
Proof.
  induction a as [| x a IH]; intros [| y b]; simpl; try reflexivity.
  rewrite IH. ring.
Qed.

Lemma dot_addv p : forall q h, dotq (addv p q) h == dotq p h + dotq q h.
Proof.
  induction p as [| a p IH]; intros q h.
  - simpl. ring.
  - destruct q as [| b q].
    + simpl addv. rewrite (dot_comm []). simpl. rewrite dot_nil_r. ring.
    + destruct h as [| c h]; simpl; [ring |]. rewrite IH. ring.
Qed.

Lemma dot_scale a l : forall b, dotq (map (Qmult a) l) b == a * dotq l b.
Proof.
  induction l as [| x l IH]; intros [| y b]; simpl; try ring. rewrite IH. ring.
Qed.

Lemma dot_app l1 : forall l2 b,
  dotq (l1 ++ l2) b == dotq l1 (firstn (length l1) b) + dotq l2 (skipn (length l1) b).
Proof.
  induction l1 as [| x l1 IH]; intros l2 b.
  - simpl. ring.
  - destruct b as [| y b].
    + simpl. rewrite !dot_nil_r. ring.
    + simpl. rewrite IH. ring.
Qed.

Lemma dot_firstn x : forall b, dotq x (firstn (length x) b) == dotq x b.
Proof.
  induction x as [| a x IH]; intros [| y b]; simpl; try reflexivity. rewrite IH. reflexivity.
Qed.

Lemma addv_length p : forall q, length p = length q -> length (addv p q) = length p.
Proof.
  induction p as [| a p IH]; intros [| b q] H; simpl in *; try discriminate; auto.
Qed.

(* ------------------------------------------------------------------ ResponseSurface.linearize *)

(* second-order part: Q(x + h) = Q(x) + lin_quad(x).h + Q(h) *)
Lemma quad_taylor : forall x h boff, length x = length h ->
  dotq (quad_terms (addv x h)) boff ==
  dotq (quad_terms x) boff + dotq (lin_quad x boff) h + dotq (quad_terms h) boff.
Proof.
  induction x as [| a t IH]; intros h boff Hl.
  - destruct h; [| discriminate]. simpl. ring.
  - destruct h as [| c u]; [discriminate |]. simpl in Hl. injection Hl as Hl.
    assert (Ht : length (addv t u) = length t) by now apply addv_length.
    change (addv (a :: t) (c :: u)) with ((a + c) :: addv t u).
    cbn [quad_terms lin_quad].
    rewrite !dot_app. rewrite !map_length. cbn [length]. rewrite Ht, <- Hl.
    set (n := S (length t)).
    set (blk := firstn n boff). set (rest := skipn n boff).
    rewrite (IH u rest Hl).
    rewrite !dot_scale.
    change ((a + c) :: addv t u) with (addv (a :: t) (c :: u)).
    rewrite (dot_addv (a :: t) (c :: u) blk).
    rewrite (dot_addv (map (Qmult a) blk)).
    rewrite dot_scale.
    change (dotq (dotq (a :: t) blk :: lin_quad t rest) (c :: u))
      with (dotq (a :: t) blk * c + dotq (lin_quad t rest) u).
    rewrite (dot_comm blk (c :: u)).
    ring.
Qed.

(* ResponseSurface.linearize is the derivative of ResponseSurface.predict: exact second-order expansion,
   for every dimension, every coefficient vector, every point and every increment. *)
Lemma skipn_S_1 {A} n (l : list A) : skipn (S n) l = skipn n (skipn 1 l).
Proof. destruct l; simpl; [now rewrite skipn_nil | reflexivity]. Qed.

Theorem rs_linearize_is_derivative : forall betas x h, length x = length h ->
  rs_predict betas (addv x h) ==
  rs_predict betas x + dotq (rs_linearize betas x) h
  + dotq (quad_terms h) (skipn (S (length x)) betas).
Proof.
  intros betas x h Hl. unfold rs_predict, design, rs_linearize.
  assert (Ha : length (addv x h) = length x) by now apply addv_length.
  rewrite skipn_S_1. set (bs := skipn 1 betas).
  change (1 :: addv x h ++ quad_terms (addv x h)) with ([1] ++ (addv x h ++ quad_terms (addv x h))).
  change (1 :: x ++ quad_terms x) with ([1] ++ (x ++ quad_terms x)).
  rewrite (dot_app [1]). rewrite (dot_app [1] (x ++ quad_terms x)).
  cbn [length]. fold bs.
  rewrite !dot_app. rewrite Ha.
  rewrite (quad_taylor x h (skipn (length x) bs) Hl).
  rewrite (dot_addv x h). rewrite (dot_addv (firstn (length x) bs)).
  rewrite (dot_comm (firstn (length x) bs) h).
  rewrite ?(skipn_S_1 (length x) betas). fold bs.
  ring.
Qed.

(* ------------------------------------------------------------------ least squares, given a certified fit *)

Fixpoint subv (p q : list Q) : list Q :=
  match p, q with
  | a :: p', b :: q' => (a - b) :: subv p' q'
  | [], _ => map Qopp q
  | _, [] => p
  end.

Lemma dot_opp r : forall q, dotq r (map Qopp q) == - dotq r q.
Proof. induction r as [| x r IH]; intros [| y q]; simpl; try ring. rewrite IH. ring. Qed.

Lemma dot_subv r : forall p q, dotq r (subv p q) == dotq r p - dotq r q.
Proof.
  induction r as [| x r IH]; intros p q.
  - simpl. ring.
  - destruct p as [| a p], q as [| b q]; simpl; try ring.
    + rewrite dot_opp. ring.
    + rewrite IH. ring.
Qed.

(* the training inputs determine a quadratic: a coefficient vector that vanishes on them vanishes everywhere *)
Definition unisolvent (n : nat) (train : list (list Q)) : Prop :=
  forall d, (forall x, In x train -> dotq (design x) d == 0) ->
            forall x, length x = n -> dotq (design x) d == 0.

(* partial: if the returned coefficients fit the training data of a quadratic exactly (certified by the
   residual) on a unisolvent training set, the response surface IS that quadratic.  Not proved: that the
   least-squares solve returns an exact fit whenever one exists (normal equations). *)
Theorem rs_reproduces_quadratic_partial : forall n train betas bstar,
  unisolvent n train ->
  (forall x, In x train -> rs_predict betas x == rs_predict bstar x) ->
  forall x, length x = n -> rs_predict betas x == rs_predict bstar x.
Proof.
  intros n train betas bstar U H x Hx. unfold rs_predict in *.
  assert (E : dotq (design x) (subv betas bstar) == 0).
  { apply U; auto. intros x' Hin. rewrite dot_subv, (H x' Hin). ring. }
  rewrite dot_subv in E. lra.
Qed.

(* ------------------------------------------------------------------ weighted nearest neighbours *)

Lemma Qeqb0_true d : Qeqb0 d = true <-> d == 0.
Proof. unfold Qeqb0. apply Qeq_bool_iff. Qed.

Definition nonzero (d : Q) : Prop := ~ d == 0.

Lemma ind_nonzero ds : Forall nonzero ds -> map (fun d => if Qeqb0 d then 1 else 0) ds = map (fun _ => 0) ds.
Proof.
  induction 1 as [| d ds Hd H IH]; simpl; [reflexivity |]. rewrite IH.
  destruct (Qeqb0 d) eqn:E; [apply Qeqb0_true in E; contradiction | reflexivity].
Qed.

Lemma dot_zeros vs : forall (ds : list Q), dotq vs (map (fun _ => 0) ds) == 0.
Proof. induction vs as [| v vs IH]; intros [| d ds]; simpl; try reflexivity. rewrite IH. ring. Qed.

Lemma sum_zeros (ds : list Q) : sumq (map (fun _ => 0) ds) == 0.
Proof.
  induction ds as [| d ds IH]; [reflexivity |].
  change (sumq (map (fun _ : Q => 0) (d :: ds))) with (0 + sumq (map (fun _ : Q => 0) ds)).
  rewrite IH. ring.
Qed.

Lemma sumq_app a b : sumq (a ++ b) == sumq a + sumq b.
Proof.
  induction a as [| x a IH].
  - change (sumq ([] ++ b)) with (sumq b). change (sumq []) with 0. ring.
  - change (sumq ((x :: a) ++ b)) with (x + sumq (a ++ b)). change (sumq (x :: a)) with (x + sumq a).
    rewrite IH. ring.
Qed.

Lemma dot_prefix0 : forall vs (ds rest : list Q),
  length ds = length vs -> dotq vs (map (fun _ => 0) ds ++ rest) == 0.
Proof.
  induction vs as [| v vs IH]; intros ds rest H; [reflexivity |].
  destruct ds as [| d ds]; [discriminate |]. simpl in *. rewrite IH by lia. ring.
Qed.

Lemma skipn_app_len {A} (l1 l2 : list A) : forall n, n = length l1 -> skipn n (l1 ++ l2) = l2.
Proof. induction l1 as [| a l1 IH]; intros n ->; simpl; auto. Qed.

(* A query at zero distance from exactly one of its neighbours returns that neighbour's value, whatever
   the other neighbours, the exponent and the scaling are. *)
Theorem nn_weighted_interpolates : forall p ds1 d ds2 vs1 v vs2 tvr tvm,
  length ds1 = length vs1 -> d == 0 -> Forall nonzero ds1 -> Forall nonzero ds2 ->
  nn_weighted p (ds1 ++ d :: ds2) (vs1 ++ v :: vs2) tvr tvm == v * tvr + tvm.
Proof.
  intros p ds1 d ds2 vs1 v vs2 tvr tvm Hl Hd H1 H2. unfold nn_weighted, nn_weights.
  assert (E : existsb Qeqb0 (ds1 ++ d :: ds2) = true).
  { apply existsb_exists. exists d. split; [apply in_or_app; right; left; reflexivity | now apply Qeqb0_true]. }
  rewrite E. rewrite map_app. cbn [map].
  assert (Ed : Qeqb0 d = true) by now apply Qeqb0_true. rewrite Ed.
  rewrite (ind_nonzero ds1 H1), (ind_nonzero ds2 H2).
  rewrite dot_app. rewrite sumq_app.
  change (sumq (1 :: map (fun _ : Q => 0) ds2)) with (1 + sumq (map (fun _ : Q => 0) ds2)).
  rewrite !sum_zeros.
  rewrite dot_firstn, dot_prefix0 by auto.
  rewrite skipn_app_len by (now rewrite map_length).
  cbn [dotq]. rewrite dot_zeros. field.
Qed.

(* training outputs are stored normalised: v = (y - tvm)/tvr *)
Corollary nn_weighted_training_output : forall p ds1 d ds2 vs1 vs2 y tvr tvm,
  length ds1 = length vs1 -> d == 0 -> Forall nonzero ds1 -> Forall nonzero ds2 -> ~ tvr == 0 ->
  nn_weighted p (ds1 ++ d :: ds2) (vs1 ++ ((y - tvm) / tvr) :: vs2) tvr tvm == y.
Proof.
  intros. rewrite nn_weighted_interpolates; auto. field. auto.
Qed.

(* ------------------------------------------------------------------ kriging *)

Lemma matvec_nth R a i : (i < length R)%nat -> nth i (matvec R a) 0 = dotq (nth i R []) a.
Proof.
  intros H. unfold matvec.
  rewrite (nth_indep _ 0 (dotq [] a)) by (rewrite map_length; lia).
  apply (map_nth (fun row => dotq row a)).
Qed.

(* For ANY correlation matrix R (any kernel values): if alpha solves R alpha = Y (certified by the
   residual) and the correlation vector of the i-th training input is the i-th row of R (zero nugget),
   the prediction at that input is the training output. *)
Theorem kriging_interpolates : forall (R : list (list Q)) (alpha Yn : list Q) (ymean ystd y : Q) (i : nat),
  (i < length R)%nat ->
  nth i (matvec R alpha) 0 == nth i Yn 0 ->
  ~ ystd == 0 -> nth i Yn 0 == (y - ymean) / ystd ->
  krig_predict ymean ystd (nth i R []) alpha == y.
Proof.
  intros R alpha Yn ymean ystd y i Hi Hs Hstd Hy. unfold krig_predict.
  rewrite <- matvec_nth by auto. rewrite Hs, Hy. field. auto.
Qed.

(* non-vacuity *)
Example unisolvent_example : unisolvent 1 [[0]; [1]; [-1 # 1]].
Proof.
  intros d H x Hx. destruct x as [| t [| ? ?]]; try discriminate.
  pose proof (H [0] (or_introl eq_refl)) as H0.
  pose proof (H [1] (or_intror (or_introl eq_refl))) as H1.
  pose proof (H [-1 # 1] (or_intror (or_intror (or_introl eq_refl)))) as H2.
  unfold design in *. simpl in *.
  destruct d as [| d0 [| d1 [| d2 d]]]; simpl in *; try lra.
  - ring_simplify. ring_simplify in H0. ring_simplify in H1. ring_simplify in H2.
    assert (d0 == 0) by lra. assert (d1 == 0) by lra.
    rewrite H3, H4. ring.
  - ring_simplify in H0. ring_simplify in H1. ring_simplify in H2.
    assert (E0 : d0 == 0) by lra. assert (E1 : d1 == 0) by lra. assert (E2 : d2 == 0) by lra.
    rewrite E0, E1, E2. ring.
Qed.

(* ------------------------------------------------------------------ least squares *)

(* sum of squared residuals  sum_i (row_i . b - y_i)^2  (rows and data paired up to the shorter list) *)
Fixpoint sse (X : list (list Q)) (y b : list Q) : Q :=
  match X, y with
  | row :: X', yi :: y' => (dotq row b - yi) * (dotq row b - yi) + sse X' y' b
  | _, _ => 0
  end.

Definition fits (X : list (list Q)) (y b : list Q) : Prop :=
  Forall2 (fun row yi => dotq row b == yi) X y.

Lemma sq_nonneg (a : Q) : 0 <= a * a.
Proof. destruct (Qlt_le_dec a 0); nra. Qed.

Lemma sse_nonneg X : forall y b, 0 <= sse X y b.
Proof.
  induction X as [| row X IH]; intros [| yi y] b; simpl; try lra.
  pose proof (sq_nonneg (dotq row b - yi)). pose proof (IH y b). lra.
Qed.

Lemma sse_fits X : forall y b, fits X y b -> sse X y b == 0.
Proof.
  induction X as [| row X IH]; intros y b H; inversion H; subst; simpl; [reflexivity |].
  rewrite (IH _ _ H4), H2. ring.
Qed.

Lemma sse_zero_fits X : forall y b, length X = length y -> sse X y b <= 0 -> fits X y b.
Proof.
  induction X as [| row X IH]; intros [| yi y] b Hl H; simpl in *; try discriminate; constructor.
  - pose proof (sq_nonneg (dotq row b - yi)). pose proof (sse_nonneg X y b).
    assert (E : (dotq row b - yi) * (dotq row b - yi) == 0) by lra.
    apply Qmult_integral in E. destruct E; lra.
  - apply IH; [lia |]. pose proof (sq_nonneg (dotq row b - yi)). pose proof (sse_nonneg X y b). lra.
Qed.

(* A least-squares solution (a minimiser of the sum of squared residuals -- what lstsq returns) fits the
   data exactly whenever an exact fit exists. *)
Theorem lsq_minimiser_fits : forall X y b bstar,
  length X = length y -> fits X y bstar ->
  (forall b', sse X y b <= sse X y b') ->
  fits X y b.
Proof.
  intros X y b bstar Hl Hs Hmin. apply sse_zero_fits; auto.
  rewrite <- (sse_fits X y bstar Hs). apply Hmin.
Qed.

(* the same from the normal equations X^T (X b - y) = 0 *)
Fixpoint resid (X : list (list Q)) (y b : list Q) : list Q :=
  match X, y with
  | row :: X', yi :: y' => (dotq row b - yi) :: resid X' y' b
  | _, _ => []
  end.

(* X^T r = sum_i r_i row_i *)
Fixpoint xtr (X : list (list Q)) (r : list Q) : list Q :=
  match X, r with
  | row :: X', ri :: r' => addv (map (Qmult ri) row) (xtr X' r')
  | _, _ => []
  end.

Definition normal_equations (X : list (list Q)) (y b : list Q) : Prop :=
  Forall (fun q => q == 0) (xtr X (resid X y b)).

Lemma dot_allzero l : Forall (fun q => q == 0) l -> forall d, dotq l d == 0.
Proof.
  induction 1 as [| q l Hq H IH]; intros [| e d]; simpl; try reflexivity. rewrite Hq, IH. ring.
Qed.

Fixpoint wsum (r : list Q) (X : list (list Q)) (d : list Q) : Q :=   (* sum_i r_i (row_i . d) *)
  match X, r with
  | row :: X', ri :: r' => ri * dotq row d + wsum r' X' d
  | _, _ => 0
  end.

Lemma dot_xtr X : forall r d, dotq (xtr X r) d == wsum r X d.
Proof.
  induction X as [| row X IH]; intros [| ri r] d; simpl; try reflexivity.
  rewrite dot_addv, dot_scale, IH. reflexivity.
Qed.

Lemma sse_as_wsum X : forall y b bstar, fits X y bstar ->
  sse X y b == wsum (resid X y b) X (subv b bstar).
Proof.
  induction X as [| row X IH]; intros y b bstar H; inversion H; subst; simpl; [reflexivity |].
  rewrite (IH _ b bstar H4). rewrite dot_subv, H2. ring.
Qed.

Theorem normal_equations_fit : forall X y b bstar,
  length X = length y -> fits X y bstar -> normal_equations X y b -> fits X y b.
Proof.
  intros X y b bstar Hl Hs Hn. apply sse_zero_fits; auto.
  rewrite (sse_as_wsum X y b bstar Hs), <- dot_xtr.
  rewrite (dot_allzero _ Hn). lra.
Qed.

(* ResponseSurface reproduces any quadratic: training inputs xs that determine a quadratic (full column
   rank of the design matrix), responses of a quadratic with coefficients bstar, coefficients b returned by a
   least-squares solve (minimiser, or solution of the normal equations) => the surrogate IS the quadratic. *)
Definition design_matrix (xs : list (list Q)) : list (list Q) := map design xs.

Lemma fits_design xs : forall b ys, fits (design_matrix xs) ys b ->
  ys = ys -> Forall2 (fun x yi => rs_predict b x == yi) xs ys.
Proof.
  induction xs as [| x xs IH]; intros b ys H _; inversion H; subst; constructor; auto.
Qed.

Lemma fits_quadratic xs bstar : fits (design_matrix xs) (map (rs_predict bstar) xs) bstar.
Proof. induction xs; simpl; constructor; auto. reflexivity. Qed.

Lemma fits_same_predictions xs : forall b bstar,
  fits (design_matrix xs) (map (rs_predict bstar) xs) b ->
  forall x, In x xs -> rs_predict b x == rs_predict bstar x.
Proof.
  induction xs as [| x0 xs IH]; intros b bstar H x Hin; [destruct Hin |].
  simpl in H. inversion H; subst. destruct Hin as [<- | Hin]; [exact H3 | eapply IH; eauto].
Qed.

Theorem rs_reproduces_quadratic : forall n xs b bstar,
  unisolvent n xs ->
  (forall b', sse (design_matrix xs) (map (rs_predict bstar) xs) b
              <= sse (design_matrix xs) (map (rs_predict bstar) xs) b') ->
  forall x, length x = n -> rs_predict b x == rs_predict bstar x.
Proof.
  intros n xs b bstar U Hmin x Hx.
  apply (rs_reproduces_quadratic_partial n xs b bstar U); auto.
  apply fits_same_predictions.
  eapply lsq_minimiser_fits; eauto using fits_quadratic.
  unfold design_matrix. now rewrite !map_length.
Qed.

Theorem rs_reproduces_quadratic_normal_eq : forall n xs b bstar,
  unisolvent n xs ->
  normal_equations (design_matrix xs) (map (rs_predict bstar) xs) b ->
  forall x, length x = n -> rs_predict b x == rs_predict bstar x.
Proof.
  intros n xs b bstar U Hn x Hx.
  apply (rs_reproduces_quadratic_partial n xs b bstar U); auto.
  apply fits_same_predictions.
  eapply normal_equations_fit; eauto using fits_quadratic.
  unfold design_matrix. now rewrite !map_length.
Qed.

(* non-vacuity: the quadratic's own coefficients are a least-squares solution *)
Example lsq_example : forall xs bstar b',
  sse (design_matrix xs) (map (rs_predict bstar) xs) bstar
  <= sse (design_matrix xs) (map (rs_predict bstar) xs) b'.
Proof.
  intros. rewrite (sse_fits _ _ _ (fits_quadratic xs bstar)). apply sse_nonneg.
Qed.
