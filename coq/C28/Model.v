(* C28 -- surrogate models (openmdao/surrogate_models): executable model over Q of the linear-algebra cores.
     ResponseSurface.train (design matrix row), predict, linearize           -> [design] [rs_predict] [rs_linearize]
     WeightedInterpolator._get_weights / __call__ (given the neighbours)     -> [nn_weights] [nn_weighted]
     KrigingSurrogate.predict for given correlation vector and alpha          -> [krig_predict]
   LAPACK (lstsq, svd), the KD-tree query, exp() and the hyper-parameter optimiser are oracles: their results
   are read back from the real code on every case.  Definitions only. *)
From Coq Require Import ZArith QArith Qabs List Bool.
From OMV Require Import Base.Val.
Import ListNotations.
Open Scope Q_scope.

Fixpoint dotq (ws vs : list Q) : Q :=
  match ws, vs with
  | w :: ws', v :: vs' => w * v + dotq ws' vs'
  | _, _ => 0
  end.

(* element-wise sum, keeping the tail of the longer list *)
Fixpoint addv (p q : list Q) : list Q :=
  match p, q with
  | a :: p', b :: q' => (a + b) :: addv p' q'
  | [], _ => q
  | _, [] => p
  end.

(* X_offset[:, :n-i] = x[:, i] * x[:, i:]  for i = 0 .. n-1 *)
Fixpoint quad_terms (x : list Q) : list Q :=
  match x with
  | [] => []
  | a :: t => map (Qmult a) (a :: t) ++ quad_terms t
  end.

(* one row of the design matrix: [1, x_0..x_{n-1}, x_0 x_0, x_0 x_1, .., x_1 x_1, ..] *)
Definition design (x : list Q) : list Q := 1 :: x ++ quad_terms x.

Definition rs_predict (betas x : list Q) : Q := dotq (design x) betas.

(* the loop of ResponseSurface.linearize: for i: jac[i] += x[i:].beta_offset[:n-i];
   jac[i:] += x[i]*beta_offset[:n-i]; beta_offset = beta_offset[n-i:]   (entries for positions i.. ) *)
Fixpoint lin_quad (x boff : list Q) : list Q :=
  match x with
  | [] => []
  | a :: t =>
      let n := length x in
      let blk := firstn n boff in
      addv (map (Qmult a) blk) (dotq x blk :: lin_quad t (skipn n boff))
  end.

Definition rs_linearize (betas x : list Q) : list Q :=
  let n := length x in
  addv (firstn n (skipn 1 betas)) (lin_quad x (skipn (S n) betas)).

Definition run_rs (betas x : list Q) : val :=
  VL [VQ (Qred (rs_predict betas x)); vqs (map Qred (rs_linearize betas x))].

(* ---- distance weighted nearest neighbours: weights = 1/dist**p; rows with an infinite weight become
        the indicator of the zero distances *)
Definition Qeqb0 (d : Q) : bool := Qeq_bool d 0.

Definition nn_weights (p : positive) (ds : list Q) : list Q :=
  if existsb Qeqb0 ds then map (fun d => if Qeqb0 d then 1 else 0) ds
  else map (fun d => 1 / Qpower_positive d p) ds.

Definition sumq (l : list Q) : Q := fold_right Qplus 0 l.

(* ((sum_j w_j v_j) / sum_j w_j) * tvr + tvm  on normalised values v *)
Definition nn_weighted (p : positive) (ds vs : list Q) (tvr tvm : Q) : Q :=
  let w := nn_weights p ds in
  (dotq vs w / sumq w) * tvr + tvm.

Definition run_nnw (p : positive) (ds vs : list Q) (tvr tvm : Q) : val :=
  VQ (Qred (nn_weighted p ds vs tvr tvm)).

(* ---- kriging: y = Y_mean + Y_std * (r . alpha) *)
Definition krig_predict (ymean ystd : Q) (r alpha : list Q) : Q := ymean + ystd * dotq r alpha.

Definition matvec (R : list (list Q)) (a : list Q) : list Q := map (fun row => dotq row a) R.
