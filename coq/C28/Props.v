From Coq Require Import ZArith QArith List.
From OMV Require Import Base.Val C28.Model.
Theorem C28_placeholder : True. Proof. exact I. Qed.
Print Assumptions C28_placeholder.
