(* C28 -- property theorems (statements only). *)
From Coq Require Import ZArith QArith List.
From OMV Require Import Base.Val C28.Model C28.Proofs.
Import ListNotations.
Open Scope Q_scope.

(* ResponseSurface.linearize is the derivative of ResponseSurface.predict: exact second-order expansion
   predict(x+h) = predict(x) + linearize(x).h + (pure second-order form in h), for every number of
   inputs, every coefficient vector, every point and every increment. *)
Theorem C28_rs_linearize_is_derivative : forall betas x h : list Q, length x = length h ->
  rs_predict betas (addv x h) ==
  rs_predict betas x + dotq (rs_linearize betas x) h + dotq (quad_terms h) (skipn (S (length x)) betas).
Proof. exact rs_linearize_is_derivative. Qed.
Print Assumptions C28_rs_linearize_is_derivative.

(* ResponseSurface reproduces a quadratic, given a certified fit (partial: see level_note). *)
Theorem C28_rs_reproduces_quadratic_partial : forall (n : nat) (train : list (list Q)) (betas bstar : list Q),
  unisolvent n train ->
  (forall x, In x train -> rs_predict betas x == rs_predict bstar x) ->
  forall x, length x = n -> rs_predict betas x == rs_predict bstar x.
Proof. exact rs_reproduces_quadratic_partial. Qed.
Print Assumptions C28_rs_reproduces_quadratic_partial.

(* Distance-weighted nearest neighbours return the training output at a training input. *)
Theorem C28_nn_weighted_interpolates : forall p ds1 d ds2 vs1 vs2 y tvr tvm,
  length ds1 = length vs1 -> d == 0 -> Forall nonzero ds1 -> Forall nonzero ds2 -> ~ tvr == 0 ->
  nn_weighted p (ds1 ++ d :: ds2) (vs1 ++ ((y - tvm) / tvr) :: vs2) tvr tvm == y.
Proof. exact nn_weighted_training_output. Qed.
Print Assumptions C28_nn_weighted_interpolates.

(* Kriging with zero nugget interpolates, for any kernel values, given a certified solve R alpha = Y. *)
Theorem C28_kriging_interpolates : forall (R : list (list Q)) (alpha Yn : list Q) (ymean ystd y : Q) (i : nat),
  (i < length R)%nat ->
  nth i (matvec R alpha) 0 == nth i Yn 0 ->
  ~ ystd == 0 -> nth i Yn 0 == (y - ymean) / ystd ->
  krig_predict ymean ystd (nth i R []) alpha == y.
Proof. exact kriging_interpolates. Qed.
Print Assumptions C28_kriging_interpolates.
