(* C28 -- property theorems (statements only). *)
From Coq Require Import ZArith QArith List.
From OMV Require Import Base.Val C28.Model C28.Proofs.
Import ListNotations.
Open Scope Q_scope.

(* ResponseSurface.linearize is the derivative of ResponseSurface.predict: exact second-order expansion
   predict(x+h) = predict(x) + linearize(x).h + (pure second-order form in h), for every number of
   inputs, every coefficient vector, every point and every increment. *)
Theorem C28_rs_linearize_is_derivative : forall betas x h : list Q, length x = length h ->
  rs_predict betas (addv x h) ==
  rs_predict betas x + dotq (rs_linearize betas x) h + dotq (quad_terms h) (skipn (S (length x)) betas).
Proof. exact rs_linearize_is_derivative. Qed.
Print Assumptions C28_rs_linearize_is_derivative.

(* A least-squares solution -- a minimiser of the sum of squared residuals, which is what numpy.linalg.lstsq
   returns -- fits the data exactly whenever an exact fit exists (any matrix X, any data). *)
Theorem C28_lsq_minimiser_fits : forall (X : list (list Q)) (y b bstar : list Q),
  length X = length y -> fits X y bstar ->
  (forall b', sse X y b <= sse X y b') ->
  fits X y b.
Proof. exact lsq_minimiser_fits. Qed.
Print Assumptions C28_lsq_minimiser_fits.

(* ... and so does every solution of the normal equations X^T (X b - y) = 0. *)
Theorem C28_normal_equations_fit : forall (X : list (list Q)) (y b bstar : list Q),
  length X = length y -> fits X y bstar -> normal_equations X y b -> fits X y b.
Proof. exact normal_equations_fit. Qed.
Print Assumptions C28_normal_equations_fit.

(* ResponseSurface reproduces any quadratic exactly: for every number of inputs n, training inputs xs whose
   design matrix has full column rank on quadratics ([unisolvent]), responses of the quadratic with
   coefficients bstar and coefficients b returned by a least-squares solve, predict b = the quadratic. *)
Theorem C28_rs_reproduces_quadratic : forall (n : nat) (xs : list (list Q)) (b bstar : list Q),
  unisolvent n xs ->
  (forall b', sse (design_matrix xs) (map (rs_predict bstar) xs) b
              <= sse (design_matrix xs) (map (rs_predict bstar) xs) b') ->
  forall x, length x = n -> rs_predict b x == rs_predict bstar x.
Proof. exact rs_reproduces_quadratic. Qed.
Print Assumptions C28_rs_reproduces_quadratic.

Theorem C28_rs_reproduces_quadratic_normal_eq : forall (n : nat) (xs : list (list Q)) (b bstar : list Q),
  unisolvent n xs ->
  normal_equations (design_matrix xs) (map (rs_predict bstar) xs) b ->
  forall x, length x = n -> rs_predict b x == rs_predict bstar x.
Proof. exact rs_reproduces_quadratic_normal_eq. Qed.
Print Assumptions C28_rs_reproduces_quadratic_normal_eq.

(* Distance-weighted nearest neighbours return the training output at a training input. *)
Theorem C28_nn_weighted_interpolates : forall p ds1 d ds2 vs1 vs2 y tvr tvm,
  length ds1 = length vs1 -> d == 0 -> Forall nonzero ds1 -> Forall nonzero ds2 -> ~ tvr == 0 ->
  nn_weighted p (ds1 ++ d :: ds2) (vs1 ++ ((y - tvm) / tvr) :: vs2) tvr tvm == y.
Proof. exact nn_weighted_training_output. Qed.
Print Assumptions C28_nn_weighted_interpolates.

(* Kriging with zero nugget interpolates, for any kernel values, given a certified solve R alpha = Y. *)
Theorem C28_kriging_interpolates : forall (R : list (list Q)) (alpha Yn : list Q) (ymean ystd y : Q) (i : nat),
  (i < length R)%nat ->
  nth i (matvec R alpha) 0 == nth i Yn 0 ->
  ~ ystd == 0 -> nth i Yn 0 == (y - ymean) / ystd ->
  krig_predict ymean ystd (nth i R []) alpha == y.
Proof. exact kriging_interpolates. Qed.
Print Assumptions C28_kriging_interpolates.
