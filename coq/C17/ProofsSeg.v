(* C17 — the stored coordinate string and its path components (segments between the bars). *)
From Coq Require Import ZArith List Bool Arith Ascii String Lia.
From OMV Require Import Base.Val C17.Model C17.Proofs.
Import ListNotations.
Open Scope string_scope.
Open Scope list_scope.

(* p is a prefix of s that ends where s ends or where a bar follows *)
Definition boundary_prefix (p s : list ascii) : Prop :=
  exists rest, s = p ++ rest /\ (rest = [] \/ exists r, rest = bar :: r).

Definition bnd (r : list ascii) : Prop := r = [] \/ exists r', r = bar :: r'.

Lemma bar_free_cons a x : bar_free (a :: x) = true -> a <> bar /\ bar_free x = true.
Proof.
  unfold bar_free. cbn. intros H. apply andb_true_iff in H as [H1 H2]. split; auto.
  intros ->. rewrite Ascii.eqb_refl in H1. discriminate.
Qed.

(* two bar-free segments followed by a boundary: the split is unique *)
Lemma seg_split : forall x y r1 r2,
  bar_free x = true -> bar_free y = true -> bnd r1 -> bnd r2 ->
  x ++ r1 = y ++ r2 -> x = y /\ r1 = r2.
Proof.
  induction x as [| a x IH]; intros y r1 r2 Bx By B1 B2 E.
  - destruct y as [| b y]; [split; auto |].
    apply bar_free_cons in By as [Nb _]. cbn in E. subst r1.
    destruct B1 as [B1 | [r' B1]]; [discriminate | inversion B1; contradiction].
  - apply bar_free_cons in Bx as [Na Bx].
    destruct y as [| b y].
    + cbn in E. subst r2. destruct B2 as [B2 | [r' B2]]; [discriminate | inversion B2].
      subst. contradiction.
    + apply bar_free_cons in By as [Nb By]. cbn in E. inversion E; subst.
      destruct (IH y r1 r2 Bx By B1 B2 H1) as [-> ->]. split; auto.
Qed.

Lemma seg_eqb_eq a b : seg_eqb a b = true <-> a = b.
Proof.
  revert b. induction a as [| x a IH]; destruct b as [| y b]; cbn; split; intros H; try reflexivity; try discriminate.
  - apply andb_true_iff in H as [H1 H2]. apply Ascii.eqb_eq in H1. apply IH in H2. now subst.
  - inversion H; subst. rewrite Ascii.eqb_refl. cbn. now apply IH.
Qed.

Lemma join_cons x r : join (x :: r) = x ++ match r with [] => [] | _ => bar :: join r end.
Proof. destruct r; cbn [join]; [now rewrite app_nil_r | reflexivity]. Qed.

Lemma bnd_tail (r : list (list ascii)) rest :
  bnd rest -> bnd (match r with [] => [] | _ => bar :: join r end ++ rest).
Proof. intros B. destruct r; cbn; auto. right. eauto. Qed.

Lemma bnd_tail0 (r : list (list ascii)) : bnd (match r with [] => [] | _ => bar :: join r end).
Proof. destruct r; [left; auto | right; eauto]. Qed.

(* The stored string of one coordinate is a prefix of another's ending at a component boundary
   exactly when its list of path components is a prefix of the other's -- for all component lists
   whose components contain no bar. *)
Theorem join_boundary_prefix : forall xs ys,
  xs <> [] -> ys <> [] ->
  Forall (fun x => bar_free x = true) xs -> Forall (fun y => bar_free y = true) ys ->
  (boundary_prefix (join xs) (join ys) <-> seg_prefix xs ys = true).
Proof.
  induction xs as [| x xs IH]; intros ys Nx Ny Fx Fy; [contradiction |].
  destruct ys as [| y ys]; [contradiction |].
  inversion Fx as [| ? ? Bx Fx']; subst. inversion Fy as [| ? ? By Fy']; subst.
  rewrite !join_cons. cbn [seg_prefix]. split.
  - intros [rest [E B]]. rewrite <- app_assoc in E.
    destruct (seg_split y x _ _ By Bx (bnd_tail0 ys) (bnd_tail xs rest B) E) as [-> T].
    apply andb_true_iff. split; [now apply seg_eqb_eq |].
    destruct xs as [| x2 xs]; [reflexivity |].
    destruct ys as [| y2 ys].
    + cbn in T. discriminate.
    + apply IH; auto; try discriminate.
      exists rest. split; auto. exact (f_equal (@tl ascii) T).
  - intros H. apply andb_true_iff in H as [H1 H2]. apply seg_eqb_eq in H1. subst y.
    destruct xs as [| x2 xs].
    + exists (match ys with [] => [] | _ => bar :: join ys end). split.
      * now rewrite app_nil_r.
      * apply bnd_tail0.
    + destruct ys as [| y2 ys]; [discriminate |].
      assert (boundary_prefix (join (x2 :: xs)) (join (y2 :: ys))) as [rest [E B]].
      { apply IH; auto; discriminate. }
      exists rest. split; auto. rewrite E. rewrite <- app_assoc. reflexivity.
Qed.

(* ------------------------------------------------------------------ coordinates *)

Lemma render_join c : render_comps c = join (flatten c).
Proof.
  induction c as [| [n i] r IH]; [reflexivity |].
  rewrite render_comps_cons. cbn [flatten]. rewrite join_cons.
  destruct r as [| [n2 i2] r2].
  - cbn. now rewrite app_nil_r.
  - cbn [flatten]. rewrite join_cons. rewrite IH. cbn [flatten]. rewrite join_cons. reflexivity.
Qed.

Lemma comp_prefix_seg c d : comp_prefix c d = true -> seg_prefix (flatten c) (flatten d) = true.
Proof.
  revert d. induction c as [| [n i] c IH]; intros d H; [reflexivity |].
  destruct d as [| [m j] d]; [discriminate |]. cbn [comp_prefix] in H.
  apply andb_true_iff in H as [E H]. apply comp_eqb_eq in E. inversion E; subst.
  cbn [flatten seg_prefix]. rewrite IH by auto.
  assert (forall s, seg_eqb s s = true) as R by (intros s; now apply seg_eqb_eq).
  now rewrite !R.
Qed.

(* decimal rendering can be read back, hence is injective and bar-free *)
Lemma digit_val_digit k : (k < 10)%nat -> digit_val (digit k) = k.
Proof.
  intros H. unfold digit_val, digit. rewrite nat_ascii_embedding by lia. lia.
Qed.

Lemma parse_app a b : parse (a ++ b) = fold_left (fun acc c => (10 * acc + digit_val c)%nat) b (parse a).
Proof. unfold parse. now rewrite fold_left_app. Qed.

Lemma fold_parse_shift : forall s acc,
  fold_left (fun acc c => (10 * acc + digit_val c)%nat) s acc =
  (acc * 10 ^ List.length s + parse s)%nat.
Proof.
  unfold parse. induction s as [| c s IH]; intros acc; cbn [fold_left length].
  - cbn. lia.
  - rewrite IH. rewrite (IH (10 * 0 + digit_val c)%nat). cbn [List.length Nat.pow].
    generalize (10 ^ List.length s)%nat. intros P. generalize (fold_left (fun acc0 a => (10 * acc0 + digit_val a)%nat) s 0%nat). intros Q. nia.
Qed.

Lemma parse_show_fuel : forall fuel n acc,
  (n < 10 ^ fuel)%nat -> (0 < fuel)%nat ->
  parse (show_fuel fuel n acc) = (n * 10 ^ List.length acc + parse acc)%nat.
Proof.
  induction fuel as [| f IH]; intros n acc Hn Hf; [lia |].
  cbn [show_fuel]. cbv zeta.
  assert (n = 10 * (n / 10) + n mod 10)%nat as D by (apply Nat.div_mod; lia).
  assert (n mod 10 < 10)%nat as M by (apply Nat.mod_upper_bound; lia).
  assert (parse (digit (n mod 10) :: acc) = (n mod 10 * 10 ^ List.length acc + parse acc)%nat) as P.
  { change (digit (n mod 10) :: acc) with ([digit (n mod 10)] ++ acc). rewrite parse_app.
    rewrite fold_parse_shift. unfold parse at 1. cbn [fold_left]. rewrite digit_val_digit by auto. lia. }
  destruct (n / 10 =? 0)%nat eqn:E.
  - apply Nat.eqb_eq in E. rewrite P. rewrite E in D. assert (n mod 10 = n)%nat as Hm by lia. rewrite Hm. reflexivity.
  - apply Nat.eqb_neq in E.
    destruct f as [| f'].
    + cbn in Hn. assert (n / 10 = 0)%nat by (apply Nat.div_small; lia). contradiction.
    + rewrite IH; try lia.
      * rewrite P. cbn [List.length Nat.pow].
        generalize (10 ^ List.length acc)%nat (parse acc). intros X Y.
        remember (n / 10)%nat as q. remember (n mod 10)%nat as r. rewrite D. ring.
      * change (10 ^ S (S f'))%nat with (10 * 10 ^ S f')%nat in Hn. apply Nat.div_lt_upper_bound; lia.
Qed.

Lemma pow10_gt n : (n < 10 ^ S n)%nat.
Proof.
  induction n; cbn; [lia |]. cbn in IHn. lia.
Qed.

Theorem parse_show : forall n, parse (show n) = n.
Proof.
  intros n. unfold show. rewrite parse_show_fuel; [cbn; lia | apply pow10_gt | lia].
Qed.

Corollary show_inj i j : show i = show j -> i = j.
Proof. intros H. rewrite <- (parse_show i), <- (parse_show j). now rewrite H. Qed.

Lemma seg_prefix_comp c d : seg_prefix (flatten c) (flatten d) = true -> comp_prefix c d = true.
Proof.
  revert d. induction c as [| [n i] c IH]; intros d H; [reflexivity |].
  destruct d as [| [m j] d]; [discriminate |]. cbn [flatten seg_prefix] in H.
  apply andb_true_iff in H as [E1 H]. apply andb_true_iff in H as [E2 H].
  apply seg_eqb_eq in E1, E2. apply show_inj in E2. subst j.
  cbn [comp_prefix]. rewrite IH by auto. rewrite andb_true_r.
  unfold comp_eqb. cbn [fst snd]. rewrite Nat.eqb_refl, andb_true_r.
  apply String.eqb_eq. clear - E1. revert m E1.
  induction n as [| a n IHn]; destruct m as [| b m]; cbn; intros E; try reflexivity; try discriminate.
  inversion E; subst. f_equal. now apply IHn.
Qed.

Lemma show_fuel_bar_free : forall fuel n acc, bar_free acc = true -> bar_free (show_fuel fuel n acc) = true.
Proof.
  induction fuel as [| f IH]; intros n acc H; cbn [show_fuel]; auto. cbv zeta.
  assert (bar_free (digit (n mod 10) :: acc) = true) as B.
  { unfold bar_free. cbn [forallb]. fold (bar_free acc). rewrite H, andb_true_r.
    assert (n mod 10 < 10)%nat as M by (apply Nat.mod_upper_bound; lia).
    unfold digit, bar. remember (n mod 10)%nat as k.
    do 10 (destruct k as [| k]; [reflexivity |]). lia. }
  destruct (n / 10 =? 0)%nat; auto.
Qed.

Lemma show_bar_free n : bar_free (show n) = true.
Proof. apply show_fuel_bar_free. reflexivity. Qed.

Definition names_ok (c : coord) : Prop := Forall (fun p => bar_free (chars (fst p)) = true) c.

Lemma flatten_bar_free c : names_ok c -> Forall (fun x => bar_free x = true) (flatten c).
Proof.
  induction 1 as [| [n i] c H F IH]; cbn [flatten]; constructor; auto.
  constructor; auto. apply show_bar_free.
Qed.

(* For coordinates whose names contain no bar: the stored string of c is a prefix of the stored string of d
   ending at a component boundary exactly when c is a path-component prefix of d (counts compared as numbers). *)
Theorem coord_boundary_prefix : forall pre c d,
  c <> [] -> d <> [] -> names_ok c -> names_ok d ->
  (boundary_prefix (render pre c) (render pre d) <-> comp_prefix c d = true).
Proof.
  intros pre c d Nc Nd Oc Od.
  assert (flatten c <> []) as Fc by (destruct c as [| [? ?] ?]; [contradiction | discriminate]).
  assert (flatten d <> []) as Fd by (destruct d as [| [? ?] ?]; [contradiction | discriminate]).
  pose proof (join_boundary_prefix (flatten c) (flatten d) Fc Fd (flatten_bar_free c Oc) (flatten_bar_free d Od)) as J.
  rewrite <- !render_join in J. unfold render. split.
  - intros [rest [E B]]. rewrite <- app_assoc in E. apply app_inv_head in E.
    apply seg_prefix_comp. apply J. exists rest. split; auto.
  - intros H. apply comp_prefix_seg in H. apply J in H as [rest [E B]].
    exists rest. split; auto. rewrite E. now rewrite app_assoc.
Qed.

(* ------------------------------------------------------------------ the checked invariant, restated on strings *)

(* hier_ok_at (the boolean evaluated on every real recording) says exactly: no case recorded up to the parent
   extends the parent's stored string in the middle of a component (i.e. in the middle of its last count) *)
Theorem hier_ok_at_iff_boundaries : forall pre cases i c,
  nth_error cases i = Some c -> c <> [] ->
  Forall (fun d => d <> [] /\ names_ok d) cases ->
  (hier_ok_at pre cases i = true <->
   forall j, (j <= i)%nat ->
     starts_with (render pre c) (render pre (nth j cases [])) = true ->
     boundary_prefix (render pre c) (render pre (nth j cases []))).
Proof.
  intros pre cases i c Hn Hne F. unfold hier_ok_at. unfold coord in *. rewrite Hn.
  assert (i < List.length cases)%nat as Li by (apply nth_error_Some; congruence).
  assert (names_ok c) as Oc.
  { rewrite Forall_forall in F. apply (F c). eapply nth_error_In; eauto. }
  assert (forall j, (j <= i)%nat -> nth j cases [] <> [] /\ names_ok (nth j cases [])) as Fj.
  { intros j Hj. rewrite Forall_forall in F. apply F. apply nth_In. lia. }
  rewrite forallb_forall. split.
  - intros H j Hj SW. destruct (Fj j Hj) as [Nd Od].
    apply (coord_boundary_prefix pre c _ Hne Nd Oc Od).
    assert (In j (seq 0 (S i))) as Ij by (apply in_seq; lia).
    specialize (H j Ij). cbv zeta in H. rewrite SW in H. exact H.
  - intros H j Ij. apply in_seq in Ij. cbv zeta.
    destruct (starts_with (render pre c) (render pre (nth j cases []))) eqn:SW; [| reflexivity].
    cbn. destruct (Fj j) as [Nd Od]; [lia |].
    apply (coord_boundary_prefix pre c _ Hne Nd Oc Od). apply H; [lia | exact SW].
Qed.

Example boundary_examples :
  comp_prefix [("Driver", 1%nat)] [("Driver", 1%nat); ("root._solve_nonlinear", 1%nat)] = true /\
  starts_with (render "rank0:" [("Driver", 1%nat)]) (render "rank0:" [("Driver", 10%nat)]) = true /\
  comp_prefix [("Driver", 1%nat)] [("Driver", 10%nat)] = false /\
  map parse (map show [0; 7; 10; 59; 1234]%nat) = [0; 7; 10; 59; 1234]%nat.
Proof. vm_compute. repeat split. Qed.
