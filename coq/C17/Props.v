(* C17 — property theorems (statements only; proofs by [exact] of lemmas in Proofs.v). *)
From Coq Require Import ZArith List Bool Arith Ascii String Sorted.
From OMV Require Import Base.Val C17.Model C17.Proofs C17.ProofsSeg.
Import ListNotations.
Open Scope string_scope.
Open Scope list_scope.

(* The matcher used for includes/excludes decides exactly the language of the pattern
   (star = any string, question mark = any one character, anything else = itself), for all patterns and names. *)
Theorem C17_glob_iff : forall p s : list ascii, glob p s = true <-> Matches p s.
Proof. exact glob_iff. Qed.
Print Assumptions C17_glob_iff.

(* check_path: some include pattern matches and no exclude pattern matches. *)
Theorem C17_check_path_spec : forall (incl excl : list string) (name : string),
  check_path incl excl name = true <-> Included incl excl name.
Proof. exact check_path_spec. Qed.
Print Assumptions C17_check_path_spec.

(* select_exact, systems: v is recorded iff the flag of its kind is set and its name (absolute for inputs,
   promoted into the system's scope for outputs and residuals) is included and not excluded. *)
Theorem C17_select_exact_system : forall ri ro rr incl excl abs_ins outs v,
  (In v (sys_inputs ri incl excl abs_ins) <-> ri = true /\ In v abs_ins /\ Included incl excl v) /\
  (In v (sys_outputs ro incl excl outs) <->
     ro = true /\ exists prom, In (v, prom) outs /\ Included incl excl prom) /\
  (In v (sys_residuals ro rr incl excl outs) <->
     rr = true /\ exists prom, In (v, prom) outs /\ Included incl excl prom).
Proof. exact select_exact_system. Qed.
Print Assumptions C17_select_exact_system.

(* select_exact, solvers: patterns are relative to the solver's group. *)
Theorem C17_select_exact_solver : forall flag path incl excl names v,
  In v (solver_vars flag path incl excl names) <->
  flag = true /\ In v names /\ Included (map (rel path) incl) (map (rel path) excl) v.
Proof. exact select_exact_solver. Qed.
Print Assumptions C17_select_exact_solver.

(* select_exact, driver and problem: an output is recorded iff record_outputs and (it is a design
   variable / objective / constraint whose flag is set, or its promoted name is included and not excluded,
   or inputs are recorded and it is the source of an input whose promoted name is included and not excluded). *)
Theorem C17_select_exact_driver : forall o dvs objs cons prom_ins outs v,
  In v (drv_outputs o dvs objs cons prom_ins outs) <->
  d_ro o = true /\ exists prom, In (v, prom) outs /\
    (Included (d_incl o) (d_excl o) prom
     \/ (d_dv o = true /\ In v dvs)
     \/ ((d_obj o = true \/ d_resp o = true) /\ In v objs)
     \/ ((d_con o = true \/ d_resp o = true) /\ In v cons)
     \/ (d_ri o = true /\ exists p, In (p, v) prom_ins /\ Included (d_incl o) (d_excl o) p)).
Proof. exact select_exact_driver. Qed.
Print Assumptions C17_select_exact_driver.

Theorem C17_select_exact_driver_inputs : forall o abs_ins outs v,
  (In v (drv_inputs o abs_ins) <-> d_ri o = true /\ In v abs_ins /\ Included (d_incl o) (d_excl o) v) /\
  (In v (drv_residuals o outs) <->
     d_rr o = true /\ exists prom, In (v, prom) outs /\ Included (d_incl o) (d_excl o) prom).
Proof. exact select_exact_driver_inputs. Qed.
Print Assumptions C17_select_exact_driver_inputs.

(* descendants: the reader's query (stored-string prefix among the cases up to the parent's counter)
   returns exactly the cases whose coordinate extends the parent's by whole path components, for every
   recording that satisfies the invariant hier_ok_at -- which is evaluated on every real recording. *)
Theorem C17_descendants_exact : forall pre cases i c,
  nth_error cases i = Some c -> c <> [] ->
  hier_ok_at pre cases i = true ->
  descendants_code pre cases i = descendants_spec cases i.
Proof. exact descendants_exact. Qed.
Print Assumptions C17_descendants_exact.

(* order: the query lists cases in execution (global counter) order, nothing recorded after the parent,
   and the parent itself. *)
Theorem C17_descendants_order : forall pre cases i c,
  nth_error cases i = Some c ->
  StronglySorted lt (descendants_code pre cases i) /\
  (forall j, In j (descendants_code pre cases i) -> (j <= i)%nat) /\
  In i (descendants_code pre cases i).
Proof. exact descendants_order. Qed.
Print Assumptions C17_descendants_order.

(* The stored coordinate string versus its path components: for coordinates whose names contain no bar, the
   string of c is a prefix of the string of d ending at a component boundary (end of string or a bar) exactly
   when c is a path-component prefix of d, counts compared as numbers.  Uses: rendered counts contain no bar
   and decimal rendering is injective (parse_show). *)
Theorem C17_coord_boundary_prefix : forall pre c d,
  c <> [] -> d <> [] -> names_ok c -> names_ok d ->
  (boundary_prefix (render pre c) (render pre d) <-> comp_prefix c d = true).
Proof. exact ProofsSeg.coord_boundary_prefix. Qed.
Print Assumptions C17_coord_boundary_prefix.

Theorem C17_parse_show : forall n, parse (show n) = n.
Proof. exact ProofsSeg.parse_show. Qed.
Print Assumptions C17_parse_show.

(* hence the invariant evaluated on every real recording (hier_ok_at) is a pure statement about the stored
   strings: no case recorded up to the parent extends the parent's string in the middle of a component *)
Theorem C17_hier_ok_at_iff_boundaries : forall pre cases i c,
  nth_error cases i = Some c -> c <> [] ->
  Forall (fun d => d <> [] /\ names_ok d) cases ->
  (hier_ok_at pre cases i = true <->
   forall j, (j <= i)%nat ->
     starts_with (render pre c) (render pre (nth j cases [])) = true ->
     boundary_prefix (render pre c) (render pre (nth j cases []))).
Proof. exact ProofsSeg.hier_ok_at_iff_boundaries. Qed.
Print Assumptions C17_hier_ok_at_iff_boundaries.
