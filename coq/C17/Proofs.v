(* C17 — proofs about the selection / glob / hierarchy model (Model.v). *)
From Coq Require Import ZArith List Bool Arith Ascii String Lia Sorted.
From OMV Require Import Base.Val C17.Model.
Import ListNotations.
Open Scope string_scope.
Open Scope list_scope.

(* ------------------------------------------------------------------ glob matcher vs its specification *)

(* the language of a pattern over { * , ? , literal } *)
Inductive Matches : list ascii -> list ascii -> Prop :=
| M_nil : Matches [] []
| M_star p s1 s2 : Matches p s2 -> Matches (star :: p) (s1 ++ s2)
| M_any p c s : Matches p s -> Matches (qmark :: p) (c :: s)
| M_lit p c s : c <> star -> c <> qmark -> Matches p s -> Matches (c :: p) (c :: s).

Lemma glob_star_unfold p s :
  glob (star :: p) s = glob p s || match s with [] => false | _ :: s' => glob (star :: p) s' end.
Proof. destruct s; cbn; reflexivity. Qed.

Lemma glob_sound : forall p s, glob p s = true -> Matches p s.
Proof.
  induction p as [| c p IH]; intros s H.
  - destruct s; [constructor | discriminate].
  - destruct (Ascii.eqb c star) eqn:E.
    + apply Ascii.eqb_eq in E. subst c.
      induction s as [| d s IHs].
      * rewrite glob_star_unfold in H. rewrite orb_false_r in H.
        apply (M_star p [] []). now apply IH.
      * rewrite glob_star_unfold in H. apply orb_true_iff in H as [H | H].
        -- apply (M_star p [] (d :: s)). now apply IH.
        -- specialize (IHs H). inversion IHs; subst.
           ++ apply (M_star p (d :: s1) s2). assumption.
           ++ exfalso. now apply H3.
    + cbn in H. rewrite E in H. destruct s as [| d s]; try discriminate.
      apply andb_true_iff in H as [H1 H2]. apply orb_true_iff in H1 as [H1 | H1].
      * apply Ascii.eqb_eq in H1. subst c. constructor. now apply IH.
      * apply Ascii.eqb_eq in H1. subst d.
        destruct (Ascii.eqb c qmark) eqn:Q.
        -- apply Ascii.eqb_eq in Q. subst c. constructor. now apply IH.
        -- constructor.
           ++ intros ->. now rewrite Ascii.eqb_refl in E.
           ++ intros ->. now rewrite Ascii.eqb_refl in Q.
           ++ now apply IH.
Qed.

Lemma glob_star_skip p : forall s1 s2, glob p s2 = true -> glob (star :: p) (s1 ++ s2) = true.
Proof.
  induction s1 as [| d s1 IH]; intros s2 H.
  - cbn [app]. rewrite glob_star_unfold, H. reflexivity.
  - cbn [app]. rewrite glob_star_unfold. rewrite (IH s2 H). apply orb_true_r.
Qed.

Lemma glob_complete : forall p s, Matches p s -> glob p s = true.
Proof.
  induction 1.
  - reflexivity.
  - now apply glob_star_skip.
  - cbn. rewrite IHMatches. reflexivity.
  - cbn. destruct (Ascii.eqb c star) eqn:E.
    + apply Ascii.eqb_eq in E. contradiction.
    + rewrite Ascii.eqb_refl, orb_true_r, IHMatches. reflexivity.
Qed.

Theorem glob_iff : forall p s, glob p s = true <-> Matches p s.
Proof. split; [apply glob_sound | apply glob_complete]. Qed.

Definition SMatches (pat name : string) : Prop := Matches (chars pat) (chars name).

Lemma gmatch_iff pat name : gmatch pat name = true <-> SMatches pat name.
Proof. apply glob_iff. Qed.

(* a variable passes check_path iff some include pattern matches it and no exclude pattern does *)
Theorem check_path_spec : forall incl excl name,
  check_path incl excl name = true <->
  (exists i, In i incl /\ SMatches i name) /\ (forall e, In e excl -> ~ SMatches e name).
Proof.
  intros. unfold check_path. rewrite andb_true_iff, negb_true_iff. split.
  - intros [Hx Hi]. split.
    + apply existsb_exists in Hi as [i [Hin Hm]]. exists i. split; auto. now apply gmatch_iff.
    + intros e He Hm. apply gmatch_iff in Hm.
      assert (existsb (fun e0 => gmatch e0 name) excl = true) as C.
      { apply existsb_exists. eauto. }
      congruence.
  - intros [[i [Hin Hm]] Hx]. split.
    + destruct (existsb (fun e => gmatch e name) excl) eqn:E; auto.
      apply existsb_exists in E as [e [He Hme]]. exfalso. apply (Hx e He). now apply gmatch_iff.
    + apply existsb_exists. exists i. split; auto. now apply gmatch_iff.
Qed.

Definition Included (incl excl : list string) (name : string) : Prop :=
  (exists i, In i incl /\ SMatches i name) /\ (forall e, In e excl -> ~ SMatches e name).

(* ------------------------------------------------------------------ selection is exact *)

Lemma mem_In x l : mem x l = true <-> In x l.
Proof.
  unfold mem. rewrite existsb_exists. split.
  - intros [y [Hy E]]. apply String.eqb_eq in E. now subst.
  - intros H. exists x. split; auto. apply String.eqb_refl.
Qed.

Lemma in_map_fst_filter {B} (f : string * B -> bool) (l : list (string * B)) v :
  In v (map fst (filter f l)) <-> exists b, In (v, b) l /\ f (v, b) = true.
Proof.
  rewrite in_map_iff. split.
  - intros [[a b] [E H]]. cbn in E. subst a. apply filter_In in H. eauto.
  - intros [b [H F]]. exists (v, b). split; auto. apply filter_In. auto.
Qed.

(* systems: an input is recorded iff record_inputs and its absolute name is included;
   an output iff record_outputs and its promoted name is included; residuals follow the outputs *)
Theorem select_exact_system : forall ri ro rr incl excl abs_ins outs v,
  (In v (sys_inputs ri incl excl abs_ins) <-> ri = true /\ In v abs_ins /\ Included incl excl v) /\
  (In v (sys_outputs ro incl excl outs) <->
     ro = true /\ exists prom, In (v, prom) outs /\ Included incl excl prom) /\
  (In v (sys_residuals ro rr incl excl outs) <->
     rr = true /\ exists prom, In (v, prom) outs /\ Included incl excl prom).
Proof.
  intros. unfold sys_inputs, sys_outputs, sys_residuals, Included. repeat split.
  - destruct ri; cbn in H; try contradiction. reflexivity.
  - destruct ri; cbn in H; try contradiction. apply filter_In in H. tauto.
  - destruct ri; cbn in H; try contradiction. apply filter_In in H. destruct H as [_ H].
    apply check_path_spec in H. tauto.
  - destruct ri; cbn in H; try contradiction. apply filter_In in H. destruct H as [_ H].
    apply check_path_spec in H. tauto.
  - intros (-> & Hin & Hc). apply filter_In. split; auto. now apply check_path_spec.
  - destruct ro; cbn in H; try contradiction. reflexivity.
  - destruct ro; cbn in H; try contradiction. apply in_map_fst_filter in H as [b [Hb Hf]].
    exists b. split; auto. now apply check_path_spec in Hf.
  - intros (-> & prom & Hin & Hc). apply in_map_fst_filter. exists prom. split; auto.
    now apply check_path_spec.
  - destruct ro, rr; cbn in H; try contradiction; reflexivity.
  - destruct ro, rr; cbn in H; try contradiction; apply in_map_fst_filter in H as [b [Hb Hf]];
      exists b; (split; auto); now apply check_path_spec in Hf.
  - intros (-> & prom & Hin & Hc). destruct ro; apply in_map_fst_filter; exists prom; (split; auto);
      now apply check_path_spec.
Qed.

(* solvers: patterns are taken relative to the solver's group *)
Theorem select_exact_solver : forall flag path incl excl names v,
  In v (solver_vars flag path incl excl names) <->
  flag = true /\ In v names /\ Included (map (rel path) incl) (map (rel path) excl) v.
Proof.
  intros. unfold solver_vars, Included. destruct flag; cbn.
  - rewrite filter_In, check_path_spec. intuition auto.
  - split; [contradiction | intros [H _]; discriminate].
Qed.

(* driver / problem: an output is recorded iff record_outputs and it is (a) a design variable, objective
   or constraint whose flag is set, or (b) included by its promoted name, or (c) -- when inputs are recorded
   -- the source of an input whose promoted name is included *)
Theorem select_exact_driver : forall o dvs objs cons prom_ins outs v,
  In v (drv_outputs o dvs objs cons prom_ins outs) <->
  d_ro o = true /\ exists prom, In (v, prom) outs /\
    (Included (d_incl o) (d_excl o) prom
     \/ (d_dv o = true /\ In v dvs)
     \/ ((d_obj o = true \/ d_resp o = true) /\ In v objs)
     \/ ((d_con o = true \/ d_resp o = true) /\ In v cons)
     \/ (d_ri o = true /\ exists p, In (p, v) prom_ins /\ Included (d_incl o) (d_excl o) p)).
Proof.
  intros. unfold drv_outputs. destruct (d_ro o) eqn:RO; cbn.
  2: { split; [contradiction | intros [H _]; discriminate]. }
  rewrite in_map_fst_filter. split.
  - intros [prom [Hin Hf]]. split; auto. exists prom. split; auto.
    unfold drv_output_selected in Hf. cbn [fst snd] in Hf.
    rewrite !orb_true_iff in Hf. destruct Hf as [[[[H | H] | H] | H] | H].
    + left. now apply check_path_spec.
    + right; left. apply andb_true_iff in H as [A B]. split; auto. now apply mem_In.
    + right; right; left. apply andb_true_iff in H as [A B]. apply orb_true_iff in A.
      split; auto. now apply mem_In.
    + right; right; right; left. apply andb_true_iff in H as [A B]. apply orb_true_iff in A.
      split; auto. now apply mem_In.
    + right; right; right; right. apply andb_true_iff in H as [A B]. split; auto.
      apply existsb_exists in B as [[p src] [Hp Hc]]. cbn [fst snd] in Hc.
      apply andb_true_iff in Hc as [C D]. apply String.eqb_eq in D. subst src.
      exists p. split; auto. now apply check_path_spec.
  - intros [_ [prom [Hin H]]]. exists prom. split; auto.
    unfold drv_output_selected. cbn [fst snd]. rewrite !orb_true_iff.
    destruct H as [H | [H | [H | [H | H]]]].
    + left; left; left; left. now apply check_path_spec.
    + left; left; left; right. destruct H as [A B]. rewrite A. cbn. now apply mem_In.
    + left; left; right. destruct H as [A B]. apply andb_true_iff. split.
      * now apply orb_true_iff.
      * now apply mem_In.
    + left; right. destruct H as [A B]. apply andb_true_iff. split.
      * now apply orb_true_iff.
      * now apply mem_In.
    + right. destruct H as [A [p [Hp Hc]]]. rewrite A. cbn. apply existsb_exists.
      exists (p, v). split; auto. cbn [fst snd]. apply andb_true_iff. split.
      * now apply check_path_spec.
      * apply String.eqb_refl.
Qed.

Theorem select_exact_driver_inputs : forall o abs_ins outs v,
  (In v (drv_inputs o abs_ins) <-> d_ri o = true /\ In v abs_ins /\ Included (d_incl o) (d_excl o) v) /\
  (In v (drv_residuals o outs) <->
     d_rr o = true /\ exists prom, In (v, prom) outs /\ Included (d_incl o) (d_excl o) prom).
Proof.
  intros. unfold drv_inputs, drv_residuals, Included. split.
  - destruct (d_ri o); cbn.
    + rewrite filter_In, check_path_spec. intuition auto.
    + split; [contradiction | intros [H _]; discriminate].
  - destruct (d_rr o); cbn.
    + rewrite in_map_fst_filter. split.
      * intros [b [Hb Hf]]. split; auto. exists b. split; auto. now apply check_path_spec in Hf.
      * intros [_ [b [Hb Hf]]]. exists b. split; auto. now apply check_path_spec.
    + split; [contradiction | intros [H _]; discriminate].
Qed.

(* ------------------------------------------------------------------ hierarchy and order *)

Lemma filter_ext_in' {A} (f g : A -> bool) l : (forall x, In x l -> f x = g x) -> filter f l = filter g l.
Proof.
  induction l as [| a l IH]; cbn; intros H; auto.
  rewrite (H a) by auto. rewrite IH; auto.
Qed.

Lemma comp_eqb_refl a : comp_eqb a a = true.
Proof. unfold comp_eqb. now rewrite String.eqb_refl, Nat.eqb_refl. Qed.

Lemma comp_eqb_eq a b : comp_eqb a b = true -> a = b.
Proof.
  destruct a, b. unfold comp_eqb. cbn. intros H. apply andb_true_iff in H as [A B].
  apply String.eqb_eq in A. apply Nat.eqb_eq in B. now subst.
Qed.

Lemma starts_with_app a b : starts_with a (a ++ b) = true.
Proof. induction a; cbn; auto. now rewrite Ascii.eqb_refl. Qed.

Lemma starts_with_app_l p a b : starts_with a b = true -> starts_with (p ++ a) (p ++ b) = true.
Proof. induction p; cbn; auto. intros. rewrite Ascii.eqb_refl. cbn. auto. Qed.

(* whole-component extension implies string extension (for every rendering of the counts) *)
Lemma render_comps_cons n i r :
  render_comps ((n, i) :: r) =
  chars n ++ bar :: show i ++ match r with [] => [] | _ => bar :: render_comps r end.
Proof. destruct r; cbn [render_comps]; [now rewrite app_nil_r | reflexivity]. Qed.

Lemma comp_prefix_render : forall c d, c <> [] -> comp_prefix c d = true ->
  exists rest, render_comps d = render_comps c ++ rest.
Proof.
  induction c as [| a c IH]; intros d Hne H; try contradiction.
  destruct d as [| b d]; try discriminate. cbn [comp_prefix] in H.
  apply andb_true_iff in H as [E H]. apply comp_eqb_eq in E. subst b.
  destruct a as [n i]. rewrite !render_comps_cons.
  destruct c as [| a' c].
  - exists (match d with [] => [] | _ => bar :: render_comps d end).
    rewrite app_nil_r. rewrite <- app_assoc. reflexivity.
  - destruct d as [| b' d]; try discriminate.
    destruct (IH (b' :: d)) as [rest Hr]; auto; try discriminate.
    exists rest. rewrite Hr. rewrite <- !app_assoc. cbn [app]. rewrite <- !app_assoc. reflexivity.
Qed.

Lemma comp_prefix_starts pre c d : c <> [] -> comp_prefix c d = true ->
  starts_with (render pre c) (render pre d) = true.
Proof.
  intros Hne H. destruct (comp_prefix_render c d Hne H) as [rest Hr].
  unfold render. rewrite Hr. apply starts_with_app_l, starts_with_app.
Qed.

(* the reader's descendants query (string prefix bounded by the parent's counter) returns exactly the
   cases whose coordinate extends the parent's by whole path components, whenever the recording satisfies
   the checked invariant hier_ok_at *)
Theorem descendants_exact : forall pre cases i c,
  nth_error cases i = Some c -> c <> [] ->
  hier_ok_at pre cases i = true ->
  descendants_code pre cases i = descendants_spec cases i.
Proof.
  intros pre cases i c Hn Hne H. unfold descendants_code, descendants_spec. unfold hier_ok_at in H.
  unfold coord in *. rewrite Hn in H. rewrite Hn. apply filter_ext_in'. intros j Hj.
  rewrite forallb_forall in H. specialize (H j Hj). cbn zeta in H.
  destruct (comp_prefix c (nth j cases [])) eqn:P.
  - now apply comp_prefix_starts.
  - destruct (starts_with (render pre c) (render pre (nth j cases []))); auto.
Qed.

(* the query lists cases in execution (global counter) order, never lists a case recorded after the parent,
   and always lists the parent itself *)
Lemma filter_seq_sorted f : forall n a, StronglySorted lt (filter f (seq a n)).
Proof.
  induction n; intros a; cbn; [constructor |].
  destruct (f a).
  - constructor; auto. apply Forall_forall. intros x Hx. apply filter_In in Hx as [Hx _].
    apply in_seq in Hx. lia.
  - auto.
Qed.

Lemma comp_prefix_refl c : comp_prefix c c = true.
Proof. induction c; cbn; auto. now rewrite comp_eqb_refl. Qed.

Lemma starts_with_refl s : starts_with s s = true.
Proof. induction s; cbn; auto. now rewrite Ascii.eqb_refl. Qed.

Theorem descendants_order : forall pre cases i c,
  nth_error cases i = Some c ->
  StronglySorted lt (descendants_code pre cases i) /\
  (forall j, In j (descendants_code pre cases i) -> (j <= i)%nat) /\
  In i (descendants_code pre cases i).
Proof.
  intros pre cases i c Hn. unfold descendants_code. unfold coord in *. rewrite Hn. repeat split.
  - apply filter_seq_sorted.
  - intros j Hj. apply filter_In in Hj as [Hj _]. apply in_seq in Hj. lia.
  - apply filter_In. split.
    + apply in_seq. lia.
    + rewrite (nth_error_nth _ _ _ Hn). apply starts_with_refl.
Qed.

(* ------------------------------------------------------------------ examples *)

Example glob_examples :
  map (fun pn => gmatch (fst pn) (snd pn))
      [("*", "g1.c.y"); ("g1.*", "g1.c.y"); ("g1.*", "g10.c.y"); ("g1*", "g10.c.y"); ("*.y", "g1.c.y");
       ("*.y", "g1.c.y1"); ("?", "y"); ("?", ""); ("y?", "y1"); ("*y*", "g1.c.yz"); ("", ""); ("a*b*c", "aXbYbZc");
       ("a*b*c", "aXbYbZ")] =
  [true; true; false; true; true; false; true; false; true; true; true; true; false].
Proof. vm_compute. reflexivity. Qed.

(* string prefix is not component prefix once counts reach 10: the bound by the parent's counter is what
   keeps the reader's query right, and hier_ok is what is checked on real recordings *)
Example startswith_not_component :
  starts_with (render "rank0:" [("Driver", 1%nat)]) (render "rank0:" [("Driver", 10%nat); ("root._solve_nonlinear", 10%nat)]) = true /\
  comp_prefix [("Driver", 1%nat)] [("Driver", 10%nat); ("root._solve_nonlinear", 10%nat)] = false.
Proof. vm_compute. split; reflexivity. Qed.

Example hier_ok_example :
  hier_ok "rank0:" [[("Driver", 0%nat); ("root", 0%nat)]; [("Driver", 0%nat)]; [("Driver", 1%nat); ("root", 1%nat)]; [("Driver", 1%nat)];
                    [("Driver", 10%nat); ("root", 10%nat)]; [("Driver", 10%nat)]] = true /\
  hier_ok "rank0:" [[("Driver", 10%nat); ("root", 10%nat)]; [("Driver", 10%nat)]; [("Driver", 1%nat); ("root", 1%nat)]; [("Driver", 1%nat)]] = false.
Proof. vm_compute. split; reflexivity. Qed.
