(* C17 — model of the variable selection of case recording (core/system.py:_setup_recording,
   solvers/solver.py:_setup_solvers, core/driver.py:_get_vars_to_record + record_iteration), of the
   glob matcher it relies on (fnmatch.fnmatchcase restricted to the wildcards * and ? and literals),
   and of the hierarchy/order queries of recorders/sqlite_reader.py (definitions only). *)
From Coq Require Import ZArith List Bool Arith Ascii String.
From OMV Require Import Base.Val.
Import ListNotations.
Open Scope string_scope.

(* ------------------------------------------------------------------ glob matching *)

Fixpoint chars (s : string) : list ascii :=
  match s with EmptyString => [] | String c r => c :: chars r end.

Definition star : ascii := "*"%char.
Definition qmark : ascii := "?"%char.

(* fnmatch.translate for the grammar { * , ? , literal }: * -> .*  ? -> .  (DOTALL, anchored) *)
Fixpoint glob (p s : list ascii) {struct p} : bool :=
  match p with
  | [] => match s with [] => true | _ => false end
  | c :: p' =>
      if Ascii.eqb c star then
        (fix skip (s : list ascii) : bool :=
           glob p' s || match s with [] => false | _ :: s' => skip s' end) s
      else
        match s with
        | [] => false
        | d :: s' => (Ascii.eqb c qmark || Ascii.eqb c d) && glob p' s'
        end
  end.

Definition gmatch (pat name : string) : bool := glob (chars pat) (chars name).

(* record_util.check_path(path, includes, excludes): excludes first, then includes *)
Definition check_path (incl excl : list string) (name : string) : bool :=
  negb (existsb (fun e => gmatch e name) excl) && existsb (fun i => gmatch i name) incl.

(* ------------------------------------------------------------------ selection *)

Definition mem (x : string) (l : list string) : bool := existsb (String.eqb x) l.

(* System._setup_recording.  outs: (absolute name, name promoted into the system's own scope) *)
Definition sys_inputs (ri : bool) (incl excl : list string) (abs_ins : list string) : list string :=
  if ri then filter (check_path incl excl) abs_ins else [].

Definition sys_outputs (ro : bool) (incl excl : list string) (outs : list (string * string)) : list string :=
  if ro then map fst (filter (fun ap => check_path incl excl (snd ap)) outs) else [].

Definition sys_residuals (ro rr : bool) (incl excl : list string) (outs : list (string * string)) : list string :=
  if ro then (if rr then sys_outputs ro incl excl outs else [])
  else if rr then map fst (filter (fun ap => check_path incl excl (snd ap)) outs) else [].

(* Solver._setup_solvers: patterns are relative to the solver's group, names are absolute *)
Definition rel (path pat : string) : string :=
  match path with EmptyString => pat | _ => path ++ "." ++ pat end.

Definition solver_vars (flag : bool) (path : string) (incl excl names : list string) : list string :=
  if flag then filter (check_path (map (rel path) incl) (map (rel path) excl)) names else [].

(* Driver._get_vars_to_record (also used by Problem) followed by driver.record_iteration, which writes the
   output dictionary only when record_outputs is set *)
Record drvopts := mkdrv {
  d_ri : bool; d_ro : bool; d_rr : bool;
  d_dv : bool; d_obj : bool; d_con : bool; d_resp : bool;
  d_incl : list string; d_excl : list string }.

Definition drv_output_selected (o : drvopts) (dvs objs cons : list string)
           (prom_ins : list (string * string)) (ap : string * string) : bool :=
  check_path (d_incl o) (d_excl o) (snd ap)
  || (d_dv o && mem (fst ap) dvs)
  || ((d_obj o || d_resp o) && mem (fst ap) objs)
  || ((d_con o || d_resp o) && mem (fst ap) cons)
  || (d_ri o && existsb (fun ps => check_path (d_incl o) (d_excl o) (fst ps) && String.eqb (snd ps) (fst ap)) prom_ins).

(* outs: every output of the model (absolute, promoted), sorted by absolute name;
   prom_ins: (promoted input name, absolute name of its source) *)
Definition drv_outputs (o : drvopts) (dvs objs cons : list string) (prom_ins outs : list (string * string))
  : list string :=
  if d_ro o then map fst (filter (drv_output_selected o dvs objs cons prom_ins) outs) else [].

Definition drv_inputs (o : drvopts) (abs_ins : list string) : list string :=
  if d_ri o then filter (check_path (d_incl o) (d_excl o)) abs_ins else [].

Definition drv_residuals (o : drvopts) (outs : list (string * string)) : list string :=
  if d_rr o then map fst (filter (fun ap => check_path (d_incl o) (d_excl o) (snd ap)) outs) else [].

(* ------------------------------------------------------------------ coordinates, order, hierarchy *)

(* an iteration coordinate is a list of (name, iteration count); it is stored rendered as
   rank0:name|count|name|count...  [show] renders a count in decimal *)
Definition coord := list (string * nat).

Definition digit (n : nat) : ascii := ascii_of_nat (48 + n).

Fixpoint show_fuel (fuel n : nat) (acc : list ascii) : list ascii :=
  match fuel with
  | O => acc
  | S f => let acc' := digit (n mod 10) :: acc in
           if (n / 10 =? 0)%nat then acc' else show_fuel f (n / 10) acc'
  end.
Definition show (n : nat) : list ascii := show_fuel (S n) n [].

Definition bar : ascii := "|"%char.

Fixpoint render_comps (c : coord) : list ascii :=
  match c with
  | [] => []
  | [(n, i)] => chars n ++ bar :: show i
  | (n, i) :: r => chars n ++ bar :: show i ++ bar :: render_comps r
  end.
Definition render (pre : string) (c : coord) : list ascii := chars pre ++ render_comps c.

Fixpoint starts_with (pre s : list ascii) : bool :=
  match pre, s with
  | [], _ => true
  | a :: pre', b :: s' => Ascii.eqb a b && starts_with pre' s'
  | _ :: _, [] => false
  end.

Definition comp_eqb (a b : string * nat) : bool := String.eqb (fst a) (fst b) && (snd a =? snd b)%nat.

Fixpoint comp_prefix (c d : coord) : bool :=
  match c, d with
  | [], _ => true
  | a :: c', b :: d' => comp_eqb a b && comp_prefix c' d'
  | _ :: _, [] => false
  end.

(* a recording: the cases in global_iterations order; the recorder's counter of case number i (from 0) is i+1 *)
(* SqliteCaseReader._list_cases_recurse_flat(coord): the cases among the first counter(parent) whose
   stored coordinate string starts with the parent's string *)
Definition descendants_code (pre : string) (cases : list coord) (i : nat) : list nat :=
  match nth_error cases i with
  | None => []
  | Some c =>
      filter (fun j => starts_with (render pre c) (render pre (nth j cases [])))
             (seq 0 (S i))
  end.

(* specification: the cases recorded up to and including the parent whose coordinate extends the parent's
   coordinate by whole path components (the parent itself and everything that ran inside it) *)
Definition descendants_spec (cases : list coord) (i : nat) : list nat :=
  match nth_error cases i with
  | None => []
  | Some c => filter (fun j => comp_prefix c (nth j cases [])) (seq 0 (S i))
  end.

(* the invariant under which the two agree, as a boolean checker for real runs: an earlier case whose string
   extends the parent's string extends it by whole components *)
Definition hier_ok_at (pre : string) (cases : list coord) (i : nat) : bool :=
  match nth_error cases i with
  | None => true
  | Some c =>
      forallb (fun j => let d := nth j cases [] in
                        implb (starts_with (render pre c) (render pre d)) (comp_prefix c d))
              (seq 0 (S i))
  end.
Definition hier_ok (pre : string) (cases : list coord) : bool :=
  forallb (hier_ok_at pre cases) (seq 0 (List.length cases)).

(* ------------------------------------------------------------------ coordinates as '|'-separated segments *)

(* what the reader has is the stored string; its path components are the segments between the bars *)
Definition bar_free (s : list ascii) : bool := forallb (fun a => negb (Ascii.eqb a bar)) s.

Fixpoint join (l : list (list ascii)) : list ascii :=
  match l with
  | [] => []
  | [x] => x
  | x :: r => x ++ bar :: join r
  end.

Fixpoint flatten (c : coord) : list (list ascii) :=
  match c with [] => [] | (n, i) :: r => chars n :: show i :: flatten r end.

Fixpoint seg_eqb (a b : list ascii) : bool :=
  match a, b with
  | [], [] => true
  | x :: a', y :: b' => Ascii.eqb x y && seg_eqb a' b'
  | _, _ => false
  end.

Fixpoint seg_prefix (xs ys : list (list ascii)) : bool :=
  match xs, ys with
  | [], _ => true
  | x :: xs', y :: ys' => seg_eqb x y && seg_prefix xs' ys'
  | _ :: _, [] => false
  end.

(* parse a rendered count back *)
Definition digit_val (a : ascii) : nat := (nat_of_ascii a - 48)%nat.
Definition parse (s : list ascii) : nat := fold_left (fun acc a => (10 * acc + digit_val a)%nat) s 0%nat.

(* ------------------------------------------------------------------ evaluation for the harness *)

Definition vstrs (l : list string) : val := VL (map VS l).
Definition vnats (l : list nat) : val := VL (map (fun n => VZ (Z.of_nat n)) l).
