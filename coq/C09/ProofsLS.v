(* C09 — proofs about the ArmijoGoldsteinLS backtracking loop, for every objective stream
   [ns : nat -> float] (binary64, NaN / inf included), every maxiter, rho, c, alpha, both methods. *)
From Coq Require Import ZArith List Bool Lia PrimFloat.
From OMV Require Import Base.Val C09.ModelLS.
Import ListNotations.
Open Scope Z_scope.

Lemma ls_iter_body_shift : forall o ns n s,
  ls_iter_body o ns n (ls_body o ns s) = ls_body o ns (ls_iter_body o ns n s).
Proof. induction n; intros; cbn; [reflexivity | now rewrite IHn]. Qed.

Lemma ls_loop_char : forall o ns fuel s,
  exists n, (n <= fuel)%nat /\ ls_loop o ns fuel s = ls_iter_body o ns n s /\
            (forall k, (k < n)%nat -> ls_cond o ns (ls_iter_body o ns k s) = true) /\
            ((n < fuel)%nat -> ls_cond o ns (ls_iter_body o ns n s) = false).
Proof.
  induction fuel as [|f IH]; intros s.
  - exists 0%nat; cbn; repeat split; try lia; intros; lia.
  - cbn [ls_loop]. destruct (ls_cond o ns s) eqn:C.
    + destruct (IH (ls_body o ns s)) as (n & Hle & He & Hk & Hn).
      exists (S n). repeat split.
      * lia.
      * cbn [ls_iter_body]. rewrite He. apply ls_iter_body_shift.
      * intros k Hlt. destruct k; [exact C|].
        cbn [ls_iter_body]. rewrite <- ls_iter_body_shift. apply Hk; lia.
      * intros Hlt. cbn [ls_iter_body]. rewrite <- ls_iter_body_shift. apply Hn; lia.
    + exists 0%nat; cbn; repeat split; try lia; intros; try lia; exact C.
Qed.

Lemma ls_loop_exits : forall o ns fuel s,
  (Z.to_nat (l_maxiter o - t_iter s) <= fuel)%nat -> ls_cond o ns (ls_loop o ns fuel s) = false.
Proof.
  induction fuel as [|f IH]; intros s HM.
  - cbn. unfold ls_cond. destruct (t_iter s <? l_maxiter o) eqn:E; [|reflexivity].
    apply Z.ltb_lt in E. lia.
  - cbn [ls_loop]. destruct (ls_cond o ns s) eqn:C; [|exact C].
    apply IH. unfold ls_cond in C. apply andb_prop in C as [C _]. apply Z.ltb_lt in C.
    cbn [ls_body t_iter]. lia.
Qed.

(* state after k passes through the body *)
Lemma ls_state_k : forall o ns k,
  let s := ls_iter_body o ns k (ls_init o ns) in
  t_iter s = Z.of_nat k /\ t_single s = k /\ t_read s = (2 + k)%nat /\
  t_alpha s = shrink (l_alpha o) (l_rho o) (Nat.pred k) /\
  t_phi s = ns (S k).
Proof.
  induction k as [|k IH]; cbn zeta.
  - cbn. repeat split; reflexivity.
  - cbn zeta in IH. destruct IH as (I1 & I2 & I3 & I4 & I5).
    cbn [ls_iter_body]. remember (ls_iter_body o ns k (ls_init o ns)) as s eqn:Es.
    unfold ls_body; cbn [t_iter t_single t_read t_alpha t_phi].
    rewrite I1, I2, I3, I4.
    split; [lia|]. split; [reflexivity|]. split; [reflexivity|]. split; [|reflexivity].
    destruct k; [reflexivity|].
    replace (0 <? Z.of_nat (S k)) with true by (symmetry; apply Z.ltb_lt; lia).
    reflexivity.
Qed.

(* The run is the code's while loop; n = number of backtracking iterations performed. *)
Lemma ls_final_char : forall o ns,
  exists n, ls_final o ns = ls_iter_body o ns n (ls_init o ns) /\
    (forall k, (k < n)%nat -> ls_cond o ns (ls_iter_body o ns k (ls_init o ns)) = true) /\
    ls_cond o ns (ls_final o ns) = false.
Proof.
  intros o ns. unfold ls_final.
  destruct (ls_loop_char o ns (Z.to_nat (l_maxiter o)) (ls_init o ns)) as (n & _ & He & Hk & _).
  exists n; repeat split; auto.
  apply ls_loop_exits. cbn. lia.
Qed.

(* iterations <= maxiter; the counter is the number of _single_iteration calls; two objective
   evaluations in _iter_initialize plus one per iteration *)
Lemma ls_iters_le_maxiter : forall o ns,
  0 <= t_iter (ls_final o ns) <= Z.max 0 (l_maxiter o) /\
  t_iter (ls_final o ns) = Z.of_nat (t_single (ls_final o ns)) /\
  t_read (ls_final o ns) = (2 + t_single (ls_final o ns))%nat.
Proof.
  intros o ns. destruct (ls_final_char o ns) as (n & He & Hk & _).
  destruct (ls_state_k o ns n) as (I1 & I2 & I3 & _). rewrite <- He in *.
  rewrite I1, I2, I3. repeat split; try lia.
  destruct n; [lia|].
  specialize (Hk n (Nat.lt_succ_diag_r n)).
  unfold ls_cond in Hk. apply andb_prop in Hk as [Hk _]. apply Z.ltb_lt in Hk.
  destruct (ls_state_k o ns n) as (J1 & _). rewrite J1 in Hk. lia.
Qed.

(* the loop stops on the FIRST objective value that passes the sufficient-decrease test at its own
   step length, and otherwise only at maxiter: every earlier value failed the test, and at the end
   the test holds for (final alpha, final objective) or maxiter iterations were done *)
Lemma ls_accepts_first : forall o ns,
  exists n, ls_final o ns = ls_iter_body o ns n (ls_init o ns) /\
    (forall k, (k < n)%nat ->
       stop_crit o (phi0_of ns) (shrink (l_alpha o) (l_rho o) (Nat.pred k)) (ns (S k)) = false
       /\ Z.of_nat k < l_maxiter o) /\
    (stop_crit o (phi0_of ns) (t_alpha (ls_final o ns)) (t_phi (ls_final o ns)) = true
     \/ l_maxiter o <= t_iter (ls_final o ns)).
Proof.
  intros o ns. destruct (ls_final_char o ns) as (n & He & Hk & Hc).
  exists n. split; [exact He|]. split.
  - intros k Hlt. specialize (Hk k Hlt).
    destruct (ls_state_k o ns k) as (I1 & _ & _ & I4 & I5).
    unfold ls_cond in Hk. rewrite I1, I4, I5 in Hk.
    apply andb_prop in Hk as [H1 H2]. apply Z.ltb_lt in H1. apply negb_true_iff in H2. auto.
  - unfold ls_cond in Hc. apply andb_false_iff in Hc as [Hc|Hc].
    + right. apply Z.ltb_ge in Hc. exact Hc.
    + left. apply negb_false_iff in Hc. exact Hc.
Qed.

(* step length after n >= 1 iterations: alpha * rho^(n-1) in binary64, multiplied left to right
   (the first iteration re-evaluates at the initial step length) *)
Lemma ls_alpha_geometric : forall o ns,
  t_alpha (ls_final o ns) =
  shrink (l_alpha o) (l_rho o) (Nat.pred (t_single (ls_final o ns))) /\
  t_phi (ls_final o ns) = ns (S (t_single (ls_final o ns))).
Proof.
  intros o ns. destruct (ls_final_char o ns) as (n & He & _ & _).
  destruct (ls_state_k o ns n) as (_ & I2 & _ & I4 & I5). rewrite <- He in *.
  rewrite I2. auto.
Qed.

(* non-vacuity: three backtracking steps, accepted at alpha/4; maxiter reached without acceptance *)
Example ls_run_accepts :
  let o := mklsopts 5 0x1p-1%float 0x1p-3%float 1%float false in
  let ns := fun k => nth k [8%float; 20%float; 19%float; 15%float; 7%float; 1%float] nan in
  t_iter (ls_final o ns) = 3 /\ t_alpha (ls_final o ns) = 0x1p-2%float /\
  stop_crit o (phi0_of ns) (t_alpha (ls_final o ns)) (t_phi (ls_final o ns)) = true.
Proof. vm_compute. auto. Qed.

Example ls_run_maxiter :
  let o := mklsopts 2 0x1p-1%float 0x1p-3%float 1%float true in
  let ns := fun k => nth k [8%float; 20%float; 19%float; 15%float; 7%float] nan in
  t_iter (ls_final o ns) = 2 /\ t_alpha (ls_final o ns) = 0x1p-1%float /\
  stop_crit o (phi0_of ns) (t_alpha (ls_final o ns)) (t_phi (ls_final o ns)) = false.
Proof. vm_compute. auto. Qed.
