(* C09 — executable model of the backtracking loop of ArmijoGoldsteinLS
   (openmdao/solvers/linesearch/backtracking.py: ArmijoGoldsteinLS._iter_initialize, _solve,
   _stopping_criteria, _update_step_length_parameter).  Definitions only.

   The line-search objective values (residual norms) are binary64 values supplied by a stream:
   the k-th call of _line_search_objective returns [ns k].  All arithmetic of the sufficient-decrease
   test and of the step length is IEEE binary64 ([PrimFloat]), in the order the code evaluates it.
   The AnalysisError / retry path is not modelled (_analysis_error_raised stays False). *)
From Coq Require Import ZArith QArith List Bool String PrimFloat FloatOps SpecFloat.
From OMV Require Import Base.Val.
Import ListNotations.
Open Scope Z_scope.

Record lsopts := mklsopts {
  l_maxiter : Z;
  l_rho : float;        (* contraction factor *)
  l_c : float;          (* slope parameter c *)
  l_alpha : float;      (* initial step length *)
  l_goldstein : bool    (* method == 'Goldstein' (else 'Armijo') *)
}.

Record lst := mklst {
  t_iter : Z;           (* self._iter_count *)
  t_alpha : float;      (* self.alpha *)
  t_phi : float;        (* phi *)
  t_read : nat;         (* _line_search_objective calls so far *)
  t_single : nat        (* _single_iteration calls so far *)
}.

(* phi0 = objective; if phi0 == 0.0: phi0 = 1.0 *)
Definition phi0_of (ns : nat -> float) : float :=
  if PrimFloat.eqb (ns 0%nat) zero then one else ns 0%nat.

(* _stopping_criteria: df_dalpha = -phi0;
   armijo:    fval <= fval0 + c1 * alpha * df_dalpha
   goldstein: fval0 + (1 - c1) * alpha * df_dalpha <= fval <= fval0 + c1 * alpha * df_dalpha *)
Definition stop_crit (o : lsopts) (phi0 alpha fval : float) : bool :=
  let df := PrimFloat.opp phi0 in
  let upper := PrimFloat.add phi0 (PrimFloat.mul (PrimFloat.mul (l_c o) alpha) df) in
  if l_goldstein o then
    PrimFloat.leb (PrimFloat.add phi0 (PrimFloat.mul (PrimFloat.mul (PrimFloat.sub one (l_c o)) alpha) df)) fval
    && PrimFloat.leb fval upper
  else PrimFloat.leb fval upper.

(* _iter_initialize: alpha = options['alpha']; two objective evaluations (phi0, then phi at u + alpha du) *)
Definition ls_init (o : lsopts) (ns : nat -> float) : lst :=
  mklst 0 (l_alpha o) (ns 1%nat) 2%nat 0%nat.

(* while self._iter_count < maxiter and not self._stopping_criteria(phi, method) *)
Definition ls_cond (o : lsopts) (ns : nat -> float) (s : lst) : bool :=
  (t_iter s <? l_maxiter o) && negb (stop_crit o (phi0_of ns) (t_alpha s) (t_phi s)).

(* body: if self._iter_count > 0: self.alpha *= rho (and u += (alpha - alpha_old) du);
   _single_iteration(); _iter_count += 1; phi = objective *)
Definition ls_body (o : lsopts) (ns : nat -> float) (s : lst) : lst :=
  mklst (t_iter s + 1)
        (if 0 <? t_iter s then PrimFloat.mul (t_alpha s) (l_rho o) else t_alpha s)
        (ns (t_read s)) (S (t_read s)) (S (t_single s)).

Fixpoint ls_loop (o : lsopts) (ns : nat -> float) (fuel : nat) (s : lst) : lst :=
  match fuel with
  | O => s
  | S f => if ls_cond o ns s then ls_loop o ns f (ls_body o ns s) else s
  end.

Fixpoint ls_iter_body (o : lsopts) (ns : nat -> float) (n : nat) (s : lst) : lst :=
  match n with
  | O => s
  | S k => ls_body o ns (ls_iter_body o ns k s)
  end.

Definition ls_final (o : lsopts) (ns : nat -> float) : lst :=
  ls_loop o ns (Z.to_nat (l_maxiter o)) (ls_init o ns).

(* alpha * rho * rho * ... (k binary64 multiplications, left to right) *)
Fixpoint shrink (alpha rho : float) (k : nat) : float :=
  match k with
  | O => alpha
  | S j => PrimFloat.mul (shrink alpha rho j) rho
  end.

(* ---- executable interface for the correspondence ---- *)
(* exact value of a binary64 as a [val]: a rational, or "nan" / "inf" / "-inf" *)
Definition float_val (x : float) : val :=
  match Prim2SF x with
  | S754_zero _ => VQ 0
  | S754_infinity false => VS "inf"
  | S754_infinity true => VS "-inf"
  | S754_nan => VS "nan"
  | S754_finite sg m e =>
      let z := if sg then Zneg m else Zpos m in
      VQ (if 0 <=? e then inject_Z (z * 2 ^ e) else Qmake z (Z.to_pos (2 ^ (- e))))
  end.

Definition run_ls (o : lsopts) (l : list float) : val :=
  let s := ls_final o (fun k => nth k l nan) in
  VL [VZ (t_iter s); VZ (Z.of_nat (t_single s)); VZ (Z.of_nat (t_read s)); float_val (t_alpha s)].
