(* C09 — property theorems (statements only; proofs by [exact] of lemmas in Proofs.v).
   Quantification: every norm stream [ns : nat -> float] (binary64, including NaN and the
   infinities), every option record (any integer maxiter and stall_limit, any float
   tolerances), every _iter_initialize variant. *)
From Coq Require Import ZArith List Bool.
From OMV Require Import Base.Val C09.Model C09.Proofs C09.ModelLS C09.ProofsLS.
Import ListNotations.
Open Scope Z_scope.

(* At most maxiter iterations - except the single forced iteration under complex step. *)
Theorem C09_iters_le_maxiter : forall o ns,
  s_iter (final o ns) <= Z.max 0 (o_maxiter o) \/
  (under_cs o = true /\ s_single (final o ns) = 1%nat /\ s_iter (final o ns) = 1).
Proof. exact iters_le_maxiter. Qed.
Print Assumptions C09_iters_le_maxiter.

(* The iteration counter is the number of _single_iteration calls (plus the first sweep that
   NonlinearBlockGS counts in _run_apply when maxiter >= 2), one norm evaluation each. *)
Theorem C09_counts_consistent : forall o ns,
  s_iter (final o ns) = iter0 o ns + Z.of_nat (s_single (final o ns)) /\
  s_read (final o ns) = (s_read (init o ns) + s_single (final o ns))%nat /\
  (iter0 o ns = 0 \/ iter0 o ns = 1 /\ 2 <= o_maxiter o).
Proof. exact counts_consistent. Qed.
Print Assumptions C09_counts_consistent.

(* The run is the code's while loop (the fuel never runs out); it iterates again only from an
   iterate that meets neither tolerance, is below maxiter and is not stalled - except for the forced
   first pass under complex step - and it stops only at maxiter, at an iterate whose comparison
   "above both tolerances" is false, or on a stall. *)
Theorem C09_stops_at_first_met : forall o ns,
  exists n, final o ns = iter_body o ns n (init o ns) /\
    (forall k, (k < n)%nat ->
       let s := iter_body o ns k (init o ns) in
       (not_met o (s_norm s) (s_norm0 s) = true /\ s_iter s < o_maxiter o /\ s_stalled s = false)
       \/ (k = 0%nat /\ under_cs o = true)) /\
    (o_maxiter o <= s_iter (final o ns) \/
     not_met o (s_norm (final o ns)) (s_norm0 (final o ns)) = false \/
     s_stalled (final o ns) = true).
Proof. exact stops_at_first_met. Qed.
Print Assumptions C09_stops_at_first_met.

(* A solve that reports success leaves a finite norm that is not above both tolerances. *)
Theorem C09_success_sound : forall o ns,
  outcome_of o ns = Converged ->
  inf_or_nan (s_norm (final o ns)) = false /\
  not_met o (s_norm (final o ns)) (s_norm0 (final o ns)) = false.
Proof. exact success_sound. Qed.
Print Assumptions C09_success_sound.

(* ... which also holds for the classification chain as it is in the repository. *)
Theorem C09_success_sound_present_code : forall o ns,
  outcome_cur o ns = Converged ->
  inf_or_nan (s_norm (final o ns)) = false /\
  not_met o (s_norm (final o ns)) (s_norm0 (final o ns)) = false.
Proof. exact success_sound_cur. Qed.
Print Assumptions C09_success_sound_present_code.

(* A failure is reported exactly when the solver stops on an iterate that does not meet a tolerance
   (NaN / inf included) - for the repaired classification (props/C09/fix_1.diff). *)
Theorem C09_failure_exact : forall o ns,
  is_conv (outcome_of o ns) = false <-> met_final o (final o ns) = false.
Proof. exact failure_exact. Qed.
Print Assumptions C09_failure_exact.

(* The classification of the pinned commit violates it: stall detection firing on an iterate that
   meets atol is reported as a failure (and raises with err_on_non_converge). *)
Theorem C09_failure_exact_refuted :
  exists o ns, met_final o (final o ns) = true /\ outcome_cur o ns = Stalled /\ raised_cur o ns = true.
Proof. exact failure_exact_refuted. Qed.
Print Assumptions C09_failure_exact_refuted.

(* A reported stall is a genuine one: stall detection is on, the counter reached the limit and the
   iterate is above both tolerances. *)
Theorem C09_stalled_genuine : forall o ns,
  outcome_of o ns = Stalled ->
  0 < stall_limit o /\ stall_limit o <= s_scount (final o ns) /\
  not_met o (s_norm (final o ns)) (s_norm0 (final o ns)) = true.
Proof. exact stalled_genuine. Qed.
Print Assumptions C09_stalled_genuine.

(* AnalysisError is raised iff err_on_non_converge is set and the final iterate meets no tolerance. *)
Theorem C09_raise_iff_failure : forall o ns,
  raised o ns = true <-> (o_err o = true /\ met_final o (final o ns) = false).
Proof. exact raise_iff_failure. Qed.
Print Assumptions C09_raise_iff_failure.

(* ------------------------------------------------------------------------------------------
   The backtracking loop of ArmijoGoldsteinLS (its own loop, not the shared one).  Quantification:
   every binary64 objective stream, every integer maxiter, every float rho, c, alpha, both methods.
   (The AnalysisError / retry path is not modelled.) *)

(* At most maxiter iterations; the counter is the number of _single_iteration calls; two objective
   evaluations in _iter_initialize plus one per iteration. *)
Theorem C09_ls_iters_le_maxiter : forall o ns,
  0 <= t_iter (ls_final o ns) <= Z.max 0 (l_maxiter o) /\
  t_iter (ls_final o ns) = Z.of_nat (t_single (ls_final o ns)) /\
  t_read (ls_final o ns) = (2 + t_single (ls_final o ns))%nat.
Proof. exact ls_iters_le_maxiter. Qed.
Print Assumptions C09_ls_iters_le_maxiter.

(* The run is the code's while loop; it stops on the FIRST objective value that passes the
   sufficient-decrease test (Armijo or Goldstein) at its own step length, otherwise only at maxiter:
   the k-th evaluated point (step length alpha rho^(k-1)) failed the test for every k before the
   end, and at the end the accepted pair passes the test or maxiter iterations were done. *)
Theorem C09_ls_accepts_first : forall o ns,
  exists n, ls_final o ns = ls_iter_body o ns n (ls_init o ns) /\
    (forall k, (k < n)%nat ->
       stop_crit o (phi0_of ns) (shrink (l_alpha o) (l_rho o) (Nat.pred k)) (ns (S k)) = false
       /\ Z.of_nat k < l_maxiter o) /\
    (stop_crit o (phi0_of ns) (t_alpha (ls_final o ns)) (t_phi (ls_final o ns)) = true
     \/ l_maxiter o <= t_iter (ls_final o ns)).
Proof. exact ls_accepts_first. Qed.
Print Assumptions C09_ls_accepts_first.

(* Final step length: alpha * rho * ... * rho with (iterations - 1) binary64 multiplications (the
   first iteration re-evaluates at the initial step length); the accepted objective is the last read. *)
Theorem C09_ls_alpha_geometric : forall o ns,
  t_alpha (ls_final o ns) =
  shrink (l_alpha o) (l_rho o) (Nat.pred (t_single (ls_final o ns))) /\
  t_phi (ls_final o ns) = ns (S (t_single (ls_final o ns))).
Proof. exact ls_alpha_geometric. Qed.
Print Assumptions C09_ls_alpha_geometric.
