(* C09 — property theorems (statements only; proofs by [exact] of lemmas in Proofs.v).
   Quantification: every norm stream [ns : nat -> float] (binary64, including NaN and the
   infinities), every option record (any integer maxiter and stall_limit, any float
   tolerances), every _iter_initialize variant. *)
From Coq Require Import ZArith List Bool.
From OMV Require Import Base.Val C09.Model C09.Proofs.
Import ListNotations.
Open Scope Z_scope.

(* At most maxiter iterations - except the single forced iteration under complex step. *)
Theorem C09_iters_le_maxiter : forall o ns,
  s_iter (final o ns) <= Z.max 0 (o_maxiter o) \/
  (under_cs o = true /\ s_single (final o ns) = 1%nat /\ s_iter (final o ns) = 1).
Proof. exact iters_le_maxiter. Qed.
Print Assumptions C09_iters_le_maxiter.

(* The iteration counter is the number of _single_iteration calls (plus the first sweep that
   NonlinearBlockGS counts in _run_apply when maxiter >= 2), one norm evaluation each. *)
Theorem C09_counts_consistent : forall o ns,
  s_iter (final o ns) = iter0 o ns + Z.of_nat (s_single (final o ns)) /\
  s_read (final o ns) = (s_read (init o ns) + s_single (final o ns))%nat /\
  (iter0 o ns = 0 \/ iter0 o ns = 1 /\ 2 <= o_maxiter o).
Proof. exact counts_consistent. Qed.
Print Assumptions C09_counts_consistent.

(* The run is the code's while loop (the fuel never runs out); it iterates again only from an
   iterate that meets neither tolerance, is below maxiter and is not stalled - except for the forced
   first pass under complex step - and it stops only at maxiter, at an iterate whose comparison
   "above both tolerances" is false, or on a stall. *)
Theorem C09_stops_at_first_met : forall o ns,
  exists n, final o ns = iter_body o ns n (init o ns) /\
    (forall k, (k < n)%nat ->
       let s := iter_body o ns k (init o ns) in
       (not_met o (s_norm s) (s_norm0 s) = true /\ s_iter s < o_maxiter o /\ s_stalled s = false)
       \/ (k = 0%nat /\ under_cs o = true)) /\
    (o_maxiter o <= s_iter (final o ns) \/
     not_met o (s_norm (final o ns)) (s_norm0 (final o ns)) = false \/
     s_stalled (final o ns) = true).
Proof. exact stops_at_first_met. Qed.
Print Assumptions C09_stops_at_first_met.

(* A solve that reports success leaves a finite norm that is not above both tolerances. *)
Theorem C09_success_sound : forall o ns,
  outcome_of o ns = Converged ->
  inf_or_nan (s_norm (final o ns)) = false /\
  not_met o (s_norm (final o ns)) (s_norm0 (final o ns)) = false.
Proof. exact success_sound. Qed.
Print Assumptions C09_success_sound.

(* ... which also holds for the classification chain as it is in the repository. *)
Theorem C09_success_sound_present_code : forall o ns,
  outcome_cur o ns = Converged ->
  inf_or_nan (s_norm (final o ns)) = false /\
  not_met o (s_norm (final o ns)) (s_norm0 (final o ns)) = false.
Proof. exact success_sound_cur. Qed.
Print Assumptions C09_success_sound_present_code.

(* A failure is reported exactly when the solver stops on an iterate that does not meet a tolerance
   (NaN / inf included) - for the repaired classification (props/C09/fix_1.diff). *)
Theorem C09_failure_exact : forall o ns,
  is_conv (outcome_of o ns) = false <-> met_final o (final o ns) = false.
Proof. exact failure_exact. Qed.
Print Assumptions C09_failure_exact.

(* The classification of the pinned commit violates it: stall detection firing on an iterate that
   meets atol is reported as a failure (and raises with err_on_non_converge). *)
Theorem C09_failure_exact_refuted :
  exists o ns, met_final o (final o ns) = true /\ outcome_cur o ns = Stalled /\ raised_cur o ns = true.
Proof. exact failure_exact_refuted. Qed.
Print Assumptions C09_failure_exact_refuted.

(* A reported stall is a genuine one: stall detection is on, the counter reached the limit and the
   iterate is above both tolerances. *)
Theorem C09_stalled_genuine : forall o ns,
  outcome_of o ns = Stalled ->
  0 < stall_limit o /\ stall_limit o <= s_scount (final o ns) /\
  not_met o (s_norm (final o ns)) (s_norm0 (final o ns)) = true.
Proof. exact stalled_genuine. Qed.
Print Assumptions C09_stalled_genuine.

(* AnalysisError is raised iff err_on_non_converge is set and the final iterate meets no tolerance. *)
Theorem C09_raise_iff_failure : forall o ns,
  raised o ns = true <-> (o_err o = true /\ met_final o (final o ns) = false).
Proof. exact raise_iff_failure. Qed.
Print Assumptions C09_raise_iff_failure.
