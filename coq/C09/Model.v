(* C09 — executable model of the shared iteration loops of OpenMDAO's iterative solvers
   (openmdao/solvers/solver.py: NonlinearSolver._solve, LinearSolver._solve, the
   _iter_initialize variants, report_failure).  Definitions only.

   Residual norms are IEEE binary64 values ([PrimFloat.float]) supplied by a stream
   [nat -> float]: the k-th call of _iter_get_norm returns [ns k].  Every comparison is the
   one the code performs, in the same form ([norm > atol] is [atol <? norm], etc.). *)
From Coq Require Import ZArith List Bool PrimFloat.
From OMV Require Import Base.Val.
Import ListNotations.
Open Scope Z_scope.

(* Which _iter_initialize / _run_apply variant the solver class uses. *)
Inductive kind :=
| KBase                      (* NonlinearSolver._iter_initialize (NonlinearBlockJac)          *)
| KGS (use_apply_nl : bool)  (* NonlinearBlockGS: base init, _run_apply counts the first sweep *)
| KAlways                    (* NewtonSolver / BroydenSolver: the first norm is always computed *)
| KLin.                      (* BlockLinearSolver (LinearBlockGS/Jac) with LinearSolver._solve  *)

Record opts := mkopts {
  o_kind : kind;
  o_maxiter : Z;
  o_atol : float;
  o_rtol : float;
  o_stall_limit : Z;
  o_stall_tol : float;
  o_stall_rel : bool;           (* stall_tol_type == 'rel' *)
  o_err : bool;                 (* err_on_non_converge *)
  o_cs : bool                   (* system.under_complex_step *)
}.

Record st := mkst {
  s_iter : Z;                   (* self._iter_count *)
  s_norm : float;
  s_norm0 : float;
  s_stalled : bool;
  s_scount : Z;                 (* stall_count *)
  s_snorm : float;              (* stall_norm *)
  s_force : bool;               (* force_one_iteration *)
  s_read : nat;                 (* number of _iter_get_norm calls so far *)
  s_single : nat                (* number of _single_iteration calls so far *)
}.

Definition fgt (a b : float) : bool := PrimFloat.ltb b a.           (* a > b  *)
Definition fne0 (a : float) : bool := negb (PrimFloat.eqb a zero).  (* a != 0.0 *)
Definition is_lin (o : opts) : bool := match o_kind o with KLin => true | _ => false end.

(* the linear loop has neither stall detection nor the forced complex-step iteration *)
Definition stall_limit (o : opts) : Z := if is_lin o then 0 else o_stall_limit o.
Definition under_cs (o : opts) : bool := if is_lin o then false else o_cs o.

(* norm > atol and norm / norm0 > rtol *)
Definition not_met (o : opts) (norm norm0 : float) : bool :=
  fgt norm (o_atol o) && fgt (PrimFloat.div norm norm0) (o_rtol o).

(* norm0 = norm if norm != 0.0 else 1.0 *)
Definition norm0_of (norm : float) : float := if fne0 norm then norm else one.

(* _iter_initialize: (iteration count after it, norm0, norm, norms read) *)
Definition init_vals (o : opts) (ns : nat -> float) : Z * float * float * nat :=
  match o_kind o with
  | KBase =>
      if 0 <? o_maxiter o then (0, norm0_of (ns 0%nat), ns 0%nat, 1%nat)
      else (0, one, one, 0%nat)
  | KGS apply_nl =>
      if 0 <? o_maxiter o then
        (* _run_apply: (maxiter < 2 and itercount < 1) or use_apply_nonlinear -> plain apply;
           elif itercount < 1 -> one Gauss-Seidel sweep, self._iter_count += 1 *)
        let it := if (o_maxiter o <? 2) || apply_nl then 0 else 1 in
        (it, norm0_of (ns 0%nat), ns 0%nat, 1%nat)
      else (0, one, one, 0%nat)
  | KAlways => (0, norm0_of (ns 0%nat), ns 0%nat, 1%nat)
  | KLin =>
      if 1 <? o_maxiter o then (0, norm0_of (ns 0%nat), ns 0%nat, 1%nat)
      else (0, one, one, 0%nat)
  end.

Definition init (o : opts) (ns : nat -> float) : st :=
  let v := init_vals o ns in
  let it := fst (fst (fst v)) in
  let n0 := snd (fst (fst v)) in
  let n := snd (fst v) in
  let rd := snd v in
  mkst it n n0 false 0 n0 (under_cs o) rd 0%nat.

(* the while condition *)
Definition cond (o : opts) (s : st) : bool :=
  ((s_iter s <? o_maxiter o) && not_met o (s_norm s) (s_norm0 s) && negb (s_stalled s))
  || s_force s.

(* one pass through the body of the while loop *)
Definition body (o : opts) (ns : nat -> float) (s : st) : st :=
  let force' := if under_cs o then false else s_force s in
  let iter' := s_iter s + 1 in
  let norm := ns (s_read s) in
  let norm0 := if PrimFloat.eqb (s_norm0 s) zero then one else s_norm0 s in
  let rel := PrimFloat.div norm norm0 in
  if 0 <? stall_limit o then
    let nfs := if o_stall_rel o then rel else norm in
    let diff := PrimFloat.abs (PrimFloat.sub (s_snorm s) nfs) in
    if PrimFloat.leb diff (o_stall_tol o) then
      let c := s_scount s + 1 in
      mkst iter' norm norm0 (if stall_limit o <=? c then true else s_stalled s) c (s_snorm s)
           force' (S (s_read s)) (S (s_single s))
    else
      mkst iter' norm norm0 (s_stalled s) 0 nfs force' (S (s_read s)) (S (s_single s))
  else
    mkst iter' norm norm0 (s_stalled s) (s_scount s) (s_snorm s) force' (S (s_read s)) (S (s_single s)).

Fixpoint loop (o : opts) (ns : nat -> float) (fuel : nat) (s : st) : st :=
  match fuel with
  | O => s
  | S f => if cond o s then loop o ns f (body o ns s) else s
  end.

Fixpoint iter_body (o : opts) (ns : nat -> float) (n : nat) (s : st) : st :=
  match n with
  | O => s
  | S k => body o ns (iter_body o ns k s)
  end.

(* enough for every run: one forced pass plus (maxiter - iter) regular ones *)
Definition fuel_of (o : opts) (s : st) : nat := S (Z.to_nat (o_maxiter o - s_iter s)).

Definition final (o : opts) (ns : nat -> float) : st :=
  loop o ns (fuel_of o (init o ns)) (init o ns).

Inductive outcome := Converged | InfNaN | Stalled | MaxIter.

Definition inf_or_nan (x : float) : bool := is_infinity x || is_nan x.

(* the if / elif chain after the loop, as it is in the repository *)
Definition classify_cur (o : opts) (s : st) : outcome :=
  if inf_or_nan (s_norm s) then InfNaN
  else if s_stalled s then Stalled
  else if not_met o (s_norm s) (s_norm0 s) then MaxIter
  else Converged.

(* repaired chain (props/C09/fix_1.diff): a stall is a failure only when the iterate it stopped
   on does not meet a tolerance *)
Definition classify (o : opts) (s : st) : outcome :=
  if inf_or_nan (s_norm s) then InfNaN
  else if s_stalled s && not_met o (s_norm s) (s_norm0 s) then Stalled
  else if not_met o (s_norm s) (s_norm0 s) then MaxIter
  else Converged.

Definition is_conv (c : outcome) : bool := match c with Converged => true | _ => false end.

Definition outcome_of (o : opts) (ns : nat -> float) : outcome := classify o (final o ns).
Definition outcome_cur (o : opts) (ns : nat -> float) : outcome := classify_cur o (final o ns).

(* report_failure raises AnalysisError iff err_on_non_converge *)
Definition raised (o : opts) (ns : nat -> float) : bool := o_err o && negb (is_conv (outcome_of o ns)).
Definition raised_cur (o : opts) (ns : nat -> float) : bool := o_err o && negb (is_conv (outcome_cur o ns)).

(* "the final iterate meets a tolerance": finite and not above both tolerances *)
Definition met_final (o : opts) (s : st) : bool :=
  negb (inf_or_nan (s_norm s)) && negb (not_met o (s_norm s) (s_norm0 s)).

(* ---- executable interface for the correspondence ---- *)
Definition stream (l : list float) : nat -> float := fun k => nth k l nan.

Definition code (c : outcome) : Z :=
  match c with Converged => 0 | InfNaN => 1 | Stalled => 2 | MaxIter => 3 end.

Definition run_gen (cur : bool) (o : opts) (l : list float) : val :=
  let s := final o (stream l) in
  let c := if cur then classify_cur o s else classify o s in
  VL [VZ (s_iter s); VZ (Z.of_nat (s_single s)); VZ (Z.of_nat (s_read s)); VZ (code c);
      VB (o_err o && negb (is_conv c))].

Definition run (o : opts) (l : list float) : val := run_gen false o l.
Definition run_cur (o : opts) (l : list float) : val := run_gen true o l.
