(* C09 — proofs about the solver-loop model.  All statements hold for every norm stream
   [ns : nat -> float], every option record and unbounded maxiter; no property of binary64
   arithmetic is assumed: the theorems speak about the boolean results of the comparisons the
   code performs. *)
From Coq Require Import ZArith List Bool Lia PrimFloat.
From OMV Require Import Base.Val C09.Model.
Import ListNotations.
Open Scope Z_scope.

(* ---------- projections of one loop pass ---------- *)

Lemma body_iter : forall o ns s, s_iter (body o ns s) = s_iter s + 1.
Proof. intros; unfold body; destruct (0 <? stall_limit o); [destruct (PrimFloat.leb _ _)|]; reflexivity. Qed.

Lemma body_force : forall o ns s,
  s_force (body o ns s) = if under_cs o then false else s_force s.
Proof. intros; unfold body; destruct (0 <? stall_limit o); [destruct (PrimFloat.leb _ _)|]; reflexivity. Qed.

Lemma body_single : forall o ns s, s_single (body o ns s) = S (s_single s).
Proof. intros; unfold body; destruct (0 <? stall_limit o); [destruct (PrimFloat.leb _ _)|]; reflexivity. Qed.

Lemma body_read : forall o ns s, s_read (body o ns s) = S (s_read s).
Proof. intros; unfold body; destruct (0 <? stall_limit o); [destruct (PrimFloat.leb _ _)|]; reflexivity. Qed.

Lemma body_norm : forall o ns s, s_norm (body o ns s) = ns (s_read s).
Proof. intros; unfold body; destruct (0 <? stall_limit o); [destruct (PrimFloat.leb _ _)|]; reflexivity. Qed.

(* ---------- loop = iterate the body while the condition holds ---------- *)

Lemma iter_body_shift : forall o ns n s,
  iter_body o ns n (body o ns s) = body o ns (iter_body o ns n s).
Proof. induction n; intros; cbn; [reflexivity | now rewrite IHn]. Qed.

Lemma loop_char : forall o ns fuel s,
  exists n, (n <= fuel)%nat /\ loop o ns fuel s = iter_body o ns n s /\
            (forall k, (k < n)%nat -> cond o (iter_body o ns k s) = true) /\
            ((n < fuel)%nat -> cond o (iter_body o ns n s) = false).
Proof.
  induction fuel as [|f IH]; intros s.
  - exists 0%nat; cbn; repeat split; try lia; intros; lia.
  - cbn [loop]. destruct (cond o s) eqn:C.
    + destruct (IH (body o ns s)) as (n & Hle & He & Hk & Hn).
      exists (S n). repeat split.
      * lia.
      * cbn [iter_body]. rewrite He. apply iter_body_shift.
      * intros k Hlt. destruct k; [exact C|].
        cbn [iter_body]. rewrite <- iter_body_shift. apply Hk; lia.
      * intros Hlt. cbn [iter_body]. rewrite <- iter_body_shift. apply Hn; lia.
    + exists 0%nat; cbn; repeat split; try lia; intros; try lia; exact C.
Qed.

(* the forced pass can only be pending when the system is under complex step *)
Definition force_inv (o : opts) (s : st) : Prop := s_force s = true -> under_cs o = true.

Definition measure (o : opts) (s : st) : nat :=
  ((if s_force s then 1 else 0) + Z.to_nat (o_maxiter o - s_iter s))%nat.

Lemma body_force_inv : forall o ns s, force_inv o s -> force_inv o (body o ns s).
Proof.
  unfold force_inv; intros o ns s H. rewrite body_force.
  destruct (under_cs o); [discriminate | exact H].
Qed.

Lemma body_measure : forall o ns s,
  force_inv o s -> cond o s = true -> (measure o (body o ns s) < measure o s)%nat.
Proof.
  unfold force_inv, measure, cond; intros o ns s HI HC.
  rewrite body_force, body_iter.
  destruct (s_force s) eqn:F.
  - rewrite (HI eq_refl). lia.
  - rewrite orb_false_r in HC. apply andb_prop in HC as [HC _]. apply andb_prop in HC as [HC _].
    apply Z.ltb_lt in HC. destruct (under_cs o); lia.
Qed.

Lemma loop_exits : forall o ns fuel s,
  force_inv o s -> (measure o s <= fuel)%nat -> cond o (loop o ns fuel s) = false.
Proof.
  induction fuel as [|f IH]; intros s HI HM.
  - cbn. unfold measure in HM. unfold cond.
    destruct (s_force s); [lia|]. rewrite orb_false_r.
    destruct (s_iter s <? o_maxiter o) eqn:E; [|reflexivity].
    apply Z.ltb_lt in E. lia.
  - cbn [loop]. destruct (cond o s) eqn:C; [|exact C].
    apply IH; [now apply body_force_inv|].
    pose proof (body_measure o ns s HI C). lia.
Qed.

Lemma init_force_inv : forall o ns, force_inv o (init o ns).
Proof. unfold force_inv, init; cbn; auto. Qed.

Lemma init_measure : forall o ns, (measure o (init o ns) <= fuel_of o (init o ns))%nat.
Proof. intros; unfold measure, fuel_of. destruct (s_force _); lia. Qed.

(* the run is the while loop of the code: the body is repeated exactly as long as the
   condition holds, and the fuel never runs out *)
Lemma final_char : forall o ns,
  exists n, final o ns = iter_body o ns n (init o ns) /\
            (forall k, (k < n)%nat -> cond o (iter_body o ns k (init o ns)) = true) /\
            cond o (final o ns) = false.
Proof.
  intros o ns. unfold final.
  destruct (loop_char o ns (fuel_of o (init o ns)) (init o ns)) as (n & _ & He & Hk & _).
  exists n; repeat split; auto.
  apply loop_exits; [apply init_force_inv | apply init_measure].
Qed.

(* ---------- invariants of every reachable state ---------- *)

Definition iter0 (o : opts) (ns : nat -> float) : Z := s_iter (init o ns).

Lemma iter0_cases : forall o ns,
  iter0 o ns = 0 \/ (iter0 o ns = 1 /\ 2 <= o_maxiter o).
Proof.
  intros; unfold iter0, init, init_vals.
  destruct (o_kind o) as [|a| |]; cbn.
  - destruct (0 <? o_maxiter o); cbn; auto.
  - destruct (0 <? o_maxiter o) eqn:E; cbn; auto.
    destruct (o_maxiter o <? 2) eqn:E2; cbn; auto.
    destruct a; cbn; auto. right; split; auto. apply Z.ltb_ge in E2; lia.
  - auto.
  - destruct (1 <? o_maxiter o); cbn; auto.
Qed.

Record reach_inv (o : opts) (ns : nat -> float) (s : st) : Prop := {
  ri_force : s_force s = true -> under_cs o = true /\ s_iter s = iter0 o ns /\ s_single s = 0%nat;
  ri_iter : s_iter s <= Z.max 0 (o_maxiter o) \/
            (under_cs o = true /\ s_single s = 1%nat /\ s_iter s = 1);
  ri_count : s_iter s = iter0 o ns + Z.of_nat (s_single s);
  ri_read : s_read s = (s_read (init o ns) + s_single s)%nat;
  ri_stall : s_stalled s = true -> 0 < stall_limit o /\ stall_limit o <= s_scount s
}.

Lemma init_reach : forall o ns, reach_inv o ns (init o ns).
Proof.
  intros o ns. pose proof (iter0_cases o ns) as H0. unfold iter0 in *.
  constructor.
  - intros F. unfold init in F |- *; cbn in *. auto.
  - left. destruct H0 as [H0|[H0 H1]]; rewrite H0; lia.
  - unfold init; cbn; lia.
  - unfold init; cbn; lia.
  - unfold init; cbn; discriminate.
Qed.

Lemma body_stall : forall o ns s,
  (s_stalled s = true -> 0 < stall_limit o /\ stall_limit o <= s_scount s) ->
  cond o s = true -> s_force s = false ->
  s_stalled (body o ns s) = true -> 0 < stall_limit o /\ stall_limit o <= s_scount (body o ns s).
Proof.
  intros o ns s HS HC HF. unfold cond in HC. rewrite HF, orb_false_r in HC.
  apply andb_prop in HC as [_ HC]. apply negb_true_iff in HC.
  unfold body. destruct (0 <? stall_limit o) eqn:E.
  - apply Z.ltb_lt in E.
    destruct (PrimFloat.leb _ _).
    + cbn [s_stalled s_scount]. destruct (stall_limit o <=? s_scount s + 1) eqn:E2.
      * intros _. apply Z.leb_le in E2. lia.
      * rewrite HC; discriminate.
    + cbn [s_stalled]. rewrite HC; discriminate.
  - cbn [s_stalled]. rewrite HC; discriminate.
Qed.

Lemma body_stall_forced : forall o ns s,
  s_stalled s = false ->
  s_stalled (body o ns s) = true -> 0 < stall_limit o /\ stall_limit o <= s_scount (body o ns s).
Proof.
  intros o ns s HC. unfold body. destruct (0 <? stall_limit o) eqn:E.
  - apply Z.ltb_lt in E.
    destruct (PrimFloat.leb _ _).
    + cbn [s_stalled s_scount]. destruct (stall_limit o <=? s_scount s + 1) eqn:E2.
      * intros _. apply Z.leb_le in E2. lia.
      * rewrite HC; discriminate.
    + cbn [s_stalled]. rewrite HC; discriminate.
  - cbn [s_stalled]. rewrite HC; discriminate.
Qed.

Lemma init_not_stalled : forall o ns, s_stalled (init o ns) = false.
Proof. reflexivity. Qed.

Lemma body_reach : forall o ns s,
  reach_inv o ns s -> cond o s = true ->
  (s_force s = true -> s_stalled s = false) ->
  reach_inv o ns (body o ns s).
Proof.
  intros o ns s [Hf Hi Hc Hr Hs] HC HFS.
  pose proof (iter0_cases o ns) as H0.
  constructor.
  - rewrite body_force. destruct (under_cs o) eqn:U; [discriminate|].
    intros F. destruct (Hf F) as (U' & _); discriminate.
  - rewrite body_iter, body_single.
    unfold cond in HC. destruct (s_force s) eqn:F.
    + destruct (Hf eq_refl) as (U & Hit & Hsg). rewrite Hit, Hsg.
      destruct H0 as [H0|[H0 H1]]; rewrite H0.
      * destruct (Z.le_gt_cases 1 (o_maxiter o)); [left; lia | right; auto].
      * left; lia.
    + rewrite orb_false_r in HC. apply andb_prop in HC as [HC _]. apply andb_prop in HC as [HC _].
      apply Z.ltb_lt in HC. left; lia.
  - rewrite body_iter, body_single. lia.
  - rewrite body_read, body_single. lia.
  - destruct (s_force s) eqn:F.
    + apply body_stall_forced. auto.
    + apply body_stall; auto.
Qed.

Lemma force_only_initially : forall o ns n,
  (forall k, (k < n)%nat -> cond o (iter_body o ns k (init o ns)) = true) ->
  reach_inv o ns (iter_body o ns n (init o ns)) /\
  (s_force (iter_body o ns n (init o ns)) = true -> n = 0%nat).
Proof.
  induction n; intros Hk.
  - cbn. split; [apply init_reach | auto].
  - destruct IHn as [IR IF]; [intros; apply Hk; lia|].
    cbn [iter_body]. split.
    + apply body_reach; auto.
      intros F. rewrite (IF F). cbn. reflexivity.
    + rewrite body_force. destruct (under_cs o) eqn:U; [discriminate|].
      intros F. destruct (ri_force _ _ _ IR F) as (U' & _). congruence.
Qed.

Lemma final_reach : forall o ns, reach_inv o ns (final o ns).
Proof.
  intros o ns. destruct (final_char o ns) as (n & He & Hk & _).
  rewrite He. apply force_only_initially; auto.
Qed.

(* ---------- the property's clauses ---------- *)

(* at most maxiter iterations, except the single forced iteration under complex step *)
Lemma iters_le_maxiter : forall o ns,
  s_iter (final o ns) <= Z.max 0 (o_maxiter o) \/
  (under_cs o = true /\ s_single (final o ns) = 1%nat /\ s_iter (final o ns) = 1).
Proof. intros; apply (ri_iter _ _ _ (final_reach o ns)). Qed.

Lemma iters_le_maxiter_no_cs : forall o ns,
  under_cs o = false -> s_iter (final o ns) <= Z.max 0 (o_maxiter o).
Proof. intros o ns U. destruct (iters_le_maxiter o ns) as [H|[H _]]; [exact H|congruence]. Qed.

(* bookkeeping: every counted iteration is one _single_iteration call and one norm evaluation
   (plus the first Gauss-Seidel sweep that NonlinearBlockGS counts inside _run_apply) *)
Lemma counts_consistent : forall o ns,
  s_iter (final o ns) = iter0 o ns + Z.of_nat (s_single (final o ns)) /\
  s_read (final o ns) = (s_read (init o ns) + s_single (final o ns))%nat /\
  (iter0 o ns = 0 \/ iter0 o ns = 1 /\ 2 <= o_maxiter o).
Proof.
  intros. pose proof (final_reach o ns) as R. split; [apply (ri_count _ _ _ R)|].
  split; [apply (ri_read _ _ _ R) | apply iter0_cases].
Qed.

(* the solver iterates again only from an iterate that meets no tolerance (and is below maxiter,
   not stalled) - except for the forced first pass under complex step; and when it stops, the
   while condition is false *)
Lemma stops_at_first_met : forall o ns,
  exists n, final o ns = iter_body o ns n (init o ns) /\
    (forall k, (k < n)%nat ->
       let s := iter_body o ns k (init o ns) in
       (not_met o (s_norm s) (s_norm0 s) = true /\ s_iter s < o_maxiter o /\ s_stalled s = false)
       \/ (k = 0%nat /\ under_cs o = true)) /\
    (o_maxiter o <= s_iter (final o ns) \/
     not_met o (s_norm (final o ns)) (s_norm0 (final o ns)) = false \/
     s_stalled (final o ns) = true).
Proof.
  intros o ns. destruct (final_char o ns) as (n & He & Hk & Hc).
  exists n. split; [exact He|]. split.
  - intros k Hlt s. pose proof (Hk k Hlt) as C. fold s in C.
    destruct (force_only_initially o ns k) as [IR IF]; [intros; apply Hk; lia|]. fold s in IR, IF.
    unfold cond in C. destruct (s_force s) eqn:F.
    + right. split; [auto|]. apply (ri_force _ _ _ IR F).
    + left. rewrite orb_false_r in C. apply andb_prop in C as [C C3]. apply andb_prop in C as [C1 C2].
      apply Z.ltb_lt in C1. apply negb_true_iff in C3. auto.
  - unfold cond in Hc. apply orb_false_iff in Hc as [Hc _].
    destruct (s_iter (final o ns) <? o_maxiter o) eqn:E1; [|apply Z.ltb_ge in E1; auto].
    destruct (not_met o _ _) eqn:E2; [|auto].
    destruct (s_stalled (final o ns)); [auto|discriminate].
Qed.

(* success is sound: a solve that reports success leaves a finite norm that is not above both
   tolerances (present code and repaired code alike) *)
Lemma success_sound : forall o ns,
  outcome_of o ns = Converged ->
  inf_or_nan (s_norm (final o ns)) = false /\
  not_met o (s_norm (final o ns)) (s_norm0 (final o ns)) = false.
Proof.
  intros o ns. unfold outcome_of, classify.
  destruct (inf_or_nan _); [discriminate|].
  destruct (not_met o _ _); [|auto].
  destruct (s_stalled _); discriminate.
Qed.

Lemma success_sound_cur : forall o ns,
  outcome_cur o ns = Converged ->
  inf_or_nan (s_norm (final o ns)) = false /\
  not_met o (s_norm (final o ns)) (s_norm0 (final o ns)) = false.
Proof.
  intros o ns. unfold outcome_cur, classify_cur.
  destruct (inf_or_nan _); [discriminate|].
  destruct (s_stalled _); [discriminate|].
  destruct (not_met o _ _); [discriminate|auto].
Qed.

(* failure is reported exactly when the final iterate does not meet a tolerance (repaired chain) *)
Lemma failure_exact : forall o ns,
  is_conv (outcome_of o ns) = false <-> met_final o (final o ns) = false.
Proof.
  intros o ns. unfold outcome_of, classify, met_final.
  destruct (inf_or_nan _); cbn; [tauto|].
  destruct (not_met o _ _); cbn.
  - destruct (s_stalled _); cbn; tauto.
  - rewrite andb_false_r. cbn. split; discriminate.
Qed.

(* the present code violates it: the witness of DESIGN section 6 *)
Definition refute_opts : opts :=
  mkopts KAlways 3 0x1.b7cdfd9d7bdbbp-34%float 0x1.b7cdfd9d7bdbbp-34%float 1 10%float false true false.
Definition refute_norms : nat -> float := stream [1%float; 0x1.5fd7fe1796495p-37%float].

Lemma failure_exact_refuted :
  exists o ns, met_final o (final o ns) = true /\ outcome_cur o ns = Stalled /\ raised_cur o ns = true.
Proof. exists refute_opts, refute_norms. vm_compute. auto. Qed.

(* a reported stall is a genuine one *)
Lemma stalled_genuine : forall o ns,
  outcome_of o ns = Stalled ->
  0 < stall_limit o /\ stall_limit o <= s_scount (final o ns) /\
  not_met o (s_norm (final o ns)) (s_norm0 (final o ns)) = true.
Proof.
  intros o ns. unfold outcome_of, classify.
  destruct (inf_or_nan _); [discriminate|].
  destruct (s_stalled (final o ns)) eqn:S; cbn.
  - destruct (not_met o _ _) eqn:N; [|discriminate].
    intros _. destruct (ri_stall _ _ _ (final_reach o ns) S). auto.
  - destruct (not_met o _ _); discriminate.
Qed.

(* AnalysisError iff err_on_non_converge and the final iterate does not meet a tolerance *)
Lemma raise_iff_failure : forall o ns,
  raised o ns = true <-> (o_err o = true /\ met_final o (final o ns) = false).
Proof.
  intros o ns. unfold raised. rewrite andb_true_iff, negb_true_iff, failure_exact. tauto.
Qed.

(* non-vacuity: a run that iterates, converges and reports success; one that hits maxiter *)
Example run_converges :
  let o := mkopts KAlways 5 0x1p-20%float 0x1p-30%float 0 0%float false true false in
  let ns := stream [8%float; 4%float; 0x1p-21%float; 1%float] in
  s_iter (final o ns) = 2 /\ outcome_of o ns = Converged /\ raised o ns = false.
Proof. vm_compute. auto. Qed.

Example run_maxiter :
  let o := mkopts (KGS false) 3 0x1p-20%float 0x1p-30%float 0 0%float false true false in
  let ns := stream [8%float; 4%float; 2%float; 1%float] in
  s_iter (final o ns) = 3 /\ s_single (final o ns) = 2%nat /\ outcome_of o ns = MaxIter /\ raised o ns = true.
Proof. vm_compute. auto. Qed.

Example run_forced_cs :
  let o := mkopts KBase 0 0x1p-20%float 0x1p-30%float 0 0%float false false true in
  let ns := stream [0%float; 4%float] in
  s_iter (final o ns) = 1 /\ s_single (final o ns) = 1%nat /\ outcome_of o ns = Converged.
Proof. vm_compute. auto. Qed.
