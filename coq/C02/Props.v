(* C02 — property theorems (statements only; proofs by [exact] of lemmas in Proofs.v). *)
From Coq Require Import ZArith QArith List Bool.
From OMV Require Import Base.Val C11.Model C11.Proofs C02.Model C02.Proofs.
Import ListNotations.
Open Scope Q_scope.

(* Data transfers: the forward scatter  in[in_inds] = out[out_inds]  and the reverse bincount gather are exact
   adjoints, for all index lists (input positions pairwise distinct = input ranges do not overlap; source
   positions arbitrary, repeated src_indices included) and all vectors. *)
Theorem C02_transfer_adjoint :
  forall (ii oi : list nat) (v w : list Q) (n_in n_out : nat),
    NoDup ii -> (forall i, In i ii -> (i < n_in)%nat) -> (forall o, In o oi -> (o < n_out)%nat) ->
    length ii = length oi -> length w = n_in -> length v = n_out ->
    dot w (xfer_fwd ii oi v (zeros n_in)) == dot (xfer_rev ii oi w (zeros n_out)) v.
Proof. exact transfer_adjoint. Qed.
Print Assumptions C02_transfer_adjoint.

(* Sub-jacobians and assembled matrices: <w, J v> = <J^T w, v> for every list of stored entries (duplicates,
   any order): Subjac._apply_fwd/_apply_rev of every kind, COO/CSC/CSR _prod with the transpose, and the
   dictionary application, which C11 shows to be products of such lists. *)
Theorem C02_matrix_adjoint :
  forall (T : list triple) (nr nc : nat) (v w : list Q),
    in_shape T nr nc -> length w = nr -> length v = nc ->
    dot w (prod_fwd T nr v) == dot (prod_rev T nc w) v.
Proof. exact matrix_adjoint. Qed.
Print Assumptions C02_matrix_adjoint.

(* unit-factor scaling around a transfer is self-adjoint *)
Theorem C02_scale_adjoint :
  forall (w x sc : list Q), dot w (vmul x sc) == dot (vmul w sc) x.
Proof. exact scale_adjoint. Qed.
Print Assumptions C02_scale_adjoint.

(* masked apply_linear scopes: zeroing the out-of-scope entries is self-adjoint *)
Theorem C02_masked_adjoint :
  forall (m : list nat) (w v : list Q), length w = length v -> dot w (masked v m) == dot (masked w m) v.
Proof. exact masked_adjoint. Qed.
Print Assumptions C02_masked_adjoint.

(* composition: the adjoint of a chain of operators is the reversed chain of the adjoints *)
Theorem C02_adjoint_compose :
  forall (n m p : nat) (f g f' g' : list Q -> list Q),
    adjoint_pair n m f g -> adjoint_pair m p f' g' ->
    adjoint_pair n p (fun v => f' (f v)) (fun w => g (g' w)).
Proof. exact adjoint_compose. Qed.
Print Assumptions C02_adjoint_compose.

(* linear solves in fwd vs rev: M x = b and M^T y = c imply <c, x> = <y, b> *)
Theorem C02_solve_adjoint :
  forall (T : list triple) (n : nat) (x b y c : list Q),
    in_shape T n n -> length x = n -> length y = n ->
    (forall r, qnth (prod_fwd T n x) r == qnth b r) -> length b = n ->
    (forall r, qnth (prod_rev T n y) r == qnth c r) -> length c = n ->
    dot c x == dot y b.
Proof. exact solve_adjoint. Qed.
Print Assumptions C02_solve_adjoint.

(* apply_linear of a group without assembled jacobian — forward: transfer (with unit scaling) then every
   sub-jacobian; reverse: every transposed sub-jacobian then the reverse transfer — is an adjoint pair on
   (outputs, pass-through inputs): the internally connected inputs are overwritten in forward mode, so only the
   masked (externally connected) part of d_inputs pairs with the given inputs.  For all entry lists, index
   lists, scalers and vectors. *)
Theorem C02_group_apply_adjoint :
  forall (T : list triple) (nout nin : nat) (ii oi : list nat) (sc v_out v_in w : list Q),
    in_shape T nout (nout + nin) ->
    NoDup ii -> (forall i, In i ii -> (i < nin)%nat) -> (forall o, In o oi -> (o < nout)%nat) ->
    length ii = length oi -> length sc = nin -> length v_out = nout -> length v_in = nin -> length w = nout ->
    let d_in := skipn nout (sp_rev T w (zeros (nout + nin))) in
    dot w (apply_fwd T nout ii oi sc v_out v_in)
    == dot (fst (apply_rev T nout nin ii oi sc w)) v_out + dot (masked (vmul d_in sc) ii) (vdiv v_in sc).
Proof. exact group_apply_adjoint. Qed.
Print Assumptions C02_group_apply_adjoint.
