(* C02 — adjointness proofs. *)
From Coq Require Import ZArith QArith List Bool Lia Arith Qring Qfield.
From OMV Require Import Base.Val C11.Model C11.Proofs C02.Model.
Import ListNotations.
Open Scope Q_scope.

(* ------------------------------------------------------------------ dot product *)

Lemma dot_nil_l : forall b, dot [] b == 0.
Proof. reflexivity. Qed.

Lemma dot_cons : forall x a y b, dot (x :: a) (y :: b) == x * y + dot a b.
Proof. intros. unfold dot. simpl. reflexivity. Qed.

Lemma dot_comm : forall a b, dot a b == dot b a.
Proof.
  induction a; destruct b; try reflexivity. rewrite !dot_cons, IHa. ring.
Qed.

Lemma dot_zeros_r : forall w n, dot w (zeros n) == 0.
Proof.
  induction w; destruct n; try reflexivity. unfold zeros in *. simpl. rewrite dot_cons, IHw. ring.
Qed.

Lemma dot_zeros_l : forall n v, dot (zeros n) v == 0.
Proof. intros. rewrite dot_comm. apply dot_zeros_r. Qed.

Lemma dot_add_at : forall w acc r y, length w = length acc -> (r < length acc)%nat ->
    dot w (add_at acc r y) == dot w acc + qnth w r * y.
Proof.
  unfold qnth. induction w; destruct acc; simpl; intros; try lia.
  destruct r; simpl; rewrite !dot_cons.
  - ring.
  - rewrite IHw by lia. ring.
Qed.

Lemma dot_set_q : forall w l i x, length w = length l -> (i < length l)%nat ->
    dot w (set_q l i x) == dot w l + qnth w i * (x - qnth l i).
Proof.
  unfold qnth. induction w; destruct l; simpl; intros; try lia.
  destruct i; simpl; rewrite !dot_cons.
  - ring.
  - rewrite IHw by lia. ring.
Qed.

(* ------------------------------------------------------------------ stored-entry products (sub-jacobians, matrices) *)

(* the bilinear form  sum over stored entries of  value * w[row] * v[col] *)
Definition bil (T : list triple) (w v : list Q) : Q :=
  qsum (map (fun t => snd t * qnth w (fst (fst t)) * qnth v (snd (fst t))) T).

Lemma dot_sp_fwd : forall T v w acc, length w = length acc ->
    (forall t, In t T -> (fst (fst t) < length acc)%nat) ->
    dot w (sp_fwd T v acc) == dot w acc + bil T w v.
Proof.
  induction T as [|[[r c] x] T IH]; intros v w acc L B; unfold bil in *; simpl; [ring|].
  rewrite IH.
  - rewrite dot_add_at by (auto; apply (B (r, c, x)); left; auto). ring.
  - rewrite length_add_at. auto.
  - intros t I. rewrite length_add_at. apply B. right; auto.
Qed.

Lemma dot_sp_rev : forall T w v acc, length v = length acc ->
    (forall t, In t T -> (snd (fst t) < length acc)%nat) ->
    dot (sp_rev T w acc) v == dot acc v + bil T w v.
Proof.
  induction T as [|[[r c] x] T IH]; intros w v acc L B; unfold bil in *; simpl; [ring|].
  rewrite IH.
  - rewrite (dot_comm (add_at acc c (x * qnth w r)) v).
    rewrite dot_add_at by (auto; apply (B (r, c, x)); left; auto).
    rewrite (dot_comm v acc). ring.
  - rewrite length_add_at. auto.
  - intros t I. rewrite length_add_at. apply B. right; auto.
Qed.

(* <w, J v> = <J^T w, v> for every list of stored entries (duplicates included): sub-jacobians of every kind,
   COO / CSC / CSR matrices, dictionary application *)
Lemma matrix_adjoint : forall T nr nc v w,
    in_shape T nr nc -> length w = nr -> length v = nc ->
    dot w (prod_fwd T nr v) == dot (prod_rev T nc w) v.
Proof.
  intros T nr nc v w S Lw Lv. unfold prod_fwd, prod_rev.
  rewrite dot_sp_fwd, dot_sp_rev.
  - rewrite dot_zeros_r, dot_zeros_l. reflexivity.
  - unfold zeros. rewrite repeat_length. auto.
  - intros t I. unfold zeros. rewrite repeat_length. apply S; auto.
  - unfold zeros. rewrite repeat_length. auto.
  - intros t I. unfold zeros. rewrite repeat_length. apply S; auto.
Qed.

(* ------------------------------------------------------------------ transfers *)

(* sum over the connections of  w[in_k] * v[out_k] *)
Fixpoint xsum (w v : list Q) (ii oi : list nat) : Q :=
  match ii, oi with
  | i :: ii', o :: oi' => qnth w i * qnth v o + xsum w v ii' oi'
  | _, _ => 0
  end.

Lemma dot_xfer_rev : forall ii oi w v out, length v = length out ->
    (forall o, In o oi -> (o < length out)%nat) ->
    dot (xfer_rev ii oi w out) v == dot out v + xsum w v ii oi.
Proof.
  unfold xfer_rev, gatherq.
  induction ii as [|i ii IH]; intros oi w v out L B; simpl.
  - destruct oi; simpl; ring.
  - destruct oi as [|o oi]; simpl; [ring|].
    rewrite IH.
    + rewrite (dot_comm (add_at out o (qnth w i)) v).
      rewrite dot_add_at by (auto; apply B; left; auto). rewrite (dot_comm v out). ring.
    + rewrite length_add_at. auto.
    + intros o' I. rewrite length_add_at. apply B. right; auto.
Qed.

Lemma qnth_set_q_neq : forall l i j x, i <> j -> qnth (set_q l i x) j = qnth l j.
Proof. unfold qnth. induction l; destruct i; destruct j; simpl; intros; auto; try lia. Qed.

Fixpoint xsum0 (w l : list Q) (ii : list nat) : Q :=
  match ii with i :: ii' => qnth w i * qnth l i + xsum0 w l ii' | [] => 0 end.

Lemma xsum0_set_q : forall ii w l i x, ~ In i ii -> xsum0 w (set_q l i x) ii = xsum0 w l ii.
Proof.
  induction ii; intros; simpl; auto. rewrite IHii by (intro; apply H; right; auto).
  rewrite qnth_set_q_neq by (intro; subst; apply H; left; auto). reflexivity.
Qed.

Lemma dot_scatter : forall ii oi w v l,
    NoDup ii -> (forall i, In i ii -> (i < length l)%nat) -> length w = length l -> length ii = length oi ->
    dot w (scatter_q l ii (gatherq v oi)) == dot w l + xsum w v ii oi - xsum0 w l ii.
Proof.
  unfold gatherq.
  induction ii as [|i ii IH]; intros oi w v l ND B L LE; destruct oi as [|o oi]; simpl in *; try discriminate.
  - ring.
  - inversion ND; subst.
    rewrite IH; auto.
    + rewrite dot_set_q by (auto; apply B; left; auto).
      rewrite xsum0_set_q by auto. ring.
    + intros j I. rewrite length_set_q. apply B. right; auto.
    + rewrite length_set_q. auto.
Qed.

Lemma xsum0_zeros : forall ii w n, xsum0 w (zeros n) ii == 0.
Proof.
  induction ii; intros; simpl; [reflexivity|]. rewrite IHii, qnth_zeros. ring.
Qed.

(* THE TRANSFER PAIR IS ADJOINT: for all index lists (input indices without repetition, i.e. input ranges do
   not overlap; output indices arbitrary, with repeats) and all vectors *)
Lemma transfer_adjoint : forall ii oi v w n_in n_out,
    NoDup ii -> (forall i, In i ii -> (i < n_in)%nat) -> (forall o, In o oi -> (o < n_out)%nat) ->
    length ii = length oi -> length w = n_in -> length v = n_out ->
    dot w (xfer_fwd ii oi v (zeros n_in)) == dot (xfer_rev ii oi w (zeros n_out)) v.
Proof.
  intros ii oi v w n_in n_out ND Bi Bo LE Lw Lv. unfold xfer_fwd.
  assert (Z : length (zeros n_in) = n_in) by (unfold zeros; apply repeat_length).
  assert (Z2 : length (zeros n_out) = n_out) by (unfold zeros; apply repeat_length).
  rewrite dot_scatter by (auto; rewrite ?Z; auto).
  rewrite dot_xfer_rev by (rewrite ?Z2; auto).
  rewrite dot_zeros_r, dot_zeros_l, xsum0_zeros. ring.
Qed.

(* scaling by a fixed vector is self-adjoint (unit factors applied around the transfer) *)
Lemma scale_adjoint : forall w x sc, dot w (vmul x sc) == dot (vmul w sc) x.
Proof.
  unfold vmul. induction w as [|a w IH]; intros x sc.
  - destruct x; destruct sc; simpl; reflexivity.
  - destruct x as [|b x]; destruct sc as [|s sc]; simpl; try reflexivity.
    rewrite !dot_cons, IH. ring.
Qed.

(* masking (zeroing the entries outside the scope of a mat-vec product) is self-adjoint *)
Lemma set0_set_q : forall v i, set0 v i = set_q v i 0.
Proof. induction v; destruct i; simpl; auto. f_equal. apply IHv. Qed.

Lemma set0_comm : forall v i j, set0 (set0 v i) j = set0 (set0 v j) i.
Proof. induction v; destruct i; destruct j; simpl; auto. f_equal. apply IHv. Qed.

Lemma masked_set0 : forall m v i, masked (set0 v i) m = set0 (masked v m) i.
Proof.
  unfold masked. induction m; intros; simpl; auto. rewrite <- IHm. f_equal. apply set0_comm.
Qed.

Lemma length_set0 : forall v i, length (set0 v i) = length v.
Proof. induction v; destruct i; simpl; auto. Qed.

Lemma length_masked : forall m v, length (masked v m) = length v.
Proof. unfold masked. induction m; intros; simpl; auto. rewrite IHm. apply length_set0. Qed.

Lemma dot_set0 : forall w v i, length w = length v -> dot w (set0 v i) == dot (set0 w i) v.
Proof.
  induction w; destruct v; intros; simpl in *; try discriminate; try reflexivity.
  destruct i; simpl; rewrite !dot_cons; [ring|]. rewrite IHw by lia. ring.
Qed.

Lemma masked_adjoint : forall m w v, length w = length v -> dot w (masked v m) == dot (masked w m) v.
Proof.
  induction m as [|i m IH]; intros w v L; [reflexivity|].
  change (masked v (i :: m)) with (masked (set0 v i) m).
  change (masked w (i :: m)) with (masked (set0 w i) m).
  rewrite (IH w (set0 v i)) by (rewrite length_set0; auto).
  rewrite dot_set0 by (rewrite length_masked; auto).
  rewrite <- masked_set0. reflexivity.
Qed.

(* ------------------------------------------------------------------ composition *)

Definition adjoint_pair (n m : nat) (f g : list Q -> list Q) : Prop :=
  (forall v, length v = n -> length (f v) = m) /\
  (forall w, length w = m -> length (g w) = n) /\
  forall v w, length v = n -> length w = m -> dot w (f v) == dot (g w) v.

(* the adjoint of a composite is the reversed composite of the adjoints: a chain
   transfer -> jacobian apply -> transfer -> ... in forward mode is adjoint to the reversed chain in reverse *)
Lemma adjoint_compose : forall n m p f g f' g',
    adjoint_pair n m f g -> adjoint_pair m p f' g' ->
    adjoint_pair n p (fun v => f' (f v)) (fun w => g (g' w)).
Proof.
  intros n m p f g f' g' [A1 [A2 A3]] [B1 [B2 B3]]. repeat split; intros; auto.
  rewrite B3 by auto. rewrite A3 by auto. reflexivity.
Qed.

(* linear solves: if M x = b and M^T y = c (any stored-entry matrix) then <c, x> = <y, b> — the fwd and rev
   linear solves of the same system give the same total derivative *)
Lemma solve_adjoint : forall T n x b y c,
    in_shape T n n -> length x = n -> length y = n ->
    (forall r, qnth (prod_fwd T n x) r == qnth b r) -> length b = n ->
    (forall r, qnth (prod_rev T n y) r == qnth c r) -> length c = n ->
    dot c x == dot y b.
Proof.
  intros T n x b y c SH Lx Ly Hb Lb Hc Lc.
  assert (E : forall a a' z, length a = length a' -> (forall r, qnth a r == qnth a' r) -> dot a z == dot a' z).
  { induction a as [|a0 a IHa]; destruct a' as [|a1 a']; intros z LL HH; simpl in *; try discriminate; try reflexivity.
    destruct z as [|z0 z]; [reflexivity|]. rewrite !dot_cons.
    pose proof (HH O) as H0. unfold qnth in H0. simpl in H0. rewrite H0.
    rewrite (IHa a' z); [reflexivity | lia | intro r; apply (HH (S r))]. }
  assert (Lf : length (prod_fwd T n x) = n).
  { unfold prod_fwd. rewrite length_sp_fwd. unfold zeros. apply repeat_length. }
  assert (Lr : length (prod_rev T n y) = n).
  { unfold prod_rev. rewrite sp_rev_transpose, length_sp_fwd. unfold zeros. apply repeat_length. }
  rewrite <- (E (prod_rev T n y) c x) by (auto; lia).
  rewrite <- (matrix_adjoint T n n x y) by auto.
  rewrite dot_comm, (dot_comm y b). apply E; auto. lia.
Qed.

(* ------------------------------------------------------------------ non-vacuity *)

Example transfer_premises_ok :
  NoDup [2; 0; 1]%nat /\ dot [1; 2; 3] (xfer_fwd [2; 0; 1]%nat [1; 1; 0]%nat [5; 7] (zeros 3))
                         == dot (xfer_rev [2; 0; 1]%nat [1; 1; 0]%nat [1; 2; 3] (zeros 2)) [5; 7].
Proof. split; [repeat constructor; simpl; intuition lia | vm_compute; reflexivity]. Qed.

(* ------------------------------------------------------------------ the group operator (transfer + jacobian) *)

Lemma dot_app : forall a c b d, length a = length c -> dot (a ++ b) (c ++ d) == dot a c + dot b d.
Proof.
  induction a; destruct c; simpl; intros; try discriminate.
  - change (dot [] []) with 0. ring.
  - rewrite !dot_cons. rewrite IHa by lia. ring.
Qed.

Lemma xsum0_set0 : forall ii a b i, ~ In i ii -> xsum0 (set0 a i) b ii = xsum0 a b ii.
Proof.
  induction ii; intros; simpl; auto. rewrite IHii by (intro; apply H; right; auto).
  rewrite set0_set_q. rewrite qnth_set_q_neq by (intro; subst; apply H; left; auto). reflexivity.
Qed.

Lemma qnth_set0_self : forall a i, (i < length a)%nat -> qnth (set0 a i) i == 0.
Proof. unfold qnth. induction a; destruct i; simpl; intros; try lia; [reflexivity|]. apply IHa. lia. Qed.

Lemma dot_set0_l : forall a b i, length a = length b -> (i < length a)%nat ->
    dot (set0 a i) b == dot a b - qnth a i * qnth b i.
Proof.
  unfold qnth. induction a; destruct b; simpl; intros; try lia.
  destruct i; simpl; rewrite !dot_cons; [ring|]. rewrite IHa by lia. ring.
Qed.

(* removing the overwritten (internally connected) positions: what is left is the part that passes through *)
Lemma dot_minus_xsum0 : forall ii a b, NoDup ii -> (forall i, In i ii -> (i < length a)%nat) -> length a = length b ->
    dot a b - xsum0 a b ii == dot (masked a ii) b.
Proof.
  induction ii as [|i ii IH]; intros a b ND B L; simpl.
  - unfold masked. simpl. ring.
  - inversion ND; subst.
    change (masked a (i :: ii)) with (masked (set0 a i) ii).
    rewrite <- (IH (set0 a i) b) by (auto; rewrite ?length_set0; auto; intros; apply B; right; auto).
    rewrite xsum0_set0 by auto. rewrite dot_set0_l by (auto; apply B; left; auto). ring.
Qed.

Lemma length_scatter_q : forall idx l vals, length (scatter_q l idx vals) = length l.
Proof. induction idx; intros; simpl; auto. destruct vals; auto. rewrite IHidx. apply length_set_q. Qed.

Lemma length_map2q : forall f a b, length (map2q f a b) = Nat.min (length a) (length b).
Proof. induction a; destruct b; simpl; auto. Qed.

Lemma length_sp_rev : forall T w acc, length (sp_rev T w acc) = length acc.
Proof. intros. rewrite sp_rev_transpose. apply length_sp_fwd. Qed.

(* apply_linear of a group (no assembled jacobian): forward = transfer then all sub-jacobians; reverse = all
   transposed sub-jacobians then the reverse transfer.  They are adjoint on (outputs, pass-through inputs):
   the internally connected inputs are overwritten in forward mode and do not count. *)
Lemma group_apply_adjoint : forall T nout nin ii oi sc v_out v_in w,
    in_shape T nout (nout + nin) ->
    NoDup ii -> (forall i, In i ii -> (i < nin)%nat) -> (forall o, In o oi -> (o < nout)%nat) ->
    length ii = length oi -> length sc = nin -> length v_out = nout -> length v_in = nin -> length w = nout ->
    let d_in := skipn nout (sp_rev T w (zeros (nout + nin))) in
    dot w (apply_fwd T nout ii oi sc v_out v_in)
    == dot (fst (apply_rev T nout nin ii oi sc w)) v_out + dot (masked (vmul d_in sc) ii) (vdiv v_in sc).
Proof.
  intros T nout nin ii oi sc v_out v_in w SH ND Bi Bo LE Lsc Lvo Lvi Lw d_in.
  unfold apply_fwd, apply_rev. cbn [fst].
  set (acc := sp_rev T w (zeros (nout + nin))).
  assert (Lacc : length acc = (nout + nin)%nat).
  { unfold acc. rewrite length_sp_rev. unfold zeros. apply repeat_length. }
  set (X := gxfer_fwd sc ii oi v_out v_in).
  assert (LX : length X = nin).
  { unfold X, gxfer_fwd, vmul, xfer_fwd. rewrite length_map2q, length_scatter_q. unfold vdiv.
    rewrite length_map2q. lia. }
  (* <w, J (v_out ++ X)> = <acc, v_out ++ X> *)
  assert (E1 : dot w (sp_fwd T (v_out ++ X) (zeros nout)) == dot acc (v_out ++ X)).
  { unfold acc. rewrite dot_sp_fwd, dot_sp_rev.
    - rewrite dot_zeros_r, dot_zeros_l. reflexivity.
    - unfold zeros. rewrite repeat_length, app_length. lia.
    - intros t I. unfold zeros. rewrite repeat_length. apply SH; auto.
    - unfold zeros. rewrite repeat_length. auto.
    - intros t I. unfold zeros. rewrite repeat_length. apply SH; auto. }
  rewrite E1.
  rewrite <- (firstn_skipn nout acc) at 1.
  rewrite dot_app by (rewrite firstn_length; lia).
  fold d_in.
  assert (Ld : length d_in = nin) by (unfold d_in; fold acc; rewrite skipn_length; lia).
  (* <d_in, X> through the scaled scatter *)
  unfold X, gxfer_fwd. rewrite scale_adjoint. unfold xfer_fwd.
  assert (Lm : length (vmul d_in sc) = nin) by (unfold vmul; rewrite length_map2q; lia).
  assert (Ll : length (vdiv v_in sc) = nin) by (unfold vdiv; rewrite length_map2q; lia).
  rewrite dot_scatter by (auto; rewrite ?Ll, ?Lm; auto).
  unfold gxfer_rev_out.
  assert (Lf : length (firstn nout acc) = nout) by (rewrite firstn_length; lia).
  pose proof (dot_xfer_rev ii oi (vmul d_in sc) v_out (firstn nout acc)
                           ltac:(rewrite Lf; auto) ltac:(intros o Ho; rewrite Lf; apply Bo; auto)) as E2.
  unfold d_in in E2. fold acc in E2. unfold d_in. fold acc. rewrite E2.
  pose proof (dot_minus_xsum0 ii (vmul (skipn nout acc) sc) (vdiv v_in sc) ND) as E3.
  fold acc in Lm. unfold d_in in Lm. fold acc in Lm.
  rewrite <- E3 by (rewrite ?Lm, ?Ll; auto).
  ring.
Qed.

(* ------------------------------------------------------------------ solves with scaled vectors *)

Lemma qnth_vmul : forall a b c, length a = length b -> qnth (vmul a b) c == qnth a c * qnth b c.
Proof.
  unfold vmul, qnth. induction a; destruct b; simpl; intros; try discriminate.
  - destruct c; ring.
  - destruct c; [reflexivity|]. apply IHa. lia.
Qed.

Lemma qnth_vdiv : forall a b c, length a = length b -> (c < length a)%nat -> qnth (vdiv a b) c == qnth a c / qnth b c.
Proof.
  unfold vdiv, qnth. induction a; destruct b; simpl; intros; try discriminate; try lia.
  destruct c; [reflexivity|]. apply IHa; lia.
Qed.

Lemma length_vmul : forall a b, length (vmul a b) = Nat.min (length a) (length b).
Proof. intros. apply length_map2q. Qed.
Lemma length_vdiv : forall a b, length (vdiv a b) = Nat.min (length a) (length b).
Proof. intros. apply length_map2q. Qed.

Lemma qnth_prod_fwd_rowpart : forall T n v r, in_shape T n n ->
    qnth (prod_fwd T n v) r == rowpart T v r.
Proof.
  intros. unfold prod_fwd. rewrite sp_fwd_spec.
  - rewrite qnth_zeros. ring.
  - intros t I. unfold zeros. rewrite repeat_length. apply H; auto.
Qed.

Definition nzv (d : list Q) : Prop := forall i, (i < length d)%nat -> ~ qnth d i == 0.

(* row r of Ms applied to x_s  =  (row r of M applied to Du x_s) / dr_r *)
Lemma rowpart_scale_T : forall T dr du xs r n,
    in_shape T n n -> length dr = n -> length du = n -> length xs = n -> nzv dr -> (r < n)%nat ->
    rowpart (scale_T dr du T) xs r == rowpart T (vmul xs du) r / qnth dr r.
Proof.
  intros T dr du xs r n SH Ldr Ldu Lxs NZ R. unfold rowpart, scale_T.
  assert (D : ~ qnth dr r == 0) by (apply NZ; lia).
  induction T as [|[[r' c] x] T IH]; simpl.
  - field. exact D.
  - rewrite IH by (intros t I; apply SH; right; auto).
    destruct (Nat.eqb_spec r' r).
    + subst r'. rewrite (qnth_vmul xs du c) by lia. field. exact D.
    + field. exact D.
Qed.

(* column c of Ms^T applied to z  =  du_c * (column c of M^T applied to Dr^-1 z) *)
Lemma colpart_scale_T : forall T dr du z c n,
    in_shape T n n -> length dr = n -> length du = n -> length z = n -> nzv dr ->
    rowpart (transpose (scale_T dr du T)) z c == qnth du c * rowpart (transpose T) (vdiv z dr) c.
Proof.
  intros T dr du z c n SH Ldr Ldu Lz NZ. unfold rowpart, scale_T, transpose.
  induction T as [|[[r c'] x] T IH]; simpl.
  - ring.
  - rewrite IH by (intros t I; apply SH; right; auto).
    destruct (SH (r, c', x) (or_introl eq_refl)) as [Br Bc]. simpl in Br, Bc.
    destruct (Nat.eqb_spec c' c).
    + subst c'. rewrite (qnth_vdiv z dr r) by lia. field. apply NZ. lia.
    + ring.
Qed.

(* FORWARD: a solution of the scaled system, brought back to physical units, solves the physical system *)
Lemma scaled_solve_fwd : forall T n dr du xs b,
    in_shape T n n -> length dr = n -> length du = n -> length xs = n -> length b = n -> nzv dr ->
    (forall r, (r < n)%nat -> qnth (prod_fwd (scale_T dr du T) n xs) r == qnth (vdiv b dr) r) ->
    forall r, (r < n)%nat -> qnth (prod_fwd T n (vmul xs du)) r == qnth b r.
Proof.
  intros T n dr du xs b SH Ldr Ldu Lxs Lb NZ H r R.
  assert (SHs : in_shape (scale_T dr du T) n n).
  { intros t I. unfold scale_T in I. apply in_map_iff in I. destruct I as [t0 [E I]]. subst. simpl. apply SH; auto. }
  specialize (H r R). rewrite qnth_prod_fwd_rowpart in H by auto.
  rewrite (rowpart_scale_T T dr du xs r n) in H by auto.
  rewrite qnth_vdiv in H by lia.
  rewrite qnth_prod_fwd_rowpart by auto.
  assert (D : ~ qnth dr r == 0) by (apply NZ; lia).
  apply (Qmult_inj_r _ _ (/ qnth dr r)).
  - intro Z. apply D. rewrite <- (Qinv_involutive (qnth dr r)). rewrite Z. reflexivity.
  - exact H.
Qed.

(* REVERSE, as coded: Ms^T z = Du^2 c_s with c_s = Du^-1 c, then y_s = Dr^-2 z and y = Dr y_s solves M^T y = c *)
Lemma scaled_solve_rev : forall T n dr du z c,
    in_shape T n n -> length dr = n -> length du = n -> length z = n -> length c = n -> nzv dr -> nzv du ->
    (forall k, (k < n)%nat -> qnth (prod_rev (scale_T dr du T) n z) k == qnth (rev_rhs du (vdiv c du)) k) ->
    forall k, (k < n)%nat -> qnth (prod_rev T n (vmul (rev_sol dr z) dr)) k == qnth c k.
Proof.
  intros T n dr du z c SH Ldr Ldu Lz Lc NZr NZu H k K.
  assert (SHs : in_shape (scale_T dr du T) n n).
  { intros t I. unfold scale_T in I. apply in_map_iff in I. destruct I as [t0 [E I]]. subst. simpl. apply SH; auto. }
  specialize (H k K). unfold prod_rev in *. rewrite sp_rev_transpose in *.
  fold (prod_fwd (transpose (scale_T dr du T)) n z) in H.
  fold (prod_fwd (transpose T) n (vmul (rev_sol dr z) dr)).
  rewrite qnth_prod_fwd_rowpart in H by (apply in_shape_transpose; auto).
  rewrite qnth_prod_fwd_rowpart by (apply in_shape_transpose; auto).
  rewrite (colpart_scale_T T dr du z k n) in H by auto.
  assert (Du : ~ qnth du k == 0) by (apply NZu; lia).
  unfold rev_rhs in H.
  rewrite qnth_vmul in H by (rewrite length_vmul, length_vdiv; lia).
  rewrite qnth_vmul in H by (rewrite length_vdiv; lia).
  rewrite qnth_vdiv in H by lia.
  (* the vector fed to M^T is Dr^-1 z pointwise *)
  assert (E : rowpart (transpose T) (vmul (rev_sol dr z) dr) k == rowpart (transpose T) (vdiv z dr) k).
  { unfold rowpart. apply qsum_ext. intros t I. destruct (Nat.eqb (fst (fst t)) k); [|reflexivity].
    unfold transpose in I. apply in_map_iff in I. destruct I as [[[r0 c0] x0] [Et I]]. subst t. simpl.
    destruct (SH _ I) as [Br Bc]. simpl in Br, Bc.
    assert (Dr : ~ qnth dr r0 == 0) by (apply NZr; lia).
    unfold rev_sol.
    pose proof (qnth_vmul (vdiv (vdiv z dr) dr) dr r0 ltac:(rewrite !length_vdiv; lia)) as E1.
    pose proof (qnth_vdiv (vdiv z dr) dr r0 ltac:(rewrite length_vdiv; lia) ltac:(rewrite length_vdiv; lia)) as E2.
    rewrite E1, E2. field. exact Dr. }
  rewrite E.
  apply (Qmult_inj_l _ _ (qnth du k)); [exact Du|].
  rewrite H. field. exact Du.
Qed.

(* the same reverse path with du and dr exchanged does NOT solve the adjoint system (1 x 1 witness) *)
Lemma swapped_reverse_refuted :
  let T := [((O, O), 2)] in let dr := [4] in let du := [2] in let c := [1] in
  (* z solves Ms^T z = Dr^2 c_s *)
  qnth (prod_rev (scale_T dr du T) 1 [8]) O == qnth (rev_rhs_swapped dr (vdiv c du)) O /\
  ~ qnth (prod_rev T 1 (vmul (rev_sol_swapped du [8]) dr)) O == qnth c O /\
  (* whereas the path as coded gives the solution *)
  qnth (prod_rev (scale_T dr du T) 1 [2]) O == qnth (rev_rhs du (vdiv c du)) O /\
  qnth (prod_rev T 1 (vmul (rev_sol dr [2]) dr)) O == qnth c O.
Proof. repeat split; try (vm_compute; reflexivity). intro H. vm_compute in H. discriminate. Qed.

(* fwd and rev scaled solves of the same system are adjoint: <c, x> = <y, b> in physical units *)
Lemma scaled_solve_adjoint : forall T n dr du xs z b c,
    in_shape T n n -> length dr = n -> length du = n -> length xs = n -> length z = n ->
    length b = n -> length c = n -> nzv dr -> nzv du ->
    (forall r, (r < n)%nat -> qnth (prod_fwd (scale_T dr du T) n xs) r == qnth (vdiv b dr) r) ->
    (forall k, (k < n)%nat -> qnth (prod_rev (scale_T dr du T) n z) k == qnth (rev_rhs du (vdiv c du)) k) ->
    dot c (vmul xs du) == dot (vmul (rev_sol dr z) dr) b.
Proof.
  intros T n dr du xs z b c SH Ldr Ldu Lxs Lz Lb Lc NZr NZu HF HR.
  assert (Lx : length (vmul xs du) = n) by (rewrite length_vmul; lia).
  assert (Ly : length (vmul (rev_sol dr z) dr) = n) by (unfold rev_sol; rewrite length_vmul, !length_vdiv; lia).
  assert (OUT : forall (a a' : list Q) r, length a = n -> length a' = n -> (n <= r)%nat -> qnth a r == qnth a' r).
  { intros a a' r La La' R. unfold qnth. rewrite !nth_overflow by lia. reflexivity. }
  assert (Lpf : forall v, length (prod_fwd T n v) = n).
  { intro v. unfold prod_fwd. rewrite length_sp_fwd. unfold zeros. apply repeat_length. }
  assert (Lpr : forall w, length (prod_rev T n w) = n).
  { intro w. unfold prod_rev. rewrite length_sp_rev. unfold zeros. apply repeat_length. }
  apply (solve_adjoint T n (vmul xs du) b (vmul (rev_sol dr z) dr) c); auto.
  - intro r. destruct (Nat.lt_ge_cases r n) as [R|R].
    + apply (scaled_solve_fwd T n dr du xs b); auto.
    + apply OUT; auto.
  - intro k. destruct (Nat.lt_ge_cases k n) as [K|K].
    + apply (scaled_solve_rev T n dr du z c); auto.
    + apply OUT; auto.
Qed.

Example scaled_solve_premises_ok :
  let T : list triple := [((O, O), 2); ((1%nat, O), 3); ((1%nat, 1%nat), -1)] in
  in_shape T 2 2 /\ nzv [4; -(1#2)] /\ nzv [2; 8] /\
  (forall r, (r < 2)%nat -> qnth (prod_fwd (scale_T [4; -(1#2)] [2; 8] T) 2 [1#4; 5#32]) r == qnth (vdiv [1; 1#4] [4; -(1#2)]) r).
Proof.
  cbv zeta. repeat split.
  - destruct H as [H|[H|[H|[]]]]; subst; simpl; lia.
  - destruct H as [H|[H|[H|[]]]]; subst; simpl; lia.
  - intros i I. simpl in I. destruct i as [|[|]]; try lia; intro H; vm_compute in H; discriminate.
  - intros i I. simpl in I. destruct i as [|[|]]; try lia; intro H; vm_compute in H; discriminate.
  - intros r R. destruct r as [|[|]]; try lia; vm_compute; reflexivity.
Qed.
