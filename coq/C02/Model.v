(* C02 — forward and reverse linear operators.
     openmdao/vectors/default_transfer.py : DefaultTransfer._transfer
        fwd:  in_vec.set_val(out_vec.asarray()[out_inds], in_inds)
        rev:  out_vec.iadd(np.bincount(out_inds, in_vec._get_data()[in_inds], minlength=out size))
     openmdao/core/group.py : Group._transfer (scale_to_norm / transfer / scale_to_phys around it)
     sub-jacobian / matrix application : the stored-entry products [sp_fwd] / [sp_rev] of C11.Model
     (Subjac._apply_fwd/_apply_rev, COOMatrix._prod with the transpose, DictionaryJacobian._apply).

   Definitions only; proofs are in Proofs.v. *)
From Coq Require Import ZArith QArith List Bool.
From OMV Require Import Base.Val C11.Model.
Import ListNotations.
Open Scope Q_scope.

Definition dot (a b : list Q) : Q := qsum (map2q Qmult a b).

Definition gatherq (v : list Q) (idx : list nat) : list Q := map (qnth v) idx.

(* fwd scatter: in[in_inds[k]] = out[out_inds[k]]  (NumPy fancy assignment, sequential) *)
Definition xfer_fwd (in_inds out_inds : list nat) (out inp : list Q) : list Q :=
  scatter_q inp in_inds (gatherq out out_inds).

(* rev gather: out += bincount(out_inds, weights = in[in_inds]) *)
Definition xfer_rev (in_inds out_inds : list nat) (inp out : list Q) : list Q :=
  add_at_list out out_inds (gatherq inp in_inds).

(* Group._transfer with input scaling (unit conversion factors; [sc] = the root scaling array slice of the
   linear input vector): fwd  scale_to_norm (divide), transfer, scale_to_phys (multiply);
   rev  scale_to_norm('rev') (multiply), transfer, scale_to_phys('rev') (divide) *)
Definition vmul (a b : list Q) := map2q Qmult a b.
Definition vdiv (a b : list Q) := map2q Qdiv a b.
Definition gxfer_fwd (sc : list Q) (in_inds out_inds : list nat) (out inp : list Q) : list Q :=
  vmul (xfer_fwd in_inds out_inds out (vdiv inp sc)) sc.
(* returns (new out vector, new in vector) *)
Definition gxfer_rev_out (sc : list Q) (in_inds out_inds : list nat) (inp out : list Q) : list Q :=
  xfer_rev in_inds out_inds (vmul inp sc) out.
Definition gxfer_rev_in (sc : list Q) (inp : list Q) : list Q := vdiv (vmul inp sc) sc.

(* apply_linear of a group without assembled jacobian, forward:
     transfer, then every sub-jacobian is applied:  r = sum_k  J_k (outputs ++ transferred inputs)
   and reverse:  (d_out ++ d_in) = sum_k J_k^T r, then the reverse transfer adds d_in into d_out.
   [T] = all raw entries, columns indexed over (outputs ++ inputs), nout = number of outputs *)
Definition apply_fwd (T : list triple) (nout : nat) (in_inds out_inds : list nat) (sc : list Q)
           (v_out v_in : list Q) : list Q :=
  let vin' := gxfer_fwd sc in_inds out_inds v_out v_in in
  sp_fwd T (v_out ++ vin') (zeros nout).

Definition apply_rev (T : list triple) (nout nin : nat) (in_inds out_inds : list nat) (sc : list Q)
           (w : list Q) : list Q * list Q :=
  let acc := sp_rev T w (zeros (nout + nin)) in
  let d_out := firstn nout acc in
  let d_in := skipn nout acc in
  (gxfer_rev_out sc in_inds out_inds d_in d_out, gxfer_rev_in sc d_in).

(* literals *)
Definition tl (l : list (Z * Z * Q)) : list triple :=
  map (fun t => ((Z.to_nat (fst (fst t)), Z.to_nat (snd (fst t))), snd t)) l.
