(* C27 — model of openmdao/utils/options_dictionary.py (definitions only; proofs in Proofs*.v).

   OptionsDictionary as a state machine over a small universe of Python values:
     None, bool, int, float (a rational; the harness only uses dyadic ones), str, list,
   with Python's numeric tower for == and ordering (True == 1 == 1.0, isinstance(True, int)),
   iteration over str / list, TypeError for ordering a non-number against a number.

   Modelled methods: declare, undeclare, __setitem__, __getitem__, update / set, temporary
   (generator-based context manager: enter loop, body, exit loop / exception exit).
   check_valid and set_function are arbitrary functions carried by the declaration.

   Two switches select between the code as it was found and the repaired code
   (props/C27/fix_1.diff, fix_2.diff):
     c_temp_finally : temporary() restores in a finally block (and only what it changed);
     c_list_strict  : with types=list and values given, the value itself must be a list.
   The emission of DeprecationWarning (and its once-only flag) is not modelled. *)
From Coq Require Import ZArith QArith List Bool String Ascii.
From OMV Require Import Base.Val.
Import ListNotations.
Open Scope Z_scope.

Definition name := string.

Record cfg := mkcfg { c_temp_finally : bool; c_list_strict : bool }.
Definition cfg_fixed := mkcfg true true.
Definition cfg_found := mkcfg false false.

(* ------------------------------------------------------------------ Python values *)

Inductive pv :=
| PNone
| PBool (b : bool)
| PInt (z : Z)
| PFloat (q : Q)
| PStr (s : string)
| PList (l : list pv).

Inductive ty := TBool | TInt | TFloat | TStr | TList | TNoneType.
Inductive tys := TyOne (t : ty) | TyTuple (l : list ty).

(* exception classes: KeyError, RuntimeError, TypeError, ValueError, the body's own exception, IndexError *)
Inductive err := EKey | ERuntime | EType | EValue | EBoom | EIndex.

Definition err_code (e : err) : Z :=
  match e with EKey => 1 | ERuntime => 2 | EType => 3 | EValue => 4 | EBoom => 5 | EIndex => 6 end.

(* numeric tower *)
Definition num (v : pv) : option Q :=
  match v with
  | PBool b => Some (if b then 1%Q else 0%Q)
  | PInt z => Some (inject_Z z)
  | PFloat q => Some q
  | _ => None
  end.

(* Python == on the universe *)
Fixpoint py_eq (a b : pv) {struct a} : bool :=
  match a, b with
  | PNone, PNone => true
  | PStr x, PStr y => String.eqb x y
  | PList x, PList y =>
      (fix go (x y : list pv) {struct x} : bool :=
         match x, y with
         | [], [] => true
         | a' :: x', b' :: y' => py_eq a' b' && go x' y'
         | _, _ => false
         end) x y
  | _, _ => match num a, num b with
            | Some p, Some q => Qeq_bool p q
            | _, _ => false
            end
  end.

(* x in values *)
Definition py_in (x : pv) (vals : list pv) : bool := existsb (fun y => py_eq y x) vals.

Definition isinstance1 (v : pv) (t : ty) : bool :=
  match v, t with
  | PNone, TNoneType => true
  | PBool _, TBool => true
  | PBool _, TInt => true
  | PInt _, TInt => true
  | PFloat _, TFloat => true
  | PStr _, TStr => true
  | PList _, TList => true
  | _, _ => false
  end.

Definition isinstance (v : pv) (t : tys) : bool :=
  match t with
  | TyOne t1 => isinstance1 v t1
  | TyTuple l => existsb (isinstance1 v) l
  end.

(* iter(value): list elements, characters of a str; TypeError (None) otherwise *)
Fixpoint chars (s : string) : list pv :=
  match s with
  | EmptyString => []
  | String c r => PStr (String c EmptyString) :: chars r
  end.

Definition py_iter (v : pv) : option (list pv) :=
  match v with
  | PList l => Some l
  | PStr s => Some (chars s)
  | _ => None
  end.

Definition is_none (v : pv) : bool := match v with PNone => true | _ => false end.
Definition is_list (v : pv) : bool := match v with PList _ => true | _ => false end.

Definition qlt (a b : Q) : bool := negb (Qle_bool b a).

(* ------------------------------------------------------------------ declarations *)

Record decl := mkdecl {
  d_values : option (list pv);
  d_types : option tys;
  d_upper : option Q;
  d_lower : option Q;
  d_allow_none : bool;
  d_cv : option (pv -> bool);            (* check_valid: false = raises ValueError *)
  d_sf : option (pv -> option pv);       (* set_function: None = raises ValueError *)
  d_alias : option (option name)         (* deprecation: Some None = message only; Some (Some a) = forwards to a *)
}.

Definition types_is_list (d : decl) : bool :=
  match d_types d with Some (TyOne TList) => true | _ => false end.
Definition types_is_bool (d : decl) : bool :=
  match d_types d with Some (TyOne TBool) => true | _ => false end.

(* _assert_valid, the part guarded by `not (value is None and allow_none)` *)
Definition check_values (c : cfg) (d : decl) (vals : list pv) (v : pv) : option err :=
  if types_is_list d then
    if c_list_strict c && negb (is_list v) then Some EType
    else match py_iter v with
         | None => Some EType
         | Some xs => if forallb (fun x => py_in x vals) xs then None else Some EValue
         end
  else if py_in v vals then None else Some EValue.

Definition check_upper (d : decl) (v : pv) : option err :=
  match d_upper d with
  | None => None
  | Some u => match num v with
              | None => Some EType
              | Some x => if qlt u x then Some EValue else None
              end
  end.

Definition check_lower (d : decl) (v : pv) : option err :=
  match d_lower d with
  | None => None
  | Some l => match num v with
              | None => Some EType
              | Some x => if qlt x l then Some EValue else None
              end
  end.

Definition check_decl (c : cfg) (d : decl) (v : pv) : option err :=
  match (match d_values d with
         | Some vals => check_values c d vals v
         | None => match d_types d with
                   | Some t => if isinstance v t then None else Some EType
                   | None => None
                   end
         end) with
  | Some e => Some e
  | None => match check_upper d v with
            | Some e => Some e
            | None => check_lower d v
            end
  end.

Definition check_cv (d : decl) (v : pv) : option err :=
  match d_cv d with
  | Some f => if f v then None else Some EValue
  | None => None
  end.

Definition assert_valid (c : cfg) (d : decl) (v : pv) : option err :=
  match (if is_none v && d_allow_none d then None else check_decl c d v) with
  | Some e => Some e
  | None => check_cv d v
  end.

Definition apply_sf (d : decl) (v : pv) : option pv :=
  match d_sf d with Some f => f v | None => Some v end.

(* ------------------------------------------------------------------ insertion-ordered dicts *)

Fixpoint alookup {A} (n : name) (l : list (name * A)) : option A :=
  match l with
  | [] => None
  | (k, a) :: r => if String.eqb k n then Some a else alookup n r
  end.

Fixpoint aupdate {A} (n : name) (a : A) (l : list (name * A)) : list (name * A) :=
  match l with
  | [] => [(n, a)]
  | (k, b) :: r => if String.eqb k n then (k, a) :: r else (k, b) :: aupdate n a r
  end.

Fixpoint aremove {A} (n : name) (l : list (name * A)) : list (name * A) :=
  match l with
  | [] => []
  | (k, b) :: r => if String.eqb k n then r else (k, b) :: aremove n r
  end.

(* ------------------------------------------------------------------ state *)

Record entry := mkentry { e_decl : decl; e_val : option pv }.   (* None = _UNDEFINED, has_been_set False *)

Record st := mkst {
  s_dict : list (name * entry);
  s_ro : bool;
  s_cache : list (name * list pv)
}.

Definition st0 (ro : bool) : st := mkst [] ro [].

Definition with_dict (s : st) (d : list (name * entry)) : st := mkst d (s_ro s) (s_cache s).
Definition with_cache (s : st) (c : list (name * list pv)) : st := mkst (s_dict s) (s_ro s) c.

(* _handle_deprecation: the entry actually read / written *)
Definition resolve (d : list (name * entry)) (n : name) : err + (name * entry) :=
  match alookup n d with
  | None => inl EKey
  | Some e => match d_alias (e_decl e) with
              | Some (Some a) => match alookup a d with
                                 | None => inl EKey
                                 | Some ea => inr (a, ea)
                                 end
              | _ => inr (n, e)
              end
  end.

(* __getitem__ *)
Definition get_item (s : st) (n : name) : err + pv :=
  match resolve (s_dict s) n with
  | inl e => inl e
  | inr (_, et) => match e_val et with
                   | Some v => inr v
                   | None => inl ERuntime
                   end
  end.

(* __setitem__ *)
Definition set_item (c : cfg) (s : st) (n : name) (v : pv) : err + st :=
  match alookup n (s_dict s) with
  | None => inl EKey
  | Some _ =>
      if s_ro s then inl EKey
      else match resolve (s_dict s) n with
           | inl e => inl e
           | inr (t, et) =>
               match assert_valid c (e_decl et) v with
               | Some e => inl e
               | None => match apply_sf (e_decl et) v with
                         | None => inl EValue
                         | Some w => inr (with_dict s (aupdate t (mkentry (e_decl et) (Some w)) (s_dict s)))
                         end
               end
           end
  end.

(* declare: the new entry is stored BEFORE the default is validated *)
Definition norm_decl (d : decl) (default : option pv) : decl :=
  mkdecl (if types_is_bool d then Some [PBool true; PBool false] else d_values d)
         (d_types d) (d_upper d) (d_lower d)
         (d_allow_none d || match default with Some PNone => true | _ => false end)
         (d_cv d) (d_sf d) (d_alias d).

Definition declare_conflict (d : decl) : bool :=
  match d_types d, d_values d with
  | Some _, Some _ => negb (types_is_list d)
  | _, _ => false
  end.

Definition declare (c : cfg) (s : st) (n : name) (d : decl) (default : option pv) : st * option err :=
  if declare_conflict d then (s, Some ERuntime)
  else
    let d' := norm_decl d default in
    let s' := with_dict s (aupdate n (mkentry d' default) (s_dict s)) in
    match default with
    | Some v => (s', assert_valid c d' v)
    | None => (s', None)
    end.

Definition undeclare (s : st) (n : name) : st := with_dict s (aremove n (s_dict s)).

(* update and set with keyword arguments: assignments in order, the first failure aborts *)
Fixpoint update (c : cfg) (s : st) (kw : list (name * pv)) : st * option err :=
  match kw with
  | [] => (s, None)
  | (n, v) :: r => match set_item c s n v with
                   | inl e => (s, Some e)
                   | inr s' => update c s' r
                   end
  end.

(* ------------------------------------------------------------------ temporary() *)

Definition cache_push (ch : list (name * list pv)) (n : name) (v : pv) : list (name * list pv) :=
  match alookup n ch with
  | None => aupdate n [v] ch
  | Some l => aupdate n (l ++ [v]) ch
  end.

(* one iteration of the exit loop:  self[option] = cache[option].pop(); drop the empty list *)
Definition exit_step (c : cfg) (s : st) (n : name) : st * option err :=
  match alookup n (s_cache s) with
  | None => (s, Some EKey)
  | Some l =>
      match rev l with
      | [] => (s, Some EIndex)
      | old :: rl =>
          let rest := rev rl in
          let s1 := with_cache s (aupdate n rest (s_cache s)) in
          match set_item c s1 n old with
          | inl e => (s1, Some e)
          | inr s2 => (match rest with
                       | [] => with_cache s2 (aremove n (s_cache s2))
                       | _ => s2
                       end, None)
          end
      end
  end.

Fixpoint exit_loop (c : cfg) (s : st) (names : list name) : st * option err :=
  match names with
  | [] => (s, None)
  | n :: r => match exit_step c s n with
              | (s', Some e) => (s', Some e)
              | (s', None) => exit_loop c s' r
              end
  end.

(* enter loop of the code as found: cache slot created, old value read and pushed, then set *)
Fixpoint enter_found (c : cfg) (s : st) (kw : list (name * pv)) : st * option err :=
  match kw with
  | [] => (s, None)
  | (n, v) :: r =>
      let s0 := match alookup n (s_cache s) with
                | None => with_cache s (aupdate n [] (s_cache s))
                | Some _ => s
                end in
      match get_item s0 n with
      | inl e => (s0, Some e)
      | inr old =>
          let s1 := with_cache s0 (cache_push (s_cache s0) n old) in
          match set_item c s1 n v with
          | inl e => (s1, Some e)
          | inr s2 => enter_found c s2 r
          end
      end
  end.

(* enter loop of the repaired code: read, set, and only then record; returns the names changed *)
Fixpoint enter_fixed (c : cfg) (s : st) (kw : list (name * pv)) : st * list name * option err :=
  match kw with
  | [] => (s, [], None)
  | (n, v) :: r =>
      match get_item s n with
      | inl e => (s, [], Some e)
      | inr old =>
          match set_item c s n v with
          | inl e => (s, [], Some e)
          | inr s1 =>
              let s2 := with_cache s1 (cache_push (s_cache s1) n old) in
              let '(s3, ch, e) := enter_fixed c s2 r in
              (s3, n :: ch, e)
          end
      end
  end.

(* ------------------------------------------------------------------ operations and runs *)

Inductive op :=
| ODeclare (n : name) (d : decl) (default : option pv)
| OUndeclare (n : name)
| OSet (n : name) (v : pv)
| OGet (n : name)
| OUpdate (kw : list (name * pv))
| OTemp (kw : list (name * pv)) (body : list op)     (* with o.temporary( **kw ): body *)
| OTry (body : list op)                               (* try: body  except Boom: pass *)
| ORaise.                                             (* raise Boom *)

Inductive outcome := OutOk | OutVal (v : pv) | OutErr (e : err).

(* what is visible after every operation: outcome, stored values in dict order, context cache *)
Definition obs := (outcome * st)%type.

Definition of_err (s : st) (e : option err) : outcome :=
  match e with None => OutOk | Some x => OutErr x end.

(* result of running: state, observations in execution order, propagating exception *)
Definition res := (st * list obs * option err)%type.

Section Run.
  Variable run_op : op -> st -> res.

  Fixpoint run_list (l : list op) (s : st) : res :=
    match l with
    | [] => (s, [], None)
    | o :: r =>
        match run_op o s with
        | (s1, ob1, Some e) => (s1, ob1, Some e)
        | (s1, ob1, None) =>
            match run_list r s1 with
            | (s2, ob2, e) => (s2, ob1 ++ ob2, e)
            end
        end
    end.
End Run.

(* every non-Boom exception is caught by the driver at the operation that raised it and
   recorded as its outcome; Boom propagates to the nearest OTry (recorded on the way) *)
Definition finish (s : st) (ob : list obs) (e : option err) : res :=
  match e with
  | Some EBoom => (s, ob ++ [(OutErr EBoom, s)], Some EBoom)
  | _ => (s, ob ++ [(of_err s e, s)], None)
  end.

Fixpoint run_op (c : cfg) (o : op) (s : st) {struct o} : res :=
  match o with
  | ODeclare n d dflt => let r := declare c s n d dflt in finish (fst r) [] (snd r)
  | OUndeclare n => finish (undeclare s n) [] None
  | OSet n v => match set_item c s n v with
                | inl e => finish s [] (Some e)
                | inr s' => finish s' [] None
                end
  | OGet n => match get_item s n with
              | inl e => finish s [] (Some e)
              | inr v => (s, [(OutVal v, s)], None)
              end
  | OUpdate kw => let r := update c s kw in finish (fst r) [] (snd r)
  | OTry body => match run_list (run_op c) body s with
                 | (s', ob, _) => finish s' ob None
                 end
  | ORaise => finish s [] (Some EBoom)
  | OTemp kw body =>
      if c_temp_finally c then
        match enter_fixed c s kw with
        | (s1, changed, e1) =>
            match (match e1 with
                   | Some e => (s1, [], Some e)
                   | None => run_list (run_op c) body s1
                   end) with
            | (s2, ob, e2) =>
                match exit_loop c s2 (rev changed) with
                | (s3, Some e3) => finish s3 ob (Some e3)
                | (s3, None) => finish s3 ob e2
                end
            end
        end
      else
        match enter_found c s kw with
        | (s1, Some e) => finish s1 [] (Some e)
        | (s1, None) =>
            match run_list (run_op c) body s1 with
            | (s2, ob, Some e) => finish s2 ob (Some e)
            | (s2, ob, None) =>
                match exit_loop c s2 (map fst kw) with
                | (s3, e3) => finish s3 ob e3
                end
            end
        end
  end.

Definition run (c : cfg) (l : list op) (s : st) : res := run_list (run_op c) l s.

(* ------------------------------------------------------------------ reference: "satisfies its declaration" *)

(* Independent statement of validity (declare() docstring + the repository's pinned reading that a
   bool-typed option is governed by values (True, False) under Python equality). *)
Definition valid_spec (d : decl) (v : pv) : Prop :=
  ((v = PNone /\ d_allow_none d = true) \/
   ((match d_values d with
     | Some vals => if types_is_list d
                    then exists l, v = PList l /\ Forall (fun x => py_in x vals = true) l
                    else py_in v vals = true
     | None => match d_types d with
               | Some t => isinstance v t = true
               | None => True
               end
     end) /\
    (forall u, d_upper d = Some u -> exists x, num v = Some x /\ (x <= u)%Q) /\
    (forall l, d_lower d = Some l -> exists x, num v = Some x /\ (l <= x)%Q)))
  /\ (forall f, d_cv d = Some f -> f v = true).

(* ------------------------------------------------------------------ rendering for the correspondence *)

Fixpoint v_pv (v : pv) : val :=
  match v with
  | PNone => VN
  | PBool b => VB b
  | PInt z => VZ z
  | PFloat q => VL [VS "f"; VQ q]
  | PStr s => VS s
  | PList l => VL (VS "l" :: map v_pv l)
  end.

Definition v_entry (ne : name * entry) : val :=
  VL [VS (fst ne);
      match e_val (snd ne) with Some v => VL [VB true; v_pv v] | None => VL [VB false] end].

Definition v_state (s : st) : val :=
  VL [VL (map v_entry (s_dict s));
      VL (map (fun nc => VL [VS (fst nc); VL (map v_pv (snd nc))]) (s_cache s))].

Definition v_outcome (o : outcome) : val :=
  match o with
  | OutOk => VS "ok"
  | OutVal v => VL [VS "val"; v_pv v]
  | OutErr e => VE (err_code e)
  end.

Definition v_obs (ob : obs) : val := VL [v_outcome (fst ob); v_state (snd ob)].

(* the state is printed only when it differs from the one printed before (keeps the literals small) *)
Fixpoint v_trace (prev : val) (ob : list obs) : list val :=
  match ob with
  | [] => []
  | o :: r => let cur := v_state (snd o) in
              VL [v_outcome (fst o); if val_eqb prev cur then VS "=" else cur] :: v_trace cur r
  end.

Definition v_run (c : cfg) (ro : bool) (l : list op) : val :=
  match run c l (st0 ro) with
  | (_, ob, _) => VL (v_trace (v_state (st0 ro)) ob)
  end.

(* check_valid / set_function tables used by the harness (same functions in props/C27/impl.py) *)
Definition cv_even (v : pv) : bool :=
  match v with
  | PInt z => Z.even z
  | PBool b => negb b
  | _ => false
  end.
Definition cv_notnone (v : pv) : bool := negb (is_none v).
Definition cv_short (v : pv) : bool :=
  match v with
  | PStr s => Nat.leb (String.length s) 1
  | PList l => Nat.leb (List.length l) 1
  | _ => true
  end.
(* clip ints at 3 (idempotent, leaves other values alone) *)
Definition sf_clip (v : pv) : option pv :=
  match v with
  | PInt z => Some (PInt (Z.min z 3))
  | _ => Some v
  end.
(* negate ints (not idempotent), raise on str *)
Definition sf_neg (v : pv) : option pv :=
  match v with
  | PInt z => Some (PInt (- z))
  | PStr _ => None
  | _ => Some v
  end.

(* bodies that do not re-declare or remove options (premise of the restoration theorem) *)
Fixpoint decl_free_op (o : op) : bool :=
  match o with
  | ODeclare _ _ _ => false
  | OUndeclare _ => false
  | OTemp _ body => forallb decl_free_op body
  | OTry body => forallb decl_free_op body
  | _ => true
  end.
Definition decl_free (l : list op) : bool := forallb decl_free_op l.

(* the conditions under which re-assigning a saved value can restore it: every stored value satisfies its
   declaration and is a fixpoint of its set_function; every set_function maps acceptable values to such
   fixpoints; the context cache holds no empty stacks *)
Definition assignable (c : cfg) (d : decl) (v : pv) : Prop :=
  assert_valid c d v = None /\ apply_sf d v = Some v.
Definition sf_stable (c : cfg) (d : decl) : Prop :=
  forall v w, assert_valid c d v = None -> apply_sf d v = Some w -> assignable c d w.
Definition wf (c : cfg) (s : st) : Prop :=
  (forall t e, alookup t (s_dict s) = Some e ->
     sf_stable c (e_decl e) /\ (forall v, e_val e = Some v -> assignable c (e_decl e) v)) /\
  (forall n l, alookup n (s_cache s) = Some l -> l <> []).

Definition decls (s : st) : list (name * decl) := map (fun ne => (fst ne, e_decl (snd ne))) (s_dict s).
(* same declarations (in the same order) and same read-only flag *)
Definition frame_eq (s s' : st) : Prop := decls s' = decls s /\ s_ro s' = s_ro s.
