(* C27 — property theorems (statements only; proofs by [exact] of lemmas in Proofs*.v).
   cfg switches: c_list_strict / c_temp_finally select the repaired code (props/C27/fix_2.diff, fix_1.diff);
   cfg_found is the code as it was found. *)
From Coq Require Import ZArith QArith List Bool String.
From OMV Require Import Base.Val C27.Model C27.ProofsValid C27.ProofsTemp.
Import ListNotations.
Open Scope Z_scope. Open Scope string_scope.

(* _assert_valid accepts exactly the values that satisfy the declaration (values / types / bounds /
   allow_none / check_valid), for every declaration - any check_valid function - and every value. *)
Theorem C27_assert_valid_iff_valid :
  forall (c : cfg) (d : decl) (v : pv),
    c_list_strict c = true -> (assert_valid c d v = None <-> valid_spec d v).
Proof. exact assert_valid_iff. Qed.
Print Assumptions C27_assert_valid_iff_valid.

(* The code as found accepts a value that does not satisfy its declaration (a str for types=list + values). *)
Theorem C27_assert_valid_found_refuted :
  exists d v, assert_valid cfg_found d v = None /\ ~ valid_spec d v.
Proof. exact assert_valid_found_refuted. Qed.
Print Assumptions C27_assert_valid_found_refuted.

(* An assignment succeeds exactly when the dictionary is writable, the (deprecation-aliased) option is
   declared, the value satisfies the declaration of the option it resolves to and the set_function accepts it:
   every state, name and value. *)
Theorem C27_set_succeeds_iff_valid :
  forall (c : cfg) (s : st) (n : name) (v : pv),
    c_list_strict c = true ->
    ((exists s', set_item c s n v = inr s') <->
     (s_ro s = false /\
      exists t et, resolve (s_dict s) n = inr (t, et) /\ valid_spec (e_decl et) v /\
                   apply_sf (e_decl et) v <> None)).
Proof. exact set_succeeds_iff_valid. Qed.
Print Assumptions C27_set_succeeds_iff_valid.

(* A rejected assignment leaves the whole state as it was. *)
Theorem C27_rejected_leaves_state :
  forall (c : cfg) (s : st) (n : name) (v : pv) (e : err) (s' : st) (ob : list obs) (x : option err),
    set_item c s n v = inl e ->
    run_op c (OSet n v) s = (s', ob, x) ->
    s' = s /\ ob = [(OutErr e, s)] /\ x = None.
Proof. exact rejected_leaves_state. Qed.
Print Assumptions C27_rejected_leaves_state.

(* update / set with several options: the first rejected assignment aborts, the accepted prefix stays. *)
Theorem C27_update_prefix :
  forall (c : cfg) (kw : list (name * pv)) (s s' : st) (e : err),
    update c s kw = (s', Some e) ->
    exists pre n v post, kw = (pre ++ (n, v) :: post)%list /\ update c s pre = (s', None) /\
                         set_item c s' n v = inl e.
Proof. exact update_prefix. Qed.
Print Assumptions C27_update_prefix.

(* A read-only dictionary rejects every assignment. *)
Theorem C27_read_only_rejects :
  forall (c : cfg) (s : st) (n : name) (v : pv), s_ro s = true -> set_item c s n v = inl EKey.
Proof. exact read_only_rejects. Qed.
Print Assumptions C27_read_only_rejects.

(* Reading / assigning a deprecated name with an alias is reading / assigning the new name. *)
Theorem C27_alias_forwards :
  forall (c : cfg) (s : st) (n : name) (e : entry) (t : name) (et : entry) (v : pv),
    alookup n (s_dict s) = Some e -> d_alias (e_decl e) = Some (Some t) ->
    alookup t (s_dict s) = Some et ->
    (forall a, d_alias (e_decl et) <> Some (Some a)) ->
    set_item c s n v = set_item c s t v /\ get_item s n = get_item s t.
Proof. exact alias_forwards. Qed.
Print Assumptions C27_alias_forwards.

(* After an accepted assignment the option reads as the (set_function-processed) value. *)
Theorem C27_set_then_get :
  forall (c : cfg) (s : st) (n : name) (v : pv) (s' : st),
    set_item c s n v = inr s' ->
    exists t et w, resolve (s_dict s) n = inr (t, et) /\ apply_sf (e_decl et) v = Some w /\
                   get_item s' n = inr w.
Proof. exact set_then_get. Qed.
Print Assumptions C27_set_then_get.

(* The repaired temporary(): for every well-formed state, every keyword list, every declaration-free body
   (any tree of assignments, reads, updates, nested temporary contexts, raises and caught raises) and every
   way of leaving the statement (normal exit, exception from the body, failure while entering), every option
   named in the call reads afterwards exactly as before, the context cache is as before, and the state is
   again well-formed with the same declarations (so the statement composes). *)
Theorem C27_temporary_restores :
  forall (c : cfg) (kw : list (name * pv)) (body : list op) (s s' : st) (ob : list obs) (e : option err),
    c_temp_finally c = true -> wf c s -> decl_free body = true ->
    run_op c (OTemp kw body) s = (s', ob, e) ->
    (forall n, In n (map fst kw) -> get_item s' n = get_item s n) /\
    s_cache s' = s_cache s /\ wf c s' /\ frame_eq s s'.
Proof. exact temporary_restores. Qed.
Print Assumptions C27_temporary_restores.

(* Well-formedness is an invariant of every declaration-free operation sequence of the repaired code. *)
Theorem C27_bodies_preserve_wf :
  forall (c : cfg) (body : list op),
    c_temp_finally c = true -> decl_free body = true ->
    forall s s' ob e, wf c s -> run_list (run_op c) body s = (s', ob, e) ->
                      wf c s' /\ frame_eq s s' /\ s_cache s' = s_cache s.
Proof. exact body_pres. Qed.
Print Assumptions C27_bodies_preserve_wf.

(* The code as found: an exception in the body leaves the temporary value (and a stale cache entry). *)
Theorem C27_temporary_found_refuted_exception :
  exists s kw body s' ob e,
    wf cfg_found s /\ decl_free body = true /\ run_op cfg_found (OTemp kw body) s = (s', ob, e) /\
    (exists n, In n (map fst kw) /\ get_item s' n <> get_item s n) /\ s_cache s' <> s_cache s.
Proof. exact temporary_found_refuted_exception. Qed.
Print Assumptions C27_temporary_found_refuted_exception.

(* The code as found: a failure while entering leaves the options assigned before the failure. *)
Theorem C27_temporary_found_refuted_entry :
  exists s kw body s' ob e,
    wf cfg_found s /\ decl_free body = true /\ run_op cfg_found (OTemp kw body) s = (s', ob, e) /\
    (exists n, In n (map fst kw) /\ get_item s' n <> get_item s n).
Proof. exact temporary_found_refuted_entry. Qed.
Print Assumptions C27_temporary_found_refuted_entry.

(* The deprecation-alias path of temporary(): for EVERY declaration-free body, temporary value and exit, a
   temporary() call that names the deprecated option "old" (forwarding to "a") leaves both names reading the
   pre-entry value (instance of C27_temporary_restores on a concrete well-formed state with an alias; shows the
   theorem's premises are satisfiable on that path). *)
Theorem C27_temporary_restores_alias :
  forall body v s' ob e,
    decl_free body = true ->
    run_op cfg_fixed (OTemp [("old", v)] body) s_alias = (s', ob, e) ->
    get_item s' "old" = inr (PInt 1) /\ get_item s' "a" = inr (PInt 1).
Proof. exact temporary_restores_alias. Qed.
Print Assumptions C27_temporary_restores_alias.
