(* C27 — validation: the code's _assert_valid decides the declarative reading of a declaration;
   assignment succeeds iff valid; rejected assignments leave the state; read-only; alias forwarding. *)
From Coq Require Import ZArith QArith List Bool String Lia.
From OMV Require Import Base.Val C27.Model.
Import ListNotations.
Open Scope Z_scope. Open Scope string_scope.

(* ------------------------------------------------------------------ assoc lists *)

Lemma eqb_eq' : forall a b : string, String.eqb a b = true <-> a = b.
Proof. apply String.eqb_eq. Qed.

Lemma alookup_aupdate_eq : forall A n (a : A) l, alookup n (aupdate n a l) = Some a.
Proof.
  induction l as [|[k b] r IH]; simpl.
  - rewrite String.eqb_refl. reflexivity.
  - destruct (String.eqb k n) eqn:E; simpl; rewrite E; auto.
Qed.

Lemma alookup_aupdate_neq : forall A n m (a : A) l, n <> m -> alookup m (aupdate n a l) = alookup m l.
Proof.
  induction l as [|[k b] r IH]; simpl; intros.
  - destruct (String.eqb n m) eqn:E; auto. apply String.eqb_eq in E. contradiction.
  - destruct (String.eqb k n) eqn:E; simpl.
    + apply String.eqb_eq in E. subst k.
      destruct (String.eqb n m) eqn:E2; auto. apply String.eqb_eq in E2. contradiction.
    + destruct (String.eqb k m); auto.
Qed.

(* ------------------------------------------------------------------ _assert_valid <-> valid_spec *)

Lemma qlt_false : forall a b, qlt a b = false <-> (b <= a)%Q.
Proof.
  intros. unfold qlt. rewrite negb_false_iff. apply Qle_bool_iff.
Qed.

Lemma check_cv_iff : forall d v, check_cv d v = None <-> (forall f, d_cv d = Some f -> f v = true).
Proof.
  intros. unfold check_cv. destruct (d_cv d) as [f|].
  - destruct (f v) eqn:E; split; intros H; try discriminate; auto.
    + intros g Hg. inversion Hg; subst; auto.
    + specialize (H f eq_refl). congruence.
  - split; auto. intros _ f H. discriminate.
Qed.

Lemma check_upper_iff : forall d v,
  check_upper d v = None <-> (forall u, d_upper d = Some u -> exists x, num v = Some x /\ (x <= u)%Q).
Proof.
  intros. unfold check_upper. destruct (d_upper d) as [u|].
  - destruct (num v) as [x|].
    + destruct (qlt u x) eqn:E; split; intros H; try discriminate; auto.
      * destruct (H u eq_refl) as [y [Hy Hle]]. inversion Hy; subst.
        apply qlt_false in Hle. congruence.
      * intros u' Hu. inversion Hu; subst. exists x. split; auto. apply qlt_false; auto.
    + split; intros H; try discriminate. destruct (H u eq_refl) as [y [Hy _]]. discriminate.
  - split; auto. intros _ u H. discriminate.
Qed.

Lemma check_lower_iff : forall d v,
  check_lower d v = None <-> (forall l, d_lower d = Some l -> exists x, num v = Some x /\ (l <= x)%Q).
Proof.
  intros. unfold check_lower. destruct (d_lower d) as [u|].
  - destruct (num v) as [x|].
    + destruct (qlt x u) eqn:E; split; intros H; try discriminate; auto.
      * destruct (H u eq_refl) as [y [Hy Hle]]. inversion Hy; subst.
        apply qlt_false in Hle. congruence.
      * intros u' Hu. inversion Hu; subst. exists x. split; auto. apply qlt_false; auto.
    + split; intros H; try discriminate. destruct (H u eq_refl) as [y [Hy _]]. discriminate.
  - split; auto. intros _ u H. discriminate.
Qed.

Lemma forallb_Forall' : forall A (f : A -> bool) l, forallb f l = true <-> Forall (fun x => f x = true) l.
Proof.
  intros. rewrite forallb_forall, Forall_forall. tauto.
Qed.

Lemma check_values_iff : forall c d vals v,
  c_list_strict c = true ->
  (check_values c d vals v = None <->
   (if types_is_list d then exists l, v = PList l /\ Forall (fun x => py_in x vals = true) l
    else py_in v vals = true)).
Proof.
  intros c d vals v Hs. unfold check_values. rewrite Hs. simpl.
  destruct (types_is_list d).
  - destruct v; simpl; split; intros H; try discriminate;
      try (destruct H as [l0 [H0 _]]; discriminate).
    + destruct (forallb (fun x => py_in x vals) l) eqn:E; try discriminate.
      exists l. split; auto. apply forallb_Forall'; auto.
    + destruct H as [l0 [H0 HF]]. inversion H0; subst.
      apply forallb_Forall' in HF. rewrite HF. reflexivity.
  - destruct (py_in v vals); split; intros; try discriminate; auto.
Qed.

Definition decl_body_spec (d : decl) (v : pv) : Prop :=
  (match d_values d with
   | Some vals => if types_is_list d
                  then exists l, v = PList l /\ Forall (fun x => py_in x vals = true) l
                  else py_in v vals = true
   | None => match d_types d with
             | Some t => isinstance v t = true
             | None => True
             end
   end) /\
  (forall u, d_upper d = Some u -> exists x, num v = Some x /\ (x <= u)%Q) /\
  (forall l, d_lower d = Some l -> exists x, num v = Some x /\ (l <= x)%Q).

Lemma check_decl_iff : forall c d v,
  c_list_strict c = true -> (check_decl c d v = None <-> decl_body_spec d v).
Proof.
  intros c d v Hs. unfold check_decl, decl_body_spec.
  rewrite <- check_upper_iff, <- check_lower_iff.
  destruct (d_values d) as [vals|].
  - rewrite <- (check_values_iff c d vals v Hs).
    destruct (check_values c d vals v); [split; [discriminate | intros [H _]; discriminate]|].
    destruct (check_upper d v); [split; [discriminate | intros [_ [H _]]; discriminate]|].
    tauto.
  - destruct (d_types d) as [t|].
    + destruct (isinstance v t).
      * destruct (check_upper d v); [split; [discriminate | intros [_ [H _]]; discriminate]|]. tauto.
      * split; [discriminate | intros [H _]; discriminate].
    + destruct (check_upper d v); [split; [discriminate | intros [_ [H _]]; discriminate]|]. tauto.
Qed.

Lemma is_none_iff : forall v, is_none v = true <-> v = PNone.
Proof. destruct v; simpl; split; intros; try discriminate; auto. Qed.

(* The repaired validation accepts exactly the values that satisfy the declaration. *)
Theorem assert_valid_iff : forall c d v,
  c_list_strict c = true -> (assert_valid c d v = None <-> valid_spec d v).
Proof.
  intros c d v Hs. unfold assert_valid, valid_spec. fold (decl_body_spec d v).
  rewrite <- check_cv_iff, <- (check_decl_iff c d v Hs).
  destruct (is_none v && d_allow_none d) eqn:E.
  - apply andb_true_iff in E. destruct E as [E1 E2]. apply is_none_iff in E1.
    split; intros H; [split; auto | tauto].
  - assert (N : ~ (v = PNone /\ d_allow_none d = true)).
    { intros [H1 H2]. apply is_none_iff in H1. rewrite H1, H2 in E. discriminate. }
    destruct (check_decl c d v).
    + split; intros H; [discriminate|].
      destruct H as [[H | H] _]; [contradiction | discriminate].
    + split; intros H; [split; auto | tauto].
Qed.

(* The code as found accepts a str for a list-typed option with `values`. *)
Example assert_valid_found_refuted :
  exists d v, assert_valid cfg_found d v = None /\ ~ valid_spec d v.
Proof.
  exists (mkdecl (Some [PStr "x"; PStr "y"]) (Some (TyOne TList)) None None false None None None), (PStr "xy").
  split; [reflexivity|].
  intros [[[H _] | [H _]] _]; [discriminate|].
  simpl in H. destruct H as [l [H _]]. discriminate.
Qed.

(* ------------------------------------------------------------------ __setitem__ *)

Definition set_ok (s : st) (n : name) (v : pv) : Prop :=
  s_ro s = false /\
  exists t et, resolve (s_dict s) n = inr (t, et) /\ valid_spec (e_decl et) v /\ apply_sf (e_decl et) v <> None.

Lemma resolve_declared : forall d n t et, resolve d n = inr (t, et) -> alookup n d <> None.
Proof.
  unfold resolve. intros d n t et H. destruct (alookup n d); [discriminate | discriminate].
Qed.

(* Assignment succeeds exactly when the dictionary is writable, the (aliased) option exists, and the
   value satisfies its declaration (and the set_function accepts it). *)
Theorem set_succeeds_iff_valid : forall c s n v,
  c_list_strict c = true ->
  ((exists s', set_item c s n v = inr s') <-> set_ok s n v).
Proof.
  intros c s n v Hs. unfold set_item, set_ok. split.
  - intros [s' H].
    destruct (alookup n (s_dict s)) eqn:En; [|discriminate].
    destruct (s_ro s); [discriminate|]. split; auto.
    destruct (resolve (s_dict s) n) as [e0|[t et]]; [discriminate|].
    exists t, et. split; auto.
    destruct (assert_valid c (e_decl et) v) eqn:Ea; [discriminate|].
    apply (assert_valid_iff c _ _ Hs) in Ea. split; auto.
    destruct (apply_sf (e_decl et) v); [discriminate | discriminate].
  - intros [Hro [t [et [Hr [Hv Hsf]]]]].
    pose proof (resolve_declared _ _ _ _ Hr) as Hd.
    destruct (alookup n (s_dict s)); [|contradiction].
    rewrite Hro, Hr.
    apply (assert_valid_iff c _ _ Hs) in Hv. rewrite Hv.
    destruct (apply_sf (e_decl et) v); [eauto | contradiction].
Qed.

(* what a successful assignment does *)
Lemma set_item_inr : forall c s n v s',
  set_item c s n v = inr s' ->
  exists t et w, resolve (s_dict s) n = inr (t, et) /\ s_ro s = false /\
                 assert_valid c (e_decl et) v = None /\ apply_sf (e_decl et) v = Some w /\
                 s' = with_dict s (aupdate t (mkentry (e_decl et) (Some w)) (s_dict s)).
Proof.
  unfold set_item. intros c s n v s' H.
  destruct (alookup n (s_dict s)); [|discriminate].
  destruct (s_ro s) eqn:Er; [discriminate|].
  destruct (resolve (s_dict s) n) as [e0|[t et]]; [discriminate|].
  destruct (assert_valid c (e_decl et) v) eqn:Ea; [discriminate|].
  destruct (apply_sf (e_decl et) v) eqn:Es; [|discriminate].
  inversion H; subst. exists t, et, p. auto.
Qed.

Lemma resolve_err : forall d n e, resolve d n = inl e -> e = EKey.
Proof.
  unfold resolve. intros d n e H.
  destruct (alookup n d) as [e0|]; [|inversion H; auto].
  destruct (d_alias (e_decl e0)) as [[a|]|]; try discriminate.
  destruct (alookup a d); [discriminate | inversion H; auto].
Qed.

Lemma check_decl_err : forall c d v e, check_decl c d v = Some e -> e = EType \/ e = EValue.
Proof.
  intros c d v e H. unfold check_decl in H.
  destruct (d_values d) as [vals|].
  - unfold check_values in H.
    destruct (types_is_list d).
    + destruct (c_list_strict c && negb (is_list v)); [inversion H; auto|].
      destruct (py_iter v); [|inversion H; auto].
      destruct (forallb (fun x => py_in x vals) l); [|inversion H; auto].
      unfold check_upper, check_lower in H.
      destruct (d_upper d); destruct (d_lower d); destruct (num v);
        repeat match type of H with context [if ?b then _ else _] => destruct b end;
        inversion H; auto.
    + destruct (py_in v vals); [|inversion H; auto].
      unfold check_upper, check_lower in H.
      destruct (d_upper d); destruct (d_lower d); destruct (num v);
        repeat match type of H with context [if ?b then _ else _] => destruct b end;
        inversion H; auto.
  - unfold check_upper, check_lower in H.
    destruct (d_types d); [destruct (isinstance v t); [|inversion H; auto]|];
      destruct (d_upper d); destruct (d_lower d); destruct (num v);
        repeat match type of H with context [if ?b then _ else _] => destruct b end;
        inversion H; auto.
Qed.

Lemma assert_valid_err : forall c d v e, assert_valid c d v = Some e -> e = EType \/ e = EValue.
Proof.
  intros c d v e H. unfold assert_valid in H.
  destruct (is_none v && d_allow_none d).
  - unfold check_cv in H. destruct (d_cv d); [destruct (b v)|]; inversion H; auto.
  - destruct (check_decl c d v) eqn:E.
    + inversion H; subst. eapply check_decl_err; eauto.
    + unfold check_cv in H. destruct (d_cv d); [destruct (b v)|]; inversion H; auto.
Qed.

Lemma set_item_err : forall c s n v e, set_item c s n v = inl e -> e = EKey \/ e = EType \/ e = EValue.
Proof.
  unfold set_item. intros c s n v e H.
  destruct (alookup n (s_dict s)); [|inversion H; auto].
  destruct (s_ro s); [inversion H; auto|].
  destruct (resolve (s_dict s) n) as [e1|[t et]] eqn:Er.
  - apply resolve_err in Er. inversion H; subst; auto.
  - destruct (assert_valid c (e_decl et) v) eqn:Ea.
    + apply assert_valid_err in Ea. inversion H; subst. tauto.
    + destruct (apply_sf (e_decl et) v); inversion H; auto.
Qed.

(* A rejected assignment leaves the whole state (every stored value, the cache) as it was;
   the operation records exactly the state it started from. *)
Theorem rejected_leaves_state : forall c s n v e s' ob x,
  set_item c s n v = inl e ->
  run_op c (OSet n v) s = (s', ob, x) ->
  s' = s /\ ob = [(OutErr e, s)] /\ x = None.
Proof.
  intros c s n v e s' ob x H R. simpl in R. rewrite H in R. unfold finish in R.
  apply set_item_err in H.
  destruct H as [H | [H | H]]; subst e; inversion R; subst; auto.
Qed.

(* update(): the first rejected assignment aborts; what was assigned before it stays, nothing else changes *)
Theorem update_prefix : forall c kw s s' e,
  update c s kw = (s', Some e) ->
  exists pre n v post, kw = (pre ++ (n, v) :: post)%list /\ update c s pre = (s', None) /\ set_item c s' n v = inl e.
Proof.
  induction kw as [|[n v] r IH]; simpl; intros s s' e H; [discriminate|].
  destruct (set_item c s n v) as [e0|s1] eqn:E.
  - inversion H; subst. exists [], n, v, r. simpl. auto.
  - destruct (IH _ _ _ H) as [pre [n' [v' [post [H1 [H2 H3]]]]]].
    exists ((n, v) :: pre), n', v', post. simpl. rewrite E. subst r. auto.
Qed.

(* A read-only dictionary rejects every assignment (KeyError), whatever the value. *)
Theorem read_only_rejects : forall c s n v, s_ro s = true -> set_item c s n v = inl EKey.
Proof.
  intros. unfold set_item. destruct (alookup n (s_dict s)); auto. rewrite H. reflexivity.
Qed.

Theorem read_only_update_rejects : forall c s kw, s_ro s = true -> kw <> [] -> update c s kw = (s, Some EKey).
Proof.
  intros c s [|[n v] r] H K; [contradiction|]. simpl. rewrite read_only_rejects; auto.
Qed.

(* Deprecation alias: reading / assigning the deprecated name is reading / assigning the new name. *)
Theorem alias_forwards : forall c s n e t et v,
  alookup n (s_dict s) = Some e -> d_alias (e_decl e) = Some (Some t) ->
  alookup t (s_dict s) = Some et ->
  (forall a, d_alias (e_decl et) <> Some (Some a)) ->
  set_item c s n v = set_item c s t v /\ get_item s n = get_item s t.
Proof.
  intros c s n e t et v Hn Ha Ht Hna.
  assert (R1 : resolve (s_dict s) n = inr (t, et)) by (unfold resolve; rewrite Hn, Ha, Ht; reflexivity).
  assert (R2 : resolve (s_dict s) t = inr (t, et)).
  { unfold resolve. rewrite Ht. destruct (d_alias (e_decl et)) as [[a|]|] eqn:E; auto.
    exfalso. eapply Hna; eauto. }
  unfold set_item, get_item. rewrite Hn, Ht, R1, R2. auto.
Qed.

Lemma alookup_aupdate : forall A n m (a : A) l,
  alookup m (aupdate n a l) = if String.eqb n m then Some a else alookup m l.
Proof.
  intros. destruct (String.eqb n m) eqn:E.
  - apply String.eqb_eq in E. subst. apply alookup_aupdate_eq.
  - apply alookup_aupdate_neq. intro; subst. rewrite String.eqb_refl in E. discriminate.
Qed.

(* re-assigning the value of an existing entry (same declaration) does not change which entry a
   name resolves to; only the resolved entry's content at the assigned key *)
Lemma resolve_update : forall d t et x n,
  alookup t d = Some et ->
  resolve (aupdate t (mkentry (e_decl et) x) d) n =
  match resolve d n with
  | inl e => inl e
  | inr (t', et') => inr (t', if String.eqb t t' then mkentry (e_decl et) x else et')
  end.
Proof.
  intros d t et x n Ht. unfold resolve. rewrite alookup_aupdate.
  destruct (String.eqb t n) eqn:Etn.
  - apply String.eqb_eq in Etn. subst n. rewrite Ht. simpl.
    destruct (d_alias (e_decl et)) as [[a|]|].
    + rewrite alookup_aupdate. destruct (String.eqb t a) eqn:Eta.
      * apply String.eqb_eq in Eta. subst a. rewrite Ht, String.eqb_refl. reflexivity.
      * destruct (alookup a d); auto. rewrite Eta. reflexivity.
    + rewrite String.eqb_refl. reflexivity.
    + rewrite String.eqb_refl. reflexivity.
  - destruct (alookup n d) as [e|]; auto.
    destruct (d_alias (e_decl e)) as [[a|]|].
    + rewrite alookup_aupdate. destruct (String.eqb t a) eqn:Eta.
      * apply String.eqb_eq in Eta. subst a. rewrite Ht. rewrite String.eqb_refl. reflexivity.
      * destruct (alookup a d); auto. rewrite Eta. reflexivity.
    + rewrite Etn. reflexivity.
    + rewrite Etn. reflexivity.
Qed.

Lemma resolve_lookup : forall d n t et, resolve d n = inr (t, et) -> alookup t d = Some et.
Proof.
  unfold resolve. intros d n t et H.
  destruct (alookup n d) as [e|] eqn:En; [|discriminate].
  destruct (d_alias (e_decl e)) as [[a|]|].
  - destruct (alookup a d) eqn:Ea; [|discriminate]. inversion H; subst; auto.
  - inversion H; subst; auto.
  - inversion H; subst; auto.
Qed.

(* after a successful assignment the option reads as the stored (set_function-processed) value *)
Theorem set_then_get : forall c s n v s',
  set_item c s n v = inr s' ->
  exists t et w, resolve (s_dict s) n = inr (t, et) /\ apply_sf (e_decl et) v = Some w /\ get_item s' n = inr w.
Proof.
  intros c s n v s' H. destruct (set_item_inr _ _ _ _ _ H) as [t [et [w [Hr [_ [_ [Hw Hs']]]]]]].
  exists t, et, w. split; auto. split; auto. subst s'.
  unfold get_item, with_dict; simpl.
  rewrite (resolve_update _ _ _ _ _ (resolve_lookup _ _ _ _ Hr)), Hr, String.eqb_refl. reflexivity.
Qed.

(* non-vacuity: a state in which an assignment is accepted, one in which it is rejected *)
Example set_ok_example :
  let s := fst (declare cfg_fixed (st0 false) "a" (mkdecl None (Some (TyOne TInt)) (Some 3%Q) None false None None None) (Some (PInt 1))) in
  (exists s', set_item cfg_fixed s "a" (PBool true) = inr s') /\ set_item cfg_fixed s "a" (PInt 4) = inl EValue
  /\ set_item cfg_fixed s "a" (PStr "x") = inl EType.
Proof. simpl. split; [eexists; reflexivity|]. split; reflexivity. Qed.
