(* C27 — temporary(): the repaired context manager restores every option it changed, for every
   body and every way of leaving; the code as found does not. *)
From Coq Require Import ZArith QArith List Bool String Lia.
From OMV Require Import Base.Val C27.Model C27.ProofsValid.
Import ListNotations.
Open Scope Z_scope. Open Scope string_scope.
Arguments finish : simpl never.

(* ------------------------------------------------------------------ assoc lists, continued *)

Lemma aupdate_aupdate : forall A n (x y : A) l, aupdate n x (aupdate n y l) = aupdate n x l.
Proof.
  induction l as [|[k b] r IH]; simpl.
  - rewrite String.eqb_refl. reflexivity.
  - destruct (String.eqb k n) eqn:E; simpl; rewrite E; auto. rewrite IH. reflexivity.
Qed.

Lemma aupdate_same : forall A n (x : A) l, alookup n l = Some x -> aupdate n x l = l.
Proof.
  induction l as [|[k b] r IH]; simpl; intros H; [discriminate|].
  destruct (String.eqb k n) eqn:E.
  - inversion H; subst. reflexivity.
  - rewrite IH; auto.
Qed.

Lemma aremove_aupdate_absent : forall A n (x : A) l, alookup n l = None -> aremove n (aupdate n x l) = l.
Proof.
  induction l as [|[k b] r IH]; simpl; intros H.
  - rewrite String.eqb_refl. reflexivity.
  - destruct (String.eqb k n) eqn:E; [discriminate|]. simpl. rewrite E. rewrite IH; auto.
Qed.

(* ------------------------------------------------------------------ declarations frame *)

Lemma alookup_decls : forall s n, alookup n (decls s) = option_map e_decl (alookup n (s_dict s)).
Proof.
  intros s n. unfold decls. induction (s_dict s) as [|[k e] r IH]; simpl; auto.
  destruct (String.eqb k n); auto.
Qed.

Lemma frame_lookup : forall s s' n, frame_eq s s' ->
  option_map e_decl (alookup n (s_dict s')) = option_map e_decl (alookup n (s_dict s)).
Proof.
  intros s s' n [H _]. rewrite <- !alookup_decls. rewrite H. reflexivity.
Qed.

Lemma frame_refl : forall s, frame_eq s s.
Proof. split; reflexivity. Qed.

Lemma frame_trans : forall a b c, frame_eq a b -> frame_eq b c -> frame_eq a c.
Proof. intros a b c [H1 H2] [H3 H4]. split; congruence. Qed.

Lemma frame_sym : forall a b, frame_eq a b -> frame_eq b a.
Proof. intros a b [H1 H2]. split; congruence. Qed.

Definition tgt (s : st) (n : name) : option name :=
  match resolve (s_dict s) n with inr (t, _) => Some t | inl _ => None end.

Lemma frame_resolve : forall s s' n, frame_eq s s' ->
  match resolve (s_dict s) n, resolve (s_dict s') n with
  | inl e, inl e' => e = e'
  | inr (t, et), inr (t', et') => t = t' /\ e_decl et = e_decl et'
  | _, _ => False
  end.
Proof.
  intros s s' n F. unfold resolve.
  pose proof (frame_lookup s s' n F) as Hn.
  destruct (alookup n (s_dict s)) as [e|], (alookup n (s_dict s')) as [e'|]; simpl in Hn; try discriminate; auto.
  inversion Hn as [Hd]. rewrite Hd.
  destruct (d_alias (e_decl e)) as [[a|]|]; auto.
  pose proof (frame_lookup s s' a F) as Ha.
  destruct (alookup a (s_dict s)) as [ea|], (alookup a (s_dict s')) as [ea'|]; simpl in Ha; try discriminate; auto.
  inversion Ha. auto.
Qed.

Lemma frame_tgt : forall s s' n, frame_eq s s' -> tgt s' n = tgt s n.
Proof.
  intros s s' n F. unfold tgt. pose proof (frame_resolve s s' n F) as H.
  destruct (resolve (s_dict s) n) as [e|[t et]], (resolve (s_dict s') n) as [e'|[t' et']]; try contradiction; auto.
  destruct H; subst; auto.
Qed.

Definition tgts (s : st) (ch : list name) : list name :=
  flat_map (fun n => match tgt s n with Some t => [t] | None => [] end) ch.

Lemma frame_tgts : forall s s' ch, frame_eq s s' -> tgts s' ch = tgts s ch.
Proof.
  intros s s' ch F. unfold tgts. induction ch; simpl; auto. rewrite IHch, (frame_tgt s s' a F). reflexivity.
Qed.

Lemma get_item_by_lookup : forall s s' n, frame_eq s s' ->
  (forall t, tgt s n = Some t -> alookup t (s_dict s') = alookup t (s_dict s)) ->
  get_item s' n = get_item s n.
Proof.
  intros s s' n F H. unfold get_item. unfold tgt in H.
  pose proof (frame_resolve s s' n F) as R.
  destruct (resolve (s_dict s) n) as [e|[t et]] eqn:E1, (resolve (s_dict s') n) as [e'|[t' et']] eqn:E2;
    try contradiction; subst; auto.
  destruct R as [Rt _]. subst t'.
  apply resolve_lookup in E1. apply resolve_lookup in E2.
  rewrite (H t eq_refl), E1 in E2. inversion E2; subst. reflexivity.
Qed.

(* ------------------------------------------------------------------ effect of an accepted assignment *)

Lemma decls_update : forall s t et x,
  alookup t (s_dict s) = Some et ->
  decls (with_dict s (aupdate t (mkentry (e_decl et) x) (s_dict s))) = decls s.
Proof.
  intros s t et x. unfold decls, with_dict; simpl.
  induction (s_dict s) as [|[k e] r IH]; simpl; intros H; [discriminate|].
  destruct (String.eqb k t) eqn:E; simpl.
  - inversion H; subst. reflexivity.
  - rewrite IH; auto.
Qed.

Lemma set_pres : forall c s n v s',
  wf c s -> set_item c s n v = inr s' ->
  wf c s' /\ frame_eq s s' /\ s_cache s' = s_cache s /\
  exists t, tgt s n = Some t /\ forall m, m <> t -> alookup m (s_dict s') = alookup m (s_dict s).
Proof.
  intros c s n v s' W H.
  destruct (set_item_inr _ _ _ _ _ H) as [t [et [w [Hr [Hro [Hv [Hw Hs']]]]]]].
  pose proof (resolve_lookup _ _ _ _ Hr) as Ht.
  subst s'. split; [|split; [|split]].
  - destruct W as [W1 W2]. split; [|exact W2].
    intros m e Hm. simpl in Hm. rewrite alookup_aupdate in Hm.
    destruct (String.eqb t m) eqn:E.
    + inversion Hm; subst; simpl. destruct (W1 _ _ Ht) as [Hst _]. split; auto.
      intros v0 Hv0. inversion Hv0; subst. eapply Hst; eauto.
    + eapply W1; eauto.
  - split; [apply decls_update; auto | reflexivity].
  - reflexivity.
  - exists t. split; [unfold tgt; rewrite Hr; reflexivity|].
    intros m Hm. simpl. apply alookup_aupdate_neq. auto.
Qed.

(* re-assigning an assignable value to a resolved, writable option succeeds and stores exactly it *)
Lemma set_assignable : forall c s n t et old,
  resolve (s_dict s) n = inr (t, et) -> s_ro s = false -> assignable c (e_decl et) old ->
  set_item c s n old = inr (with_dict s (aupdate t (mkentry (e_decl et) (Some old)) (s_dict s))).
Proof.
  intros c s n t et old Hr Hro [Hv Hsf]. unfold set_item.
  pose proof (resolve_declared _ _ _ _ Hr) as Hd.
  destruct (alookup n (s_dict s)); [|contradiction].
  rewrite Hro, Hr, Hv, Hsf. reflexivity.
Qed.

Lemma update_pres : forall c kw s s' e,
  wf c s -> update c s kw = (s', e) -> wf c s' /\ frame_eq s s' /\ s_cache s' = s_cache s.
Proof.
  induction kw as [|[n v] r IH]; simpl; intros s s' e W H.
  - inversion H; subst. split; auto. split; [apply frame_refl | reflexivity].
  - destruct (set_item c s n v) as [e0|s1] eqn:E.
    + inversion H; subst. split; auto. split; [apply frame_refl | reflexivity].
    + destruct (set_pres _ _ _ _ _ W E) as [W1 [F1 [C1 _]]].
      destruct (IH _ _ _ W1 H) as [W2 [F2 C2]].
      split; auto. split; [eapply frame_trans; eauto | congruence].
Qed.

(* ------------------------------------------------------------------ exit loop *)

Lemma exit_loop_app : forall c a b s,
  exit_loop c s (a ++ b) =
  match exit_loop c s a with
  | (s', Some e) => (s', Some e)
  | (s', None) => exit_loop c s' b
  end.
Proof.
  induction a as [|n a IH]; simpl; intros; auto.
  destruct (exit_step c s n) as [s' [e|]]; auto.
Qed.

Lemma cache_push_lookup : forall ch n v,
  alookup n (cache_push ch n v) =
  Some (match alookup n ch with Some l => l ++ [v] | None => [v] end)%list.
Proof.
  intros. unfold cache_push. destruct (alookup n ch); apply alookup_aupdate_eq.
Qed.

Lemma cache_push_other : forall ch n m v, n <> m -> alookup m (cache_push ch n v) = alookup m ch.
Proof.
  intros. unfold cache_push. destruct (alookup n ch); apply alookup_aupdate_neq; auto.
Qed.

(* popping what was pushed gives back the cache, provided it holds no empty stacks *)
Lemma cache_pop_push : forall (ch : list (name * list pv)) n v,
  (forall l, alookup n ch = Some l -> l <> []) ->
  match alookup n ch with
  | Some l => aupdate n l (cache_push ch n v) = ch /\ l <> []
  | None => aremove n (aupdate n [] (cache_push ch n v)) = ch
  end.
Proof.
  intros ch n v H. unfold cache_push. destruct (alookup n ch) as [l|] eqn:E.
  - split; [|apply H; auto]. rewrite aupdate_aupdate. apply aupdate_same; auto.
  - rewrite aupdate_aupdate. apply aremove_aupdate_absent; auto.
Qed.

(* ------------------------------------------------------------------ the enter / exit pair *)

Lemma in_tgts : forall s ch n t, In n ch -> tgt s n = Some t -> In t (tgts s ch).
Proof.
  intros s ch n t Hin Ht. unfold tgts. apply in_flat_map. exists n. split; auto. rewrite Ht. simpl; auto.
Qed.

Lemma entry_eta : forall e, mkentry (e_decl e) (e_val e) = e.
Proof. destruct e; reflexivity. Qed.

Lemma exit_nil : forall c s s2,
  wf c s2 -> frame_eq s s2 -> s_cache s2 = s_cache s ->
  exists s3, exit_loop c s2 (rev []) = (s3, None) /\ wf c s3 /\ frame_eq s s3 /\ s_cache s3 = s_cache s /\
    (forall t, In t (tgts s []) -> alookup t (s_dict s3) = alookup t (s_dict s)) /\
    (forall t, ~ In t (tgts s []) -> alookup t (s_dict s3) = alookup t (s_dict s2)).
Proof.
  intros c s s2 W F C. exists s2. simpl.
  split; [reflexivity|]. split; auto. split; auto. split; auto. split; [intros ? []|auto].
Qed.

Lemma enter_exit : forall c kw s s1 ch e1,
  wf c s -> enter_fixed c s kw = (s1, ch, e1) ->
  wf c s1 /\ frame_eq s s1 /\
  (forall t, ~ In t (tgts s ch) -> alookup t (s_dict s1) = alookup t (s_dict s)) /\
  (e1 = None -> ch = map fst kw) /\
  forall s2, wf c s2 -> frame_eq s1 s2 -> s_cache s2 = s_cache s1 ->
    exists s3, exit_loop c s2 (rev ch) = (s3, None) /\ wf c s3 /\ frame_eq s s3 /\ s_cache s3 = s_cache s /\
      (forall t, In t (tgts s ch) -> alookup t (s_dict s3) = alookup t (s_dict s)) /\
      (forall t, ~ In t (tgts s ch) -> alookup t (s_dict s3) = alookup t (s_dict s2)).
Proof.
  intros c. induction kw as [|[n v] kw IH]; intros s s1 ch e1 W H.
  - simpl in H. inversion H; subst. clear H.
    split; auto. split; [apply frame_refl|]. split; auto. split; auto.
    intros s2 W2 F2 C2. apply exit_nil; auto.
  - simpl in H.
    destruct (get_item s n) as [eg|old] eqn:Eg.
    { inversion H; subst. clear H.
      split; auto. split; [apply frame_refl|]. split; auto. split; [discriminate|].
      intros s2 W2 F2 C2. apply exit_nil; auto. }
    destruct (set_item c s n v) as [es|sA] eqn:Es.
    { inversion H; subst. clear H.
      split; auto. split; [apply frame_refl|]. split; auto. split; [discriminate|].
      intros s2 W2 F2 C2. apply exit_nil; auto. }
    set (sB := with_cache sA (cache_push (s_cache sA) n old)) in *.
    destruct (enter_fixed c sB kw) as [[s3' ch'] e'] eqn:Ee.
    inversion H; subst s1 ch e1. clear H.
    (* facts about the assignment *)
    destruct (set_item_inr _ _ _ _ _ Es) as [t [et [w [Hr [Hro [Hv [Hw HsA]]]]]]].
    pose proof (resolve_lookup _ _ _ _ Hr) as Ht.
    destruct (set_pres _ _ _ _ _ W Es) as [WA [FA [CA [t0 [Htg HA]]]]].
    assert (t0 = t) by (unfold tgt in Htg; rewrite Hr in Htg; inversion Htg; auto). subst t0.
    assert (Hold : e_val et = Some old).
    { unfold get_item in Eg. rewrite Hr in Eg. destruct (e_val et); inversion Eg; auto. }
    assert (Hasg : assignable c (e_decl et) old).
    { destruct W as [W1 _]. destruct (W1 _ _ Ht) as [_ K]. apply K; auto. }
    assert (WB : wf c sB).
    { destruct WA as [WA1 WA2]. split; [exact WA1|].
      intros m l Hm. unfold sB in Hm. simpl in Hm.
      destruct (String.eqb n m) eqn:E.
      - apply String.eqb_eq in E. subst m. rewrite cache_push_lookup in Hm. inversion Hm.
        destruct (alookup n (s_cache sA)); intro K; [apply app_eq_nil in K; destruct K; discriminate | discriminate].
      - rewrite cache_push_other in Hm; [eapply WA2; eauto|].
        intro; subst. rewrite String.eqb_refl in E. discriminate. }
    assert (FB : frame_eq s sB).
    { destruct FA as [F1 F2]. split; auto. }
    assert (DB : s_dict sB = s_dict sA) by reflexivity.
    destruct (IH _ _ _ _ WB Ee) as [W1 [F1 [L1 [Hch IHexit]]]].
    rewrite (frame_tgts s sB ch' FB) in L1.
    assert (Tg : tgts s (n :: ch') = t :: tgts s ch').
    { unfold tgts at 1. simpl. rewrite Htg. reflexivity. }
    split; auto. split; [eapply frame_trans; eauto|].
    split; [|split].
    { intros m Hm. rewrite Tg in Hm. rewrite L1; [|intro; apply Hm; right; auto].
      rewrite DB. apply HA. intro; subst. apply Hm; left; auto. }
    { intros K. rewrite (Hch K). reflexivity. }
    intros s2 W2 F2 C2.
    destruct (IHexit s2 W2 F2 C2) as [s3 [X1 [W3 [F3 [C3 [R1 R2]]]]]].
    rewrite (frame_tgts s sB ch' FB) in R1, R2.
    simpl rev. rewrite exit_loop_app, X1. simpl exit_loop.
    (* the last restore *)
    assert (Fs3 : frame_eq s s3) by (eapply frame_trans; eauto).
    pose proof (frame_resolve s s3 n Fs3) as RR. rewrite Hr in RR.
    destruct (resolve (s_dict s3) n) as [er|[t' et']] eqn:Er3; [contradiction|].
    destruct RR as [Rt Rd]. subst t'.
    pose proof (resolve_lookup _ _ _ _ Er3) as Ht3.
    assert (Hro3 : s_ro s3 = false) by (destruct Fs3 as [_ K]; congruence).
    unfold exit_step. rewrite C3. unfold sB at 1. simpl s_cache at 1.
    rewrite cache_push_lookup.
    assert (CAeq : s_cache sA = s_cache s) by exact CA.
    rewrite CAeq.
    destruct W as [Wd Wc].
    pose proof (cache_pop_push (s_cache s) n old (Wc n)) as PP.
    set (l0 := match alookup n (s_cache s) with Some l => (l ++ [old])%list | None => [old] end).
    assert (Hrev : exists l, rev l0 = old :: rev l /\
                   match alookup n (s_cache s) with Some l' => l = l' | None => l = [] end).
    { unfold l0. destruct (alookup n (s_cache s)) as [l|].
      - exists l. rewrite rev_app_distr. simpl. auto.
      - exists []. simpl. auto. }
    destruct Hrev as [l [Hrev Hl]]. rewrite Hrev. rewrite rev_involutive.
    set (s1x := with_cache s3 (aupdate n l (s_cache sB))).
    assert (Er1x : resolve (s_dict s1x) n = inr (t, et')) by exact Er3.
    rewrite Rd in Hasg.
    rewrite (set_assignable c s1x n t et' old Er1x Hro3 Hasg).
    set (s2x := with_dict s1x (aupdate t (mkentry (e_decl et') (Some old)) (s_dict s1x))).
    assert (Cfinal : s_cache (match l with [] => with_cache s2x (aremove n (s_cache s2x)) | _ => s2x end)
                     = s_cache s).
    { destruct (alookup n (s_cache s)) as [l'|] eqn:El.
      - subst l. destruct PP as [PP1 PP2]. destruct l'; [contradiction|].
        unfold s2x, s1x, sB. simpl. rewrite CAeq. exact PP1.
      - subst l. unfold s2x, s1x, sB. simpl. rewrite CAeq. exact PP. }
    assert (Dfinal : s_dict (match l with [] => with_cache s2x (aremove n (s_cache s2x)) | _ => s2x end)
                     = aupdate t (mkentry (e_decl et') (Some old)) (s_dict s3)).
    { destruct l; reflexivity. }
    assert (Rofinal : s_ro (match l with [] => with_cache s2x (aremove n (s_cache s2x)) | _ => s2x end)
                     = s_ro s3).
    { destruct l; reflexivity. }
    eexists. split; [reflexivity|].
    split; [|split; [|split; [exact Cfinal|split]]].
    + (* wf *)
      split.
      * intros m e Hm. rewrite Dfinal in Hm. rewrite alookup_aupdate in Hm.
        destruct W3 as [W3d _].
        destruct (String.eqb t m) eqn:E.
        -- inversion Hm; subst; simpl. destruct (W3d _ _ Ht3) as [Hst _]. split; auto.
           intros v0 Hv0. inversion Hv0; subst. exact Hasg.
        -- eapply W3d; eauto.
      * intros m lm Hm. rewrite Cfinal in Hm. eapply Wc; eauto.
    + (* frame *)
      split.
      * unfold decls. rewrite Dfinal.
        pose proof (decls_update s3 t et' (Some old) Ht3) as K. unfold decls, with_dict in K. simpl in K.
        rewrite K. apply Fs3.
      * rewrite Rofinal. apply Fs3.
    + (* restored targets *)
      intros m Hm. rewrite Tg in Hm. rewrite Dfinal, alookup_aupdate.
      destruct (String.eqb t m) eqn:E.
      * apply String.eqb_eq in E. subst m. rewrite Ht. rewrite <- Rd, <- Hold, entry_eta. reflexivity.
      * assert (t <> m) by (intro; subst; rewrite String.eqb_refl in E; discriminate).
        destruct Hm as [Hm | Hm]; [contradiction|].
        rewrite (R1 m Hm). rewrite DB. apply HA. auto.
    + (* untouched targets *)
      intros m Hm. rewrite Tg in Hm. rewrite Dfinal, alookup_aupdate.
      destruct (String.eqb t m) eqn:E.
      * apply String.eqb_eq in E. subst m. exfalso. apply Hm. left; auto.
      * apply R2. intro. apply Hm. right; auto.
Qed.

(* ------------------------------------------------------------------ bodies *)

Definition pres (c : cfg) (f : st -> res) : Prop :=
  forall s s' ob e, wf c s -> f s = (s', ob, e) -> wf c s' /\ frame_eq s s' /\ s_cache s' = s_cache s.

Lemma finish_state : forall s ob e s' ob' e', finish s ob e = (s', ob', e') -> s' = s.
Proof.
  intros. unfold finish in H. destruct e as [[]|]; inversion H; auto.
Qed.

(* the core: whatever the body does (as long as it keeps declarations, well-formedness and the cache),
   and however it ends, the repaired temporary() puts every named option back *)
Lemma temp_core : forall c kw body,
  c_temp_finally c = true ->
  pres c (run_list (run_op c) body) ->
  forall s s' ob e, wf c s -> run_op c (OTemp kw body) s = (s', ob, e) ->
    wf c s' /\ frame_eq s s' /\ s_cache s' = s_cache s /\
    forall n, In n (map fst kw) -> get_item s' n = get_item s n.
Proof.
  intros c kw body Hc Hb s s' ob e W H. simpl in H. rewrite Hc in H.
  destruct (enter_fixed c s kw) as [[s1 ch] e1] eqn:Ee.
  destruct (enter_exit _ _ _ _ _ _ W Ee) as [W1 [F1 [L1 [Hch Hexit]]]].
  assert (K : forall s2 ob2 e2 s3,
             wf c s2 -> frame_eq s1 s2 -> s_cache s2 = s_cache s1 ->
             (e1 = None \/ s2 = s1) ->
             exit_loop c s2 (rev ch) = (s3, None) ->
             wf c s3 /\ frame_eq s s3 /\ s_cache s3 = s_cache s /\
             (forall t, In t (tgts s ch) -> alookup t (s_dict s3) = alookup t (s_dict s)) /\
             (forall t, ~ In t (tgts s ch) -> alookup t (s_dict s3) = alookup t (s_dict s2)) ->
             finish s3 ob2 e2 = (s', ob, e) ->
             wf c s' /\ frame_eq s s' /\ s_cache s' = s_cache s /\
             forall n, In n (map fst kw) -> get_item s' n = get_item s n).
  { intros s2 ob2 e2 s3 W2 F2 C2 Hcase X [W3 [F3 [C3 [R1 R2]]]] Hf.
    apply finish_state in Hf. subst s'.
    split; auto. split; auto. split; auto.
    intros n Hn. apply get_item_by_lookup; auto.
    intros t Ht.
    destruct (in_dec string_dec t (tgts s ch)) as [Hin | Hnin]; [apply R1; auto|].
    destruct Hcase as [Hnone | Hs2].
    - exfalso. apply Hnin. rewrite (Hch Hnone). eapply in_tgts; eauto.
    - rewrite (R2 t Hnin). subst s2. apply L1; auto. }
  destruct e1 as [ee|].
  - destruct (Hexit s1 W1 (frame_refl s1) eq_refl) as [s3 [X Rest]].
    rewrite X in H. eapply (K s1 [] (Some ee) s3); eauto. apply frame_refl.
  - destruct (run_list (run_op c) body s1) as [[s2 ob2] e2] eqn:Eb.
    destruct (Hb _ _ _ _ W1 Eb) as [W2 [F2 C2]].
    destruct (Hexit s2 W2 F2 C2) as [s3 [X Rest]].
    rewrite X in H. eapply (K s2 ob2 e2 s3); eauto.
Qed.

(* nested induction principle for operations *)
Section OpInd.
  Variable P : op -> Prop.
  Hypothesis Hdecl : forall n d df, P (ODeclare n d df).
  Hypothesis Hundecl : forall n, P (OUndeclare n).
  Hypothesis Hset : forall n v, P (OSet n v).
  Hypothesis Hget : forall n, P (OGet n).
  Hypothesis Hupd : forall kw, P (OUpdate kw).
  Hypothesis Htemp : forall kw body, Forall P body -> P (OTemp kw body).
  Hypothesis Htry : forall body, Forall P body -> P (OTry body).
  Hypothesis Hraise : P ORaise.

  Fixpoint op_ind' (o : op) : P o :=
    match o with
    | ODeclare n d df => Hdecl n d df
    | OUndeclare n => Hundecl n
    | OSet n v => Hset n v
    | OGet n => Hget n
    | OUpdate kw => Hupd kw
    | OTemp kw body =>
        Htemp kw body ((fix go (l : list op) : Forall P l :=
                          match l with
                          | [] => Forall_nil P
                          | x :: r => Forall_cons x (op_ind' x) (go r)
                          end) body)
    | OTry body =>
        Htry body ((fix go (l : list op) : Forall P l :=
                      match l with
                      | [] => Forall_nil P
                      | x :: r => Forall_cons x (op_ind' x) (go r)
                      end) body)
    | ORaise => Hraise
    end.
End OpInd.

Lemma run_list_pres : forall c body,
  Forall (fun o => decl_free_op o = true -> pres c (run_op c o)) body ->
  decl_free body = true -> pres c (run_list (run_op c) body).
Proof.
  intros c body HF. induction HF as [|o r Ho HF IH]; intros Hd s s' ob e W H.
  - simpl in H. inversion H; subst. split; auto. split; [apply frame_refl | reflexivity].
  - unfold decl_free in Hd. simpl in Hd. apply andb_true_iff in Hd. destruct Hd as [Hd1 Hd2].
    simpl in H.
    destruct (run_op c o s) as [[s1 ob1] e1] eqn:E1.
    destruct (Ho Hd1 _ _ _ _ W E1) as [W1 [F1 C1]].
    destruct e1 as [ee|].
    + inversion H; subst. auto.
    + destruct (run_list (run_op c) r s1) as [[s2 ob2] e2] eqn:E2.
      destruct (IH Hd2 _ _ _ _ W1 E2) as [W2 [F2 C2]].
      inversion H; subst. split; auto. split; [eapply frame_trans; eauto | congruence].
Qed.

Lemma run_op_pres : forall c, c_temp_finally c = true ->
  forall o, decl_free_op o = true -> pres c (run_op c o).
Proof.
  intros c Hc. induction o using op_ind'; intros Hd s s' ob e W HR; simpl in Hd; try discriminate.
  - (* set *)
    simpl in HR. destruct (set_item c s n v) as [e0|s1] eqn:E.
    + apply finish_state in HR. subst. split; auto. split; [apply frame_refl | reflexivity].
    + apply finish_state in HR. subst. destruct (set_pres _ _ _ _ _ W E) as [W1 [F1 [C1 _]]]. auto.
  - (* get *)
    simpl in HR. destruct (get_item s n).
    + apply finish_state in HR. subst. split; auto. split; [apply frame_refl | reflexivity].
    + inversion HR; subst. split; auto. split; [apply frame_refl | reflexivity].
  - (* update *)
    simpl in HR. destruct (update c s kw) as [s1 e1] eqn:E. simpl in HR.
    apply finish_state in HR. subst. eapply update_pres; eauto.
  - (* temporary *)
    assert (Hb : pres c (run_list (run_op c) body)) by (apply run_list_pres; auto).
    destruct (temp_core c kw body Hc Hb _ _ _ _ W HR) as [A [B [C _]]]. auto.
  - (* try *)
    assert (Hb : pres c (run_list (run_op c) body)) by (apply run_list_pres; auto).
    simpl in HR. destruct (run_list (run_op c) body s) as [[s1 ob1] e1] eqn:E.
    apply finish_state in HR. subst. eapply Hb; eauto.
  - (* raise *)
    simpl in HR. inversion HR; subst. split; auto. split; [apply frame_refl | reflexivity].
Qed.

Lemma body_pres : forall c body, c_temp_finally c = true -> decl_free body = true ->
  pres c (run_list (run_op c) body).
Proof.
  intros c body Hc Hd. apply run_list_pres; auto.
  apply Forall_forall. intros o _. apply run_op_pres; auto.
Qed.

(* THE theorem: for every state in which stored values are re-assignable, every keyword list, every
   declaration-free body (any operations, nested contexts, raises, caught raises), and however the
   statement is left (normally, by an exception of the body, by a failure while entering):
   every option named in the call reads afterwards as it read before, and the cache is as before. *)
Theorem temporary_restores : forall c kw body s s' ob e,
  c_temp_finally c = true -> wf c s -> decl_free body = true ->
  run_op c (OTemp kw body) s = (s', ob, e) ->
  (forall n, In n (map fst kw) -> get_item s' n = get_item s n) /\
  s_cache s' = s_cache s /\ wf c s' /\ frame_eq s s'.
Proof.
  intros c kw body s s' ob e Hc W Hd H.
  destruct (temp_core c kw body Hc (body_pres c body Hc Hd) _ _ _ _ W H) as [A [B [C D]]]. auto.
Qed.

(* ------------------------------------------------------------------ where well-formed states come from *)

Lemma wf_st0 : forall c ro, wf c (st0 ro).
Proof. intros. split; simpl; intros; discriminate. Qed.

(* a declaration whose default is accepted, and whose set_function (if any) is stable and fixes the
   default, keeps the state well-formed *)
Lemma declare_wf : forall c s n d dflt s',
  wf c s -> declare c s n d dflt = (s', None) ->
  sf_stable c (norm_decl d dflt) ->
  (forall v, dflt = Some v -> apply_sf (norm_decl d dflt) v = Some v) ->
  wf c s'.
Proof.
  intros c s n d dflt s' [W1 W2] H Hst Hfix. unfold declare in H.
  destruct (declare_conflict d); [discriminate|].
  assert (Hs' : s' = with_dict s (aupdate n (mkentry (norm_decl d dflt) dflt) (s_dict s)) /\
                (forall v, dflt = Some v -> assert_valid c (norm_decl d dflt) v = None)).
  { destruct dflt as [v|]; inversion H; subst; split; auto; intros v0 Hv0; inversion Hv0; subst; auto. }
  destruct Hs' as [Hs' Hval]. subst s'. split; [|exact W2].
  intros m e Hm. simpl in Hm. rewrite alookup_aupdate in Hm.
  destruct (String.eqb n m).
  - inversion Hm; subst; simpl. split; auto. intros v Hv. split; auto.
  - eapply W1; eauto.
Qed.

(* ------------------------------------------------------------------ the code as found is refuted *)

Definition d_int : decl := mkdecl None (Some (TyOne TInt)) None None false None None None.
Definition s_ab : st :=
  fst (declare cfg_found (fst (declare cfg_found (st0 false) "a" d_int (Some (PInt 1)))) "b" d_int (Some (PInt 2))).

Lemma alookup_in : forall A t (l : list (name * A)) e, alookup t l = Some e -> In e (map snd l).
Proof.
  induction l as [|[k x] r IH]; simpl; intros e H; [discriminate|].
  destruct (String.eqb k t); [inversion H; auto | right; auto].
Qed.

Lemma s_ab_dict : s_dict s_ab = [("a", mkentry d_int (Some (PInt 1))); ("b", mkentry d_int (Some (PInt 2)))].
Proof. reflexivity. Qed.

Lemma s_ab_wf : forall c, wf c s_ab.
Proof.
  intros c. split.
  - intros t e H. rewrite s_ab_dict in H. apply alookup_in in H.
    destruct H as [H | [H | []]]; subst e;
      (split; [intros v w Hv Hw; inversion Hw; subst; split; auto
              | intros v Hv; inversion Hv; subst; split; reflexivity]).
  - intros n l H. discriminate.
Qed.

(* exception in the body: with o.temporary(a=5): raise  ->  a == 5 afterwards, cache not empty *)
Theorem temporary_found_refuted_exception :
  exists s kw body s' ob e,
    wf cfg_found s /\ decl_free body = true /\ run_op cfg_found (OTemp kw body) s = (s', ob, e) /\
    (exists n, In n (map fst kw) /\ get_item s' n <> get_item s n) /\ s_cache s' <> s_cache s.
Proof.
  exists s_ab, [("a", PInt 5)], [ORaise]. eexists. eexists. eexists.
  split; [apply s_ab_wf|]. split; [reflexivity|]. split; [vm_compute; reflexivity|].
  split; [exists "a"; split; [left; reflexivity | vm_compute; discriminate] | vm_compute; discriminate].
Qed.

(* failure while entering after a partial update: with o.temporary(b=7, a='bad')  ->  b == 7 afterwards *)
Theorem temporary_found_refuted_entry :
  exists s kw body s' ob e,
    wf cfg_found s /\ decl_free body = true /\ run_op cfg_found (OTemp kw body) s = (s', ob, e) /\
    (exists n, In n (map fst kw) /\ get_item s' n <> get_item s n).
Proof.
  exists s_ab, [("b", PInt 7); ("a", PStr "bad")], []. eexists. eexists. eexists.
  split; [apply s_ab_wf|]. split; [reflexivity|]. split; [vm_compute; reflexivity|].
  exists "b"; split; [left; reflexivity | vm_compute; discriminate].
Qed.

(* non-vacuity of temporary_restores: the same two scenarios on the repaired code *)
Example temporary_fixed_example :
  let r1 := run_op cfg_fixed (OTemp [("a", PInt 5)] [ORaise]) s_ab in
  let r2 := run_op cfg_fixed (OTemp [("b", PInt 7); ("a", PStr "bad")] []) s_ab in
  get_item (fst (fst r1)) "a" = inr (PInt 1) /\ snd r1 = Some EBoom /\
  get_item (fst (fst r2)) "b" = inr (PInt 2) /\ s_cache (fst (fst r2)) = [].
Proof. vm_compute. repeat split; reflexivity. Qed.

(* ------------------------------------------------------------------ the deprecation-alias path *)

(* temporary_restores is stated through get_item, i.e. through _handle_deprecation: it covers a call that
   names a deprecated option forwarding to another one.  Non-vacuity on that path: a well-formed state with
   a deprecated alias, the theorem's premises, and what it yields. *)
Definition d_dep (a : name) : decl := mkdecl None None None None false None None (Some (Some a)).
Definition s_alias : st :=
  fst (declare cfg_fixed (fst (declare cfg_fixed (st0 false) "a" d_int (Some (PInt 1)))) "old" (d_dep "a") None).

Lemma s_alias_wf : forall c, wf c s_alias.
Proof.
  intros c. split.
  - intros t e H.
    assert (E : s_dict s_alias = [("a", mkentry d_int (Some (PInt 1))); ("old", mkentry (d_dep "a") None)]) by reflexivity.
    rewrite E in H. apply alookup_in in H.
    destruct H as [H | [H | []]]; subst e;
      (split; [intros v w Hv Hw; inversion Hw; subst; split; auto
              | intros v Hv; inversion Hv; subst; split; reflexivity]).
  - intros n l H. discriminate.
Qed.

Example temporary_alias_example :
  let body := [OSet "a" (PInt 9); OTemp [("a", PInt 7)] [ORaise]] in
  let r := run_op cfg_fixed (OTemp [("old", PInt 5)] body) s_alias in
  wf cfg_fixed s_alias /\ decl_free body = true /\
  get_item s_alias "old" = inr (PInt 1) /\
  get_item (fst (fst r)) "old" = inr (PInt 1) /\ get_item (fst (fst r)) "a" = inr (PInt 1) /\
  s_cache (fst (fst r)) = [] /\ snd r = Some EBoom.
Proof.
  split; [apply s_alias_wf|]. vm_compute. repeat split; reflexivity.
Qed.

(* the same through the theorem: whatever the body, the deprecated name reads as before *)
Corollary temporary_restores_alias : forall body v s' ob e,
  decl_free body = true ->
  run_op cfg_fixed (OTemp [("old", v)] body) s_alias = (s', ob, e) ->
  get_item s' "old" = inr (PInt 1) /\ get_item s' "a" = inr (PInt 1).
Proof.
  intros body v s' ob e Hd H.
  destruct (temporary_restores cfg_fixed [("old", v)] body s_alias s' ob e eq_refl (s_alias_wf _) Hd H)
    as [R [_ [_ F]]].
  split.
  - rewrite (R "old" (or_introl eq_refl)). reflexivity.
  - assert (K : get_item s' "a" = get_item s' "old").
    { unfold get_item.
      pose proof (frame_resolve s_alias s' "old" F) as Ro. pose proof (frame_resolve s_alias s' "a" F) as Ra.
      change (resolve (s_dict s_alias) "old") with (@inr err _ ("a", mkentry d_int (Some (PInt 1)))) in Ro.
      change (resolve (s_dict s_alias) "a") with (@inr err _ ("a", mkentry d_int (Some (PInt 1)))) in Ra.
      destruct (resolve (s_dict s') "old") as [?|[t1 e1]] eqn:E1; [contradiction|].
      destruct (resolve (s_dict s') "a") as [?|[t2 e2]] eqn:E2; [contradiction|].
      destruct Ro as [Ro _]. destruct Ra as [Ra _]. subst t1 t2.
      apply resolve_lookup in E1. apply resolve_lookup in E2. rewrite E1 in E2. inversion E2; subst. reflexivity. }
    rewrite K, (R "old" (or_introl eq_refl)). reflexivity.
Qed.
