(* C26 — proofs: declared partials of the stock components are the derivatives of their formulas. *)
From Coq Require Import Reals ZArith QArith Qabs Qreals List Bool Lia Lra.
From Coquelicot Require Import Coquelicot.
From OMV Require Import Expr.Expr Expr.ExprProofs C26.Model.
Import ListNotations.
Open Scope R_scope.

(* a pair of [jac_goals]: if the simplified symbolic derivative and the simplified declared entry denote the
   same real number at rho, the declared entry IS the partial derivative of the output formula there *)
Lemma pair_sound : forall (e d : expr) (rho : env) (c : nat),
  smooth rho e -> evalR rho (simp (D c e)) = evalR rho (simp d) ->
  is_derive (fun t => evalR (upd rho c t) e) (rho c) (evalR rho d).
Proof.
  intros e d rho c Hs H. rewrite !simp_correct in H. rewrite <- H. apply D_correct, Hs.
Qed.

(* generated per-instance goals:  Forall (fun p => evalR rho (fst p) = evalR rho (snd p)) (jac_goals I n) *)
Ltac inst_goals :=
  match goal with
  | |- List.Forall _ ?l => let l' := eval vm_compute in l in change l with l'
  end;
  repeat (apply List.Forall_cons;
          [ cbn [fst snd evalR e_sum]; unfold Q2R; cbn [Qnum Qden]; try reflexivity; field | ]);
  apply List.Forall_nil.

(* ------------------------------------------------------------------ EQConstraintComp / BalanceComp
   The element formula (mult*lhs - rhs) * scale(rhs) and the three declared partials of the code, for ALL real
   lhs, rhs, mult: variables 0, 1, 2.  Elementwise components: this covers every shape. *)

Lemma is_derive_eq (f : R -> R) (x l l' : R) : is_derive f x l -> l = l' -> is_derive f x l'.
Proof. intros H E. rewrite <- E. exact H. Qed.

Lemma quarter_pos (r : R) : 1 / 4 * (r * r) + 1 <> 0.
Proof. nra. Qed.

Definition elem (normalize use_mult small : bool) :=
  eq_elem normalize use_mult small (EVar 0) (EVar 1) (EVar 2).

Lemma elem_smooth : forall normalize use_mult small rho,
  (normalize = true -> small = false -> rho 1%nat <> 0) ->
  smooth rho (fst (elem normalize use_mult small)).
Proof.
  intros [|] [|] [|] rho H; cbn; repeat split; auto; try (left; lia);
    try (unfold Q2R; cbn [Qnum Qden]; change (Pos.to_nat 2) with 2%nat; cbn [pow]; nra);
    try (apply H; reflexivity); try (apply Rabs_no_R0, H; reflexivity).
Qed.

Theorem eq_elem_partials_correct : forall normalize use_mult small rho,
  (normalize = true -> small = false -> rho 1%nat <> 0) ->
  let out := fst (elem normalize use_mult small) in
  let d := snd (elem normalize use_mult small) in
  is_derive (fun t => evalR (upd rho 0 t) out) (rho 0%nat) (evalR rho (fst (fst d))) /\
  is_derive (fun t => evalR (upd rho 1 t) out) (rho 1%nat) (evalR rho (snd (fst d))) /\
  (use_mult = true -> is_derive (fun t => evalR (upd rho 2 t) out) (rho 2%nat) (evalR rho (snd d))).
Proof.
  intros normalize use_mult small rho H out d.
  pose proof (elem_smooth normalize use_mult small rho H) as S.
  assert (Q : 1 / 4 * (rho 1%nat * rho 1%nat) + 1 <> 0) by apply quarter_pos.
  split; [|split; [|intro Hm]]; eapply is_derive_eq; try (apply D_correct; exact S);
    subst out d; unfold elem, eq_elem, scale_e, dscale_e, e_sign, cq;
    destruct normalize, use_mult, small; try (exfalso; discriminate Hm);
    cbn [fst snd D evalR Nat.eqb Z.eqb Z.sub e_Z Z.pred powerRZ Pos.to_nat Pos.iter_op Init.Nat.add pow];
    unfold Q2R; cbn [Qnum Qden inject_Z Z.sub Z.add Z.opp Pos.pred_double];
    change (Pos.to_nat 2) with 2%nat; change (Z.pos_sub 2 1) with 1%Z;
    cbn [powerRZ pow Pos.to_nat Pos.iter_op Init.Nat.add];
    change (Pos.to_nat 1) with 1%nat; cbn [pow];
    try (assert (R1 : rho 1%nat <> 0) by (apply H; reflexivity);
         assert (A1 : Rabs (rho 1%nat) <> 0) by (apply Rabs_no_R0, R1);
         assert (AA : Rabs (rho 1%nat) * Rabs (rho 1%nat) = rho 1%nat * rho 1%nat)
           by (symmetry; apply (Rsqr_abs (rho 1%nat)));
         rewrite ?AA);
    field; repeat split; try assumption; try nra.
Qed.

(* ------------------------------------------------------------------ dot products of variable blocks, any length
   (DotProduct rows, MatrixVectorProduct rows, LinearSystem residual rows, VectorMagnitude radicand) *)

Lemma evars_S : forall off n, evars off (S n) = EVar off :: evars (S off) n.
Proof.
  intros off n. unfold evars. cbn [seq map]. rewrite Nat.add_0_r. f_equal.
  rewrite <- seq_shift, map_map. apply map_ext. intros k. rewrite Nat.add_succ_r. reflexivity.
Qed.

Definition ind (a b : nat) : R := if Nat.eqb a b then 1 else 0.

(* sum_k [o1+k = x] * rho(o2+k) + rho(o1+k) * [o2+k = x] *)
Fixpoint dsum (n o1 o2 : nat) (rho : env) (x : nat) : R :=
  match n with
  | O => 0
  | S m => (ind o1 x * rho o2 + rho o1 * ind o2 x) + dsum m (S o1) (S o2) rho x
  end.

Lemma edot_D : forall n o1 o2 rho x,
  evalR rho (D x (e_dot (evars o1 n) (evars o2 n))) = dsum n o1 o2 rho x.
Proof.
  induction n as [|n IH]; intros o1 o2 rho x.
  - cbn. unfold Q2R. cbn. field.
  - rewrite !evars_S. cbn [e_dot D evalR dsum]. rewrite IH. unfold ind.
    destruct (Nat.eqb o1 x), (Nat.eqb o2 x); cbn [evalR]; unfold Q2R; cbn [Qnum Qden]; field.
Qed.

(* the partial of a row  a . b  with respect to the j-th entry of the a block is the j-th entry of the b
   block, when x is not in the b block and the blocks have any common length n *)
Lemma dsum_left : forall n o1 o2 rho j,
  (j < n)%nat -> (forall k, (k < n)%nat -> o2 + k <> o1 + j)%nat ->
  dsum n o1 o2 rho (o1 + j) = rho (o2 + j)%nat.
Proof.
  induction n as [|n IH]; intros o1 o2 rho j Hj Hd; [lia|].
  cbn [dsum]. unfold ind.
  assert (E2 : Nat.eqb o2 (o1 + j) = false).
  { apply Nat.eqb_neq. specialize (Hd 0%nat). rewrite Nat.add_0_r in Hd. apply Hd. lia. }
  rewrite E2. destruct j as [|j].
  - rewrite !Nat.add_0_r, Nat.eqb_refl.
    assert (Z : forall m a b, (forall k, (k < m)%nat -> b + k <> o1)%nat -> (o1 < a)%nat -> dsum m a b rho o1 = 0).
    { induction m as [|m IHm]; intros a b Hb Ha; [reflexivity|]. cbn [dsum]. unfold ind.
      replace (Nat.eqb a o1) with false by (symmetry; apply Nat.eqb_neq; lia).
      replace (Nat.eqb b o1) with false
        by (symmetry; apply Nat.eqb_neq; specialize (Hb 0%nat); rewrite Nat.add_0_r in Hb; apply Hb; lia).
      rewrite IHm; [ring| |lia]. intros k Hk. specialize (Hb (S k)). rewrite Nat.add_succ_r in Hb.
      rewrite Nat.add_succ_l. apply Hb. lia. }
    rewrite Z; [ring| |lia].
    intros k Hk. specialize (Hd (S k)). rewrite Nat.add_succ_r, Nat.add_0_r in Hd.
    rewrite Nat.add_succ_l. apply Hd. lia.
  - replace (Nat.eqb o1 (o1 + S j)) with false by (symmetry; apply Nat.eqb_neq; lia).
    replace (o1 + S j)%nat with (S o1 + j)%nat by lia.
    rewrite IH; [replace (S o2 + j)%nat with (o2 + S j)%nat by lia; ring|lia|].
    intros k Hk. specialize (Hd (S k)). replace (S o2 + k)%nat with (o2 + S k)%nat by lia.
    replace (S o1 + j)%nat with (o1 + S j)%nat by lia. apply Hd. lia.
Qed.

Theorem dot_row_partial : forall n o1 o2 rho j,
  (j < n)%nat -> (forall k, (k < n)%nat -> o2 + k <> o1 + j)%nat ->
  is_derive (fun t => evalR (upd rho (o1 + j) t) (e_dot (evars o1 n) (evars o2 n)))
            (rho (o1 + j)%nat) (rho (o2 + j)%nat).
Proof.
  intros n o1 o2 rho j Hj Hd.
  eapply is_derive_eq; [apply D_correct|rewrite edot_D; apply dsum_left; assumption].
  (* polynomial: smooth everywhere *)
  clear. generalize o1 o2. induction n as [|n IH]; intros a b; [exact I|].
  rewrite !evars_S. cbn [e_dot smooth]. repeat split; auto.
Qed.
