(* C26 — proofs: declared partials of the stock components are the derivatives of their formulas. *)
From Coq Require Import Reals ZArith QArith Qabs Qreals List Bool Lia Lra.
From Coquelicot Require Import Coquelicot.
From OMV Require Import Expr.Expr Expr.ExprProofs C26.Model.
Import ListNotations.
Open Scope R_scope.

(* a pair of [jac_goals]: if the simplified symbolic derivative and the simplified declared entry denote the
   same real number at rho, the declared entry IS the partial derivative of the output formula there *)
Lemma pair_sound : forall (e d : expr) (rho : env) (c : nat),
  smooth rho e -> evalR rho (simp (D c e)) = evalR rho (simp d) ->
  is_derive (fun t => evalR (upd rho c t) e) (rho c) (evalR rho d).
Proof.
  intros e d rho c Hs H. rewrite !simp_correct in H. rewrite <- H. apply D_correct, Hs.
Qed.

(* generated per-instance goals:  Forall (fun p => evalR rho (fst p) = evalR rho (snd p)) (jac_goals I n) *)
Ltac inst_goals :=
  match goal with
  | |- List.Forall _ ?l => let l' := eval vm_compute in l in change l with l'
  end;
  repeat (apply List.Forall_cons;
          [ cbn [fst snd evalR e_sum]; unfold Q2R; cbn [Qnum Qden]; try reflexivity; field | ]);
  apply List.Forall_nil.
