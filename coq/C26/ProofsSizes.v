(* C26 — all-size theorems: VectorMagnitude's partial, and "declared rows/cols/values = exact jacobian" for
   DotProductComp for every vec_size and length (induction over the sizes, no instance enumeration). *)
From Coq Require Import Reals ZArith QArith Qabs Qreals List Bool Lia Lra.
From Coquelicot Require Import Coquelicot.
From OMV Require Import Base.Tactics Expr.Expr Expr.ExprProofs C26.Model C26.Proofs.
Import ListNotations.
Open Scope R_scope.

(* ------------------------------------------------------------------ dot products of variable blocks *)

Lemma edot_smooth : forall n a b rho, smooth rho (e_dot (evars a n) (evars b n)).
Proof.
  induction n as [|n IH]; intros a b rho; [exact I|].
  rewrite !evars_S. cbn [e_dot smooth]. repeat split; auto.
Qed.

(* sum_k [o1+k = c] * rho(o2+k) *)
Fixpoint hsum (n o1 o2 : nat) (rho : env) (c : nat) : R :=
  match n with
  | O => 0
  | S m => ind o1 c * rho o2 + hsum m (S o1) (S o2) rho c
  end.

Lemma dsum_split : forall n o1 o2 rho c, dsum n o1 o2 rho c = hsum n o1 o2 rho c + hsum n o2 o1 rho c.
Proof.
  induction n as [|n IH]; intros; cbn [dsum hsum]; [ring|]. rewrite IH. ring.
Qed.

Lemma rho_eq (rho : env) (a b : nat) : a = b -> rho a = rho b.
Proof. intros ->. reflexivity. Qed.

Lemma hsum_eval : forall n o1 o2 rho c,
  hsum n o1 o2 rho c = if ((o1 <=? c) && (c <? o1 + n))%nat%bool then rho (o2 + (c - o1))%nat else 0.
Proof.
  induction n as [|n IH]; intros o1 o2 rho c; cbn [hsum].
  - replace ((o1 <=? c) && (c <? o1 + 0))%nat%bool with false by lia. reflexivity.
  - rewrite IH. unfold ind. destruct (Nat.eqb_spec o1 c) as [E|E].
    + subst c.
      replace ((S o1 <=? o1) && (o1 <? S o1 + n))%nat%bool with false by lia.
      replace ((o1 <=? o1) && (o1 <? o1 + S n))%nat%bool with true by lia.
      rewrite (rho_eq rho (o2 + (o1 - o1))%nat o2) by lia. ring.
    + destruct ((S o1 <=? c) && (c <? S o1 + n))%nat%bool eqn:B.
      * replace ((o1 <=? c) && (c <? o1 + S n))%nat%bool with true by lia.
        rewrite (rho_eq rho (S o2 + (c - S o1))%nat (o2 + (c - o1))%nat) by lia. ring.
      * replace ((o1 <=? c) && (c <? o1 + S n))%nat%bool with false by lia. ring.
Qed.

(* same block twice: the derivative of  a . a  w.r.t. a_j is 2 a_j *)
Lemma dsum_same : forall n o rho j, (j < n)%nat -> dsum n o o rho (o + j) = 2 * rho (o + j)%nat.
Proof.
  intros n o rho j Hj. rewrite dsum_split, hsum_eval.
  replace ((o <=? o + j) && (o + j <? o + n))%nat%bool with true by lia.
  rewrite (rho_eq rho (o + (o + j - o))%nat (o + j)%nat) by lia. ring.
Qed.

(* ------------------------------------------------------------------ VectorMagnitudeComp, any length *)

Theorem vmag_partial : forall len o rho j,
  (j < len)%nat ->
  0 < evalR rho (e_dot (evars o len) (evars o len)) ->
  is_derive (fun t => evalR (upd rho (o + j) t) (ESqrt (e_dot (evars o len) (evars o len))))
            (rho (o + j)%nat)
            (rho (o + j)%nat / sqrt (evalR rho (e_dot (evars o len) (evars o len)))).
Proof.
  intros len o rho j Hj Hpos.
  eapply is_derive_eq.
  - apply D_correct. cbn [smooth]. split; [apply edot_smooth|exact Hpos].
  - cbn [D evalR]. rewrite edot_D, dsum_same by exact Hj.
    unfold Q2R. cbn [Qnum Qden].
    assert (S0 : sqrt (evalR rho (e_dot (evars o len) (evars o len))) <> 0)
      by (apply Rgt_not_eq, sqrt_lt_R0, Hpos).
    field. exact S0.
Qed.

(* the declared entry of the model of VectorMagnitudeComp IS that value, for every vec_size / length *)
Lemma vmag_declared_value : forall len k j rho, (j < len)%nat ->
  evalR rho (EDiv (EVar (k * len + j)) (ESqrt (e_dot (evars (k * len) len) (evars (k * len) len))))
  = rho (k * len + j)%nat / sqrt (evalR rho (e_dot (evars (k * len) len) (evars (k * len) len))).
Proof. reflexivity. Qed.

(* ------------------------------------------------------------------ dense value of a declared pattern *)

Definition hit (t : (nat * nat) * expr) (r c : nat) : bool :=
  (Nat.eqb (fst (fst t)) r && Nat.eqb (snd (fst t)) c)%bool.

Fixpoint dense_val (rho : env) (j : list ((nat * nat) * expr)) (r c : nat) : R :=
  match j with
  | [] => 0
  | t :: j' => (if hit t r c then evalR rho (snd t) else 0) + dense_val rho j' r c
  end.

Lemma esum_eval : forall rho l, evalR rho (e_sum l) = fold_right (fun e acc => evalR rho e + acc) 0 l.
Proof.
  induction l as [|e l IH]; cbn [e_sum evalR fold_right]; [unfold Q2R; cbn; field|]. rewrite IH. reflexivity.
Qed.

(* the symbolic dense entry used by the generated goals and the executable check denotes [dense_val] *)
Lemma decl_entry_eval : forall rho j r c, evalR rho (decl_entry j r c) = dense_val rho j r c.
Proof.
  intros rho j r c. unfold decl_entry. rewrite esum_eval.
  induction j as [|t j IH]; cbn [filter map fold_right dense_val]; [reflexivity|].
  fold (hit t r c). destruct (hit t r c); cbn [map fold_right]; rewrite IH; ring.
Qed.

Lemma dense_val_app : forall rho a b r c, dense_val rho (a ++ b) r c = dense_val rho a r c + dense_val rho b r c.
Proof.
  induction a as [|t a IH]; intros; cbn [app dense_val]; [ring|]. rewrite IH. ring.
Qed.

(* a pattern generated by  map f (seq 0 n)  whose (row, col) key is hit by at most the index k0 *)
Lemma dense_val_map_seq : forall rho (f : nat -> (nat * nat) * expr) n r c k0,
  (forall k, (k < n)%nat -> hit (f k) r c = true -> k = k0) ->
  dense_val rho (map f (seq 0 n)) r c
  = if ((k0 <? n)%nat && hit (f k0) r c)%bool then evalR rho (snd (f k0)) else 0.
Proof.
  intros rho f n r c k0. induction n as [|n IH]; intros U.
  - cbn. reflexivity.
  - rewrite seq_S, map_app, dense_val_app, IH by (intros k Hk; apply U; lia).
    cbn [map dense_val Nat.add].
    destruct (hit (f n) r c) eqn:Hn.
    + assert (n = k0) by (apply U; [lia|exact Hn]). subst k0.
      replace (n <? n)%nat with false by lia. replace (n <? S n)%nat with true by lia.
      cbn [andb]. rewrite Hn. ring.
    + destruct (Nat.eq_dec k0 n) as [->|Ne].
      * replace (n <? n)%nat with false by lia. replace (n <? S n)%nat with true by lia.
        cbn [andb]. rewrite Hn. ring.
      * replace (k0 <? S n)%nat with (k0 <? n)%nat by lia. ring.
Qed.

(* ------------------------------------------------------------------ DotProductComp, every vec_size and length *)

Lemma nth_map_seq : forall {A} (F : nat -> A) n r d, (r < n)%nat -> nth r (map F (seq 0 n)) d = F r.
Proof.
  intros A F n r d H. rewrite (nth_indep _ d (F 0%nat)) by (rewrite map_length, seq_length; exact H).
  rewrite map_nth, seq_nth by exact H. reflexivity.
Qed.

Theorem dotp_partials_all_sizes : forall vs len rho r c,
  (0 < len)%nat -> (r < vs)%nat ->
  is_derive (fun t => evalR (upd rho c t) (nth r (outs (dotp vs len)) (ECst 0))) (rho c)
            (evalR rho (decl_entry (jac (dotp vs len)) r c)).
Proof.
  intros vs len rho r c Hlen Hr.
  unfold dotp. cbn [outs jac].
  rewrite nth_map_seq by exact Hr.
  eapply is_derive_eq; [apply D_correct, edot_smooth|].
  rewrite edot_D, dsum_split, !hsum_eval, decl_entry_eval, dense_val_app.
  set (n := (vs * len)%nat).
  rewrite (dense_val_map_seq rho (fun k => ((k / len, k), EVar (n + k)))%nat n r c c)
    by (intros k _ H; unfold hit in H; cbn [fst snd] in H; lia).
  rewrite (dense_val_map_seq rho (fun k => ((k / len, n + k), EVar k))%nat n r c (c - n)%nat)
    by (intros k _ H; unfold hit in H; cbn [fst snd] in H; lia).
  unfold hit. cbn [fst snd evalR].
  assert (Hn : (r * len + len <= n)%nat) by (unfold n; nia).
  (* block of a: [r*len, r*len+len) ; block of b: [n + r*len, n + r*len + len) *)
  destruct ((r * len <=? c) && (c <? r * len + len))%nat%bool eqn:A.
  - assert (Hd : (c / len = r)%nat) by (symmetry; apply Nat.div_unique with (c - r * len)%nat; lia).
    replace ((c <? n) && ((c / len =? r) && (c =? c)))%nat%bool with true by (rewrite Hd; lia).
    replace ((n + r * len <=? c) && (c <? n + r * len + len))%nat%bool with false by lia.
    replace ((c - n <? n) && (((c - n) / len =? r) && (n + (c - n) =? c)))%nat%bool with false by lia.
    rewrite (rho_eq rho (n + r * len + (c - r * len))%nat (n + c)%nat) by lia. ring.
  - replace ((c <? n) && ((c / len =? r) && (c =? c)))%nat%bool with false.
    2:{ symmetry. apply andb_false_iff. destruct (Nat.ltb_spec c n) as [Hc|Hc]; [right|left; reflexivity].
        apply andb_false_iff. left. apply Nat.eqb_neq. intro Hd.
        assert (len * (c / len) <= c < len * (c / len) + len)%nat.
        { pose proof (Nat.div_mod c len ltac:(lia)). pose proof (Nat.mod_upper_bound c len ltac:(lia)). lia. }
        rewrite Hd in H. lia. }
    destruct ((n + r * len <=? c) && (c <? n + r * len + len))%nat%bool eqn:B.
    + assert (Hd : ((c - n) / len = r)%nat) by (symmetry; apply Nat.div_unique with (c - n - r * len)%nat; lia).
      replace ((c - n <? n) && (((c - n) / len =? r) && (n + (c - n) =? c)))%nat%bool with true by (rewrite Hd; lia).
      rewrite (rho_eq rho (r * len + (c - (n + r * len)))%nat (c - n)%nat) by lia. ring.
    + replace ((c - n <? n) && (((c - n) / len =? r) && (n + (c - n) =? c)))%nat%bool with false; [ring|].
      symmetry. apply andb_false_iff. destruct (Nat.ltb_spec (c - n) n) as [Hc|Hc]; [right|left; reflexivity].
      apply andb_false_iff. destruct (Nat.eqb_spec (n + (c - n)) c) as [Hcc|Hcc]; [left|right; reflexivity].
      apply Nat.eqb_neq. intro Hd.
      assert (len * ((c - n) / len) <= c - n < len * ((c - n) / len) + len)%nat.
      { pose proof (Nat.div_mod (c - n) len ltac:(lia)). pose proof (Nat.mod_upper_bound (c - n) len ltac:(lia)). lia. }
      rewrite Hd in H. lia.
Qed.

(* ------------------------------------------------------------------ MatrixVectorProductComp, every vec_size / A_shape *)

Lemma div_block : forall c len r, (0 < len)%nat -> ((c / len = r) <-> (r * len <= c < r * len + len))%nat.
Proof.
  intros c len r H. pose proof (Nat.div_mod c len ltac:(lia)). pose proof (Nat.mod_upper_bound c len ltac:(lia)).
  split.
  - intros <-. lia.
  - intros Hb. symmetry. apply Nat.div_unique with (c - r * len)%nat; lia.
Qed.

Lemma mod_block : forall c len r, (0 < len)%nat -> (r * len <= c < r * len + len)%nat -> (c mod len = c - r * len)%nat.
Proof.
  intros c len r H Hb. symmetry. apply Nat.mod_unique with r; lia.
Qed.

Theorem matvec_partials_all_sizes : forall vs nr nc rho r c,
  (0 < nr)%nat -> (0 < nc)%nat -> (r < vs * nr)%nat ->
  is_derive (fun t => evalR (upd rho c t) (nth r (outs (matvec vs nr nc)) (ECst 0))) (rho c)
            (evalR rho (decl_entry (jac (matvec vs nr nc)) r c)).
Proof.
  intros vs nr nc rho r c Hnr Hnc Hr.
  unfold matvec. cbn [outs jac].
  rewrite nth_map_seq by exact Hr.
  eapply is_derive_eq; [apply D_correct, edot_smooth|].
  rewrite edot_D, dsum_split, !hsum_eval, decl_entry_eval, dense_val_app.
  set (N := (vs * nr * nc)%nat).
  set (b := (r / nr)%nat).
  assert (Hb : (b < vs)%nat) by (unfold b; apply Nat.div_lt_upper_bound; lia).
  assert (HrN : (r * nc + nc <= N)%nat) by (unfold N; nia).
  assert (HbN : (b * nc + nc <= vs * nc)%nat) by nia.
  (* list 1: d b / d A, index t = c *)
  rewrite (dense_val_map_seq rho
             (fun t => ((t / nc, t / nc * nc + t mod nc), EVar (N + t / nc / nr * nc + t mod nc)))%nat N r c c).
  2:{ intros k _ H. unfold hit in H. cbn [fst snd] in H.
      pose proof (Nat.div_mod k nc ltac:(lia)). lia. }
  (* list 2: d b / d x, index t = r*nc + (c - N - b*nc) *)
  rewrite (dense_val_map_seq rho
             (fun t => ((t / nc, N + t / nc / nr * nc + t mod nc), EVar t))%nat N r c (r * nc + (c - N - b * nc))%nat).
  2:{ intros k _ H. unfold hit in H. cbn [fst snd] in H.
      pose proof (Nat.div_mod k nc ltac:(lia)).
      assert (E1 : (k / nc = r)%nat) by lia. rewrite E1 in *. fold b in H. lia. }
  unfold hit. cbn [fst snd evalR].
  pose proof (Nat.div_mod c nc ltac:(lia)) as Dc. pose proof (Nat.mod_upper_bound c nc ltac:(lia)) as Mc.
  pose proof (div_block c nc r Hnc) as Bc.
  destruct ((r * nc <=? c) && (c <? r * nc + nc))%nat%bool eqn:A.
  - (* c is an entry of row r of A *)
    assert (Hd : (c / nc = r)%nat) by (apply Bc; lia).
    assert (Hm : (c mod nc = c - r * nc)%nat) by (apply mod_block; lia).
    replace ((c <? N) && ((c / nc =? r) && (c / nc * nc + c mod nc =? c)))%nat%bool with true
      by (rewrite Hd, Hm; lia).
    rewrite Hd, Hm. fold b.
    replace ((N + b * nc <=? c) && (c <? N + b * nc + nc))%nat%bool with false by lia.
    set (k0 := (r * nc + (c - N - b * nc))%nat).
    replace ((k0 <? N) && ((k0 / nc =? r) && (N + k0 / nc / nr * nc + k0 mod nc =? c)))%nat%bool with false.
    2:{ symmetry. apply andb_false_iff. right. apply andb_false_iff.
        destruct (Nat.eqb_spec (k0 / nc) r) as [E|E]; [right|left; reflexivity].
        rewrite E. fold b. apply Nat.eqb_neq. lia. }
    ring.
  - replace ((c <? N) && ((c / nc =? r) && (c / nc * nc + c mod nc =? c)))%nat%bool with false.
    2:{ symmetry. apply andb_false_iff. right. apply andb_false_iff. left. apply Nat.eqb_neq.
        intro Hd. apply Bc in Hd. lia. }
    set (k0 := (r * nc + (c - N - b * nc))%nat).
    destruct ((N + b * nc <=? c) && (c <? N + b * nc + nc))%nat%bool eqn:B.
    + assert (Hk : (r * nc <= k0 < r * nc + nc)%nat) by (unfold k0; lia).
      assert (Hd : (k0 / nc = r)%nat) by (apply div_block; lia).
      assert (Hm : (k0 mod nc = k0 - r * nc)%nat) by (apply mod_block; lia).
      replace ((k0 <? N) && ((k0 / nc =? r) && (N + k0 / nc / nr * nc + k0 mod nc =? c)))%nat%bool with true
        by (rewrite Hd, Hm; fold b; unfold k0; lia).
      rewrite (rho_eq rho (r * nc + (c - (N + b * nc)))%nat k0) by (unfold k0; lia). ring.
    + replace ((k0 <? N) && ((k0 / nc =? r) && (N + k0 / nc / nr * nc + k0 mod nc =? c)))%nat%bool with false;
        [ring|].
      symmetry. apply andb_false_iff. right. apply andb_false_iff.
      destruct (Nat.eqb_spec (k0 / nc) r) as [E|E]; [right|left; reflexivity].
      rewrite E. fold b. apply Nat.eqb_neq.
      pose proof (Nat.mod_upper_bound k0 nc ltac:(lia)). lia.
Qed.

(* ------------------------------------------------------------------ MuxComp, every vec_size / shape / axis *)

Lemma dense_val_flat_map_seq : forall rho (g : nat -> list ((nat * nat) * expr)) n r c i0,
  (forall i, (i < n)%nat -> i <> i0 -> dense_val rho (g i) r c = 0) ->
  dense_val rho (flat_map g (seq 0 n)) r c = if (i0 <? n)%nat then dense_val rho (g i0) r c else 0.
Proof.
  intros rho g n r c i0. induction n as [|n IH]; intros Z.
  - reflexivity.
  - rewrite seq_S, flat_map_app, dense_val_app, IH by (intros i Hi; apply Z; lia).
    cbn [flat_map Nat.add]. rewrite app_nil_r.
    destruct (Nat.eq_dec n i0) as [->|Ne].
    + replace (i0 <? i0)%nat with false by lia. replace (i0 <? S i0)%nat with true by lia. ring.
    + rewrite (Z n) by lia. replace (i0 <? S n)%nat with (i0 <? n)%nat by lia. ring.
Qed.

Lemma divmod_pack : forall a b c, (c < b)%nat -> ((a * b + c) / b = a /\ (a * b + c) mod b = c)%nat.
Proof.
  intros a b c H. split.
  - symmetry. apply Nat.div_unique with c; lia.
  - symmetry. apply Nat.mod_unique with a; lia.
Qed.

(* flat position of output element r in the concatenated inputs, and of input (i, j) in the output *)
Definition mux_src (vs pre post r : nat) : nat :=
  ((r / post) mod vs * (pre * post) + (r / post) / vs * post + r mod post)%nat.
Definition mux_dst (vs post i j : nat) : nat := (((j / post) * vs + i) * post + j mod post)%nat.

Lemma mux_src_dst : forall vs pre post r c,
  (r < vs * (pre * post))%nat -> (c < vs * (pre * post))%nat ->
  (mux_src vs pre post r = c <-> mux_dst vs post (c / (pre * post)) (c mod (pre * post)) = r).
Proof.
  intros vs pre post r c Hr Hc.
  assert (Hpost : (0 < post)%nat) by nia. assert (Hvs : (0 < vs)%nat) by nia. assert (Hpre : (0 < pre)%nat) by nia.
  set (isz := (pre * post)%nat) in *.
  (* digits of r *)
  pose proof (Nat.div_mod r post ltac:(lia)) as R1. pose proof (Nat.mod_upper_bound r post ltac:(lia)) as R2.
  set (t := (r / post)%nat) in *. set (jq := (r mod post)%nat) in *.
  pose proof (Nat.div_mod t vs ltac:(lia)) as T1. pose proof (Nat.mod_upper_bound t vs ltac:(lia)) as T2.
  set (jp := (t / vs)%nat) in *. set (i := (t mod vs)%nat) in *.
  assert (Ht : (t < vs * pre)%nat) by (unfold isz in Hr; nia).
  assert (Hjp : (jp < pre)%nat) by nia.
  assert (Hj : (jp * post + jq < isz)%nat) by (unfold isz; nia).
  unfold mux_src, mux_dst. fold isz t jq jp i.
  split.
  - intros <-.
    replace (i * isz + jp * post + jq)%nat with (i * isz + (jp * post + jq))%nat by lia.
    destruct (divmod_pack i isz (jp * post + jq) Hj) as [E1 E2]. rewrite E1, E2.
    destruct (divmod_pack jp post jq R2) as [E3 E4]. rewrite E3, E4. nia.
  - (* digits of c *)
    pose proof (Nat.div_mod c isz ltac:(lia)) as C1. pose proof (Nat.mod_upper_bound c isz ltac:(lia)) as C2.
    set (i' := (c / isz)%nat) in *. set (j' := (c mod isz)%nat) in *.
    pose proof (Nat.div_mod j' post ltac:(lia)) as J1. pose proof (Nat.mod_upper_bound j' post ltac:(lia)) as J2.
    set (jp' := (j' / post)%nat) in *. set (jq' := (j' mod post)%nat) in *.
    assert (Hi' : (i' < vs)%nat) by (unfold isz in *; nia).
    intros E.
    (* r = (jp'*vs + i')*post + jq'  ->  digits of r are (jq', i', jp') *)
    assert (Eq : jq = jq' /\ t = (jp' * vs + i')%nat).
    { destruct (divmod_pack (jp' * vs + i') post jq' J2) as [A1 A2]. rewrite E in A1, A2.
      unfold jq, t. split; congruence. }
    destruct Eq as [Eq1 Eq2].
    assert (Ei : i = i' /\ jp = jp').
    { destruct (divmod_pack jp' vs i' Hi') as [A1 A2]. rewrite <- Eq2 in A1, A2. unfold i, jp. split; congruence. }
    destruct Ei as [-> ->]. rewrite Eq1. lia.
Qed.

Theorem mux_partials_all_sizes : forall vs pre post rho r c,
  (r < vs * (pre * post))%nat ->
  is_derive (fun t => evalR (upd rho c t) (nth r (outs (mux vs pre post)) (ECst 0))) (rho c)
            (evalR rho (decl_entry (jac (mux vs pre post)) r c)).
Proof.
  intros vs pre post rho r c Hr.
  assert (Hpost : (0 < post)%nat) by nia. assert (Hvs : (0 < vs)%nat) by nia. assert (Hpre : (0 < pre)%nat) by nia.
  unfold mux. cbn [outs jac]. rewrite nth_map_seq by exact Hr. cbv zeta.
  change ((r / post) mod vs * (pre * post) + r / post / vs * post + r mod post)%nat with (mux_src vs pre post r).
  eapply is_derive_eq; [apply D_correct; exact I|].
  rewrite decl_entry_eval.
  set (isz := (pre * post)%nat).
  set (g := fun i => map (fun j => ((mux_dst vs post i j, (i * isz + j)%nat), cq 1)) (seq 0 isz)).
  assert (Hzero : forall i, (i < vs)%nat -> i <> (c / isz)%nat -> dense_val rho (g i) r c = 0).
  { intros i Hi Ne. unfold g.
    rewrite (dense_val_map_seq rho (fun j => ((mux_dst vs post i j, (i * isz + j)%nat), cq 1)) isz r c (c - i * isz)%nat).
    - destruct ((c - i * isz <? isz)%nat) eqn:L; [|reflexivity]. cbn [andb]. unfold hit. cbn [fst snd].
      destruct (Nat.eqb_spec (i * isz + (c - i * isz)) c) as [E|E]; [|rewrite andb_false_r; reflexivity].
      exfalso. apply Ne. apply Nat.div_unique with (c - i * isz)%nat; lia.
    - intros k _ H. unfold hit in H. cbn [fst snd] in H. lia. }
  cbn [D evalR].
  transitivity (dense_val rho (flat_map g (seq 0 vs)) r c); [|reflexivity].
  rewrite (dense_val_flat_map_seq rho g vs r c (c / isz)%nat Hzero).
  destruct (Nat.ltb_spec (c / isz) vs) as [Hc|Hc].
  - assert (Hcc : (c < vs * isz)%nat).
    { pose proof (Nat.div_mod c isz ltac:(unfold isz; nia)). pose proof (Nat.mod_upper_bound c isz ltac:(unfold isz; nia)). nia. }
    unfold g.
    rewrite (dense_val_map_seq rho (fun j => ((mux_dst vs post (c / isz) j, (c / isz * isz + j)%nat), cq 1)) isz r c (c mod isz)%nat).
    2:{ intros k Hk H. unfold hit in H. cbn [fst snd] in H.
        apply Nat.mod_unique with (c / isz)%nat; lia. }
    pose proof (Nat.div_mod c isz ltac:(unfold isz; nia)) as C1.
    pose proof (Nat.mod_upper_bound c isz ltac:(unfold isz; nia)) as C2.
    replace (c mod isz <? isz)%nat with true by lia. cbn [andb]. unfold hit. cbn [fst snd cq evalR].
    replace (c / isz * isz + c mod isz =? c)%nat with true by lia. rewrite andb_true_r.
    pose proof (mux_src_dst vs pre post r c Hr Hcc) as Iff. fold isz in Iff.
    destruct (Nat.eqb_spec (mux_src vs pre post r) c) as [E1|E1];
      destruct (Nat.eqb_spec (mux_dst vs post (c / isz) (c mod isz)) r) as [F1|F1]; cbn [evalR];
      try reflexivity; try (exfalso; tauto); unfold Q2R; cbn; field.
  - (* c beyond the inputs: the output does not depend on it *)
    destruct (Nat.eqb_spec (mux_src vs pre post r) c) as [E|E]; cbn [evalR]; [|unfold Q2R; cbn; field].
    exfalso. unfold mux_src in E. fold isz in E.
    pose proof (Nat.mod_upper_bound (r / post) vs ltac:(lia)).
    pose proof (Nat.mod_upper_bound r post ltac:(lia)).
    assert ((r / post) / vs < pre)%nat.
    { apply Nat.div_lt_upper_bound; [lia|]. apply Nat.div_lt_upper_bound; [lia|]. unfold isz in *. nia. }
    assert (c < vs * isz)%nat by (unfold isz in *; nia).
    assert (Hlt : (c / isz < vs)%nat) by (apply Nat.div_lt_upper_bound; [unfold isz; nia|rewrite Nat.mul_comm; assumption]).
    apply (Nat.lt_irrefl vs). eapply Nat.le_lt_trans; [exact Hc|exact Hlt].
Qed.

(* non-vacuity: the hypotheses of the theorems above are satisfiable *)
Example vmag_premise_satisfiable :
  0 < evalR (env_of_list [3; 4]) (e_dot (evars 0 2) (evars 0 2)).
Proof. cbn. lra. Qed.

Example sizes_premises_satisfiable :
  (0 < 3)%nat /\ (1 < 2)%nat /\ (1 < 2 * (1 * 3))%nat /\ (3 < 2 * 2)%nat.
Proof. lia. Qed.
