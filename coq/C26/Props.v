(* C26 — property theorems (statements only). *)
From Coq Require Import Reals List.
From Coquelicot Require Import Coquelicot.
From OMV Require Import Expr.Expr Expr.ExprProofs C26.Model C26.Proofs.
Import ListNotations.

(* A pair produced by [jac_goals] (symbolic derivative of an output formula, declared dense entry): when the
   two denote the same real number at rho, the declared entry is the partial derivative there. *)
Theorem C26_pair_sound :
  forall (e d : expr) (rho : env) (c : nat),
    smooth rho e -> evalR rho (simp (D c e)) = evalR rho (simp d) ->
    is_derive (fun t => evalR (upd rho c t) e) (rho c) (evalR rho d).
Proof. exact pair_sound. Qed.
Print Assumptions C26_pair_sound.
