(* C26 — property theorems (statements only). *)
From Coq Require Import Reals QArith List.
From Coquelicot Require Import Coquelicot.
From OMV Require Import Expr.Expr Expr.ExprProofs C26.Model C26.Proofs C26.ProofsSizes.
Import ListNotations.

(* A pair produced by [jac_goals] (symbolic derivative of an output formula, declared dense entry): when the
   two denote the same real number at rho, the declared entry is the partial derivative there. *)
Theorem C26_pair_sound :
  forall (e d : expr) (rho : env) (c : nat),
    smooth rho e -> evalR rho (simp (D c e)) = evalR rho (simp d) ->
    is_derive (fun t => evalR (upd rho c t) e) (rho c) (evalR rho d).
Proof. exact pair_sound. Qed.
Print Assumptions C26_pair_sound.

(* EQConstraintComp / BalanceComp: for all real lhs, rhs, mult (variables 0, 1, 2) and both normalisation
   branches, the three declared partials of the code are the partial derivatives of
   (mult*lhs - rhs) * scale(rhs).  The components are elementwise, so this covers every shape. *)
Theorem C26_eq_elem_partials_correct :
  forall normalize use_mult small rho,
    (normalize = true -> small = false -> rho 1%nat <> 0%R) ->
    let out := fst (elem normalize use_mult small) in
    let d := snd (elem normalize use_mult small) in
    is_derive (fun t => evalR (upd rho 0 t) out) (rho 0%nat) (evalR rho (fst (fst d))) /\
    is_derive (fun t => evalR (upd rho 1 t) out) (rho 1%nat) (evalR rho (snd (fst d))) /\
    (use_mult = true -> is_derive (fun t => evalR (upd rho 2 t) out) (rho 2%nat) (evalR rho (snd d))).
Proof. exact eq_elem_partials_correct. Qed.
Print Assumptions C26_eq_elem_partials_correct.

(* Dot products of two variable blocks of ANY length n (the rows of DotProductComp, MatrixVectorProductComp,
   LinearSystemComp and the radicand of VectorMagnitudeComp): the symbolic derivative evaluates to the
   indicator sum, and the partial with respect to the j-th entry of one block is the j-th entry of the other. *)
Theorem C26_edot_D :
  forall n o1 o2 rho x, evalR rho (D x (e_dot (evars o1 n) (evars o2 n))) = dsum n o1 o2 rho x.
Proof. exact edot_D. Qed.
Print Assumptions C26_edot_D.

Theorem C26_dot_row_partial :
  forall n o1 o2 rho j,
    (j < n)%nat -> (forall k, (k < n)%nat -> o2 + k <> o1 + j)%nat ->
    is_derive (fun t => evalR (upd rho (o1 + j) t) (e_dot (evars o1 n) (evars o2 n)))
              (rho (o1 + j)%nat) (rho (o2 + j)%nat).
Proof. exact dot_row_partial. Qed.
Print Assumptions C26_dot_row_partial.

(* ---------------------------------------------------------------------------------------------------------
   All-size theorems (coq/C26/ProofsSizes.v): for EVERY vec_size / length / shape, every row r, EVERY column c
   (also columns on which the output does not depend) and all real inputs, the dense value of the DECLARED
   pattern of the model - rows/cols arithmetic and value formulas of the code - is the partial derivative of the
   output formula.  [decl_entry] is the same symbolic dense entry the generated per-instance goals use and
   denotes the sum of the declared values at (r, c) (C26_decl_entry_is_dense_sum). *)

Theorem C26_decl_entry_is_dense_sum :
  forall rho j r c, evalR rho (decl_entry j r c) = dense_val rho j r c.
Proof. exact decl_entry_eval. Qed.
Print Assumptions C26_decl_entry_is_dense_sum.

Theorem C26_dotp_partials_all_sizes :
  forall vs len rho r c, (0 < len)%nat -> (r < vs)%nat ->
    is_derive (fun t => evalR (upd rho c t) (nth r (outs (dotp vs len)) (ECst 0%Q))) (rho c)
              (evalR rho (decl_entry (jac (dotp vs len)) r c)).
Proof. exact dotp_partials_all_sizes. Qed.
Print Assumptions C26_dotp_partials_all_sizes.

Theorem C26_matvec_partials_all_sizes :
  forall vs nr nc rho r c, (0 < nr)%nat -> (0 < nc)%nat -> (r < vs * nr)%nat ->
    is_derive (fun t => evalR (upd rho c t) (nth r (outs (matvec vs nr nc)) (ECst 0%Q))) (rho c)
              (evalR rho (decl_entry (jac (matvec vs nr nc)) r c)).
Proof. exact matvec_partials_all_sizes. Qed.
Print Assumptions C26_matvec_partials_all_sizes.

(* MuxComp: vs inputs of pre*post entries stacked along the axis after the first `pre`-sized block of
   dimensions; the declared unit entries are exactly the permutation the outputs realise. *)
Theorem C26_mux_partials_all_sizes :
  forall vs pre post rho r c, (r < vs * (pre * post))%nat ->
    is_derive (fun t => evalR (upd rho c t) (nth r (outs (mux vs pre post)) (ECst 0%Q))) (rho c)
              (evalR rho (decl_entry (jac (mux vs pre post)) r c)).
Proof. exact mux_partials_all_sizes. Qed.
Print Assumptions C26_mux_partials_all_sizes.

Theorem C26_mux_src_dst_inverse :
  forall vs pre post r c, (r < vs * (pre * post))%nat -> (c < vs * (pre * post))%nat ->
    (mux_src vs pre post r = c <-> mux_dst vs post (c / (pre * post)) (c mod (pre * post)) = r).
Proof. exact mux_src_dst. Qed.
Print Assumptions C26_mux_src_dst_inverse.

(* VectorMagnitudeComp, any length: d |a| / d a_j = a_j / |a| wherever |a| > 0; the model's declared entry
   is literally that quotient (vmag_declared_value). *)
Theorem C26_vmag_partial :
  forall len o rho j, (j < len)%nat ->
    (0 < evalR rho (e_dot (evars o len) (evars o len)))%R ->
    is_derive (fun t => evalR (upd rho (o + j) t) (ESqrt (e_dot (evars o len) (evars o len))))
              (rho (o + j)%nat)
              (rho (o + j)%nat / sqrt (evalR rho (e_dot (evars o len) (evars o len))))%R.
Proof. exact vmag_partial. Qed.
Print Assumptions C26_vmag_partial.
