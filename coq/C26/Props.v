(* C26 — property theorems (statements only). *)
From Coq Require Import Reals List.
From Coquelicot Require Import Coquelicot.
From OMV Require Import Expr.Expr Expr.ExprProofs C26.Model C26.Proofs.
Import ListNotations.

(* A pair produced by [jac_goals] (symbolic derivative of an output formula, declared dense entry): when the
   two denote the same real number at rho, the declared entry is the partial derivative there. *)
Theorem C26_pair_sound :
  forall (e d : expr) (rho : env) (c : nat),
    smooth rho e -> evalR rho (simp (D c e)) = evalR rho (simp d) ->
    is_derive (fun t => evalR (upd rho c t) e) (rho c) (evalR rho d).
Proof. exact pair_sound. Qed.
Print Assumptions C26_pair_sound.

(* EQConstraintComp / BalanceComp: for all real lhs, rhs, mult (variables 0, 1, 2) and both normalisation
   branches, the three declared partials of the code are the partial derivatives of
   (mult*lhs - rhs) * scale(rhs).  The components are elementwise, so this covers every shape. *)
Theorem C26_eq_elem_partials_correct :
  forall normalize use_mult small rho,
    (normalize = true -> small = false -> rho 1%nat <> 0%R) ->
    let out := fst (elem normalize use_mult small) in
    let d := snd (elem normalize use_mult small) in
    is_derive (fun t => evalR (upd rho 0 t) out) (rho 0%nat) (evalR rho (fst (fst d))) /\
    is_derive (fun t => evalR (upd rho 1 t) out) (rho 1%nat) (evalR rho (snd (fst d))) /\
    (use_mult = true -> is_derive (fun t => evalR (upd rho 2 t) out) (rho 2%nat) (evalR rho (snd d))).
Proof. exact eq_elem_partials_correct. Qed.
Print Assumptions C26_eq_elem_partials_correct.

(* Dot products of two variable blocks of ANY length n (the rows of DotProductComp, MatrixVectorProductComp,
   LinearSystemComp and the radicand of VectorMagnitudeComp): the symbolic derivative evaluates to the
   indicator sum, and the partial with respect to the j-th entry of one block is the j-th entry of the other. *)
Theorem C26_edot_D :
  forall n o1 o2 rho x, evalR rho (D x (e_dot (evars o1 n) (evars o2 n))) = dsum n o1 o2 rho x.
Proof. exact edot_D. Qed.
Print Assumptions C26_edot_D.

Theorem C26_dot_row_partial :
  forall n o1 o2 rho j,
    (j < n)%nat -> (forall k, (k < n)%nat -> o2 + k <> o1 + j)%nat ->
    is_derive (fun t => evalR (upd rho (o1 + j) t) (e_dot (evars o1 n) (evars o2 n)))
              (rho (o1 + j)%nat) (rho (o2 + j)%nat).
Proof. exact dot_row_partial. Qed.
Print Assumptions C26_dot_row_partial.
