(* C26 — executable model of the stock math components of openmdao/components:
   AddSubtractComp, MuxComp, DotProductComp, CrossProductComp, MatrixVectorProductComp,
   VectorMagnitudeComp, EQConstraintComp, BalanceComp, LinearSystemComp.

   A component instance is modelled by
     outs : the formula of every output (residual) element, an [expr] over the flat environment
            (all inputs, then - for implicit components - the states, each flattened in C order);
     jac  : the DECLARED partials exactly as the code builds them: (row, col) pattern from the
            rows/cols arithmetic of the code, value expression from compute_partials / linearize.
   Definitions only (no proofs). *)
From Coq Require Import ZArith QArith Qabs List Bool.
From OMV Require Import Base.Val Expr.Expr.
Import ListNotations.
Open Scope nat_scope.

Record inst := mkinst { outs : list expr; jac : list ((nat * nat) * expr) }.

Definition evars (off n : nat) : list expr := map (fun k => EVar (off + k)) (seq 0 n).
Definition cq (q : Q) : expr := ECst q.

(* ------------------------------------------------------------------ AddSubtractComp
   one equation, inputs of N = vec_size*length entries each, input i at offset i*N:
   temp = zeros; temp = temp + inputs[i] * sf_i ; partials declared once: sf_i * eye(N) *)
Definition addsub (N : nat) (sfs : list Q) : inst :=
  let isf := combine (seq 0 (length sfs)) sfs in
  mkinst
    (map (fun e => fold_left (fun acc p => EAdd acc (EMul (EVar (fst p * N + e)) (cq (snd p)))) isf (cq 0))
         (seq 0 N))
    (flat_map (fun p => map (fun e => ((e, fst p * N + e), cq (snd p))) (seq 0 N)) isf).

(* ------------------------------------------------------------------ MuxComp
   vec_size inputs of shape pre ++ post (sizes multiplied: pre = prod of the dims before the axis,
   post = prod of the others), stacked along the axis: out[(jp*vs + i)*post + jq] = in_i[jp*post + jq] *)
Definition mux (vs pre post : nat) : inst :=
  let isz := pre * post in
  mkinst
    (map (fun r => let jq := r mod post in let t := r / post in
                   EVar ((t mod vs) * isz + (t / vs) * post + jq))
         (seq 0 (vs * isz)))
    (flat_map (fun i => map (fun j => ((((j / post) * vs + i) * post + j mod post, i * isz + j), cq 1))
                            (seq 0 isz))
              (seq 0 vs)).

(* ------------------------------------------------------------------ DotProductComp
   a at 0, b at vs*len (same = true: a_name = b_name, one input only);
   rows = repeat(arange(vs), len), cols = arange(vs*len); partials b.ravel() / a.ravel() *)
Definition dotp (vs len : nat) : inst :=
  let n := vs * len in
  mkinst
    (map (fun k => e_dot (evars (k * len) len) (evars (n + k * len) len)) (seq 0 vs))
    (map (fun k => ((k / len, k), EVar (n + k))) (seq 0 n) ++
     map (fun k => ((k / len, n + k), EVar k)) (seq 0 n)).

(* ------------------------------------------------------------------ CrossProductComp *)
Definition kmat : list (list Q) :=
  [[0; 0; 0; -1#1; 0; 1]; [0; 1; 0; 0; -1#1; 0]; [-1#1; 0; 1; 0; 0; 0]]%Q.
Definition Mcols : list nat := [1; 2; 0; 2; 0; 1]%nat.
Definition kent (j i : nat) : Q := nth i (nth j kmat []) 0%Q.

Definition cross (vs : nat) : inst :=
  let n := 3 * vs in
  let a b k := EVar (b + 3 * k) in
  mkinst
    (flat_map (fun k =>
        let a0 := EVar (3*k) in let a1 := EVar (3*k+1) in let a2 := EVar (3*k+2) in
        let b0 := EVar (n+3*k) in let b1 := EVar (n+3*k+1) in let b2 := EVar (n+3*k+2) in
        [ESub (EMul a1 b2) (EMul a2 b1); ESub (EMul a2 b0) (EMul a0 b2); ESub (EMul a0 b1) (EMul a1 b0)])
      (seq 0 vs))
    ((* wrt a: einsum('...j,ji->...i', b, -k) *)
     map (fun t => let k := t / 6 in let i := t mod 6 in
                   ((t / 2, nth i Mcols 0%nat + 3 * k),
                    e_sum (map (fun j => EMul (EVar (n + 3*k + j)) (cq (- kent j i)%Q)) (seq 0 3))))
         (seq 0 (6 * vs)) ++
     (* wrt b: einsum('...j,ji->...i', a, k) *)
     map (fun t => let k := t / 6 in let i := t mod 6 in
                   ((t / 2, n + nth i Mcols 0%nat + 3 * k),
                    e_sum (map (fun j => EMul (EVar (3*k + j)) (cq (kent j i))) (seq 0 3))))
         (seq 0 (6 * vs))).

(* ------------------------------------------------------------------ MatrixVectorProductComp
   A (vs, nr, nc) at 0, x (vs, nc) at vs*nr*nc; b[n,i] = sum_j A[n,i,j] x[n,j] *)
Definition matvec (vs nr nc : nat) : inst :=
  let xo := vs * nr * nc in
  mkinst
    (map (fun r => e_dot (evars (r * nc) nc) (evars (xo + (r / nr) * nc) nc)) (seq 0 (vs * nr)))
    ((* d b / d A: nonzero of block_diag of the rows of repeat(x, nr, axis=0) ; vals repeat(x, nr, axis=0).ravel() *)
     map (fun t => let r := t / nc in let j := t mod nc in
                   ((r, r * nc + j), EVar (xo + (r / nr) * nc + j)))
         (seq 0 (vs * nr * nc)) ++
     (* d b / d x: nonzero of block_diag of the matrices of A ; vals A.ravel() *)
     map (fun t => let r := t / nc in let j := t mod nc in
                   ((r, xo + (r / nr) * nc + j), EVar t))
         (seq 0 (vs * nr * nc))).

(* ------------------------------------------------------------------ VectorMagnitudeComp *)
Definition vmag (vs len : nat) : inst :=
  let row k := evars (k * len) len in
  mkinst
    (map (fun k => ESqrt (e_dot (row k) (row k))) (seq 0 vs))
    (map (fun t => ((t / len, t), EDiv (EVar t) (ESqrt (e_dot (row (t / len)) (row (t / len))))))
         (seq 0 (vs * len))).

(* ------------------------------------------------------------------ EQConstraintComp / BalanceComp
   lhs at 0, rhs at N, mult at 2N (when use_mult); elementwise.  The normalisation branch of an
   element is chosen by the VALUE of rhs (|rhs| < 2 or not), as in the code. *)
Definition scale_e (small : bool) (v : expr) : expr :=
  if small then EDiv (cq 1) (EAdd (EMul (cq (1#4)%Q) (EPow v 2)) (cq 1))
  else EDiv (cq 1) (EAbs v).
Definition dscale_e (small : bool) (v : expr) : expr :=
  if small then EDiv (EMul (cq (-1#2)%Q) v) (EPow (EAdd (EMul (cq (1#4)%Q) (EPow v 2)) (cq 1)) 2)
  else EDiv (ENeg (e_sign v)) (EPow v 2).
Definition is_small (r : Q) : bool := negb (Qle_bool 2%Q (Qabs r)).

Definition eq_elem (normalize use_mult : bool) (small : bool) (lhs rhs mult : expr) : expr * (expr * expr * expr) :=
  let sc := if normalize then scale_e small rhs else cq 1 in
  let dsc := if normalize then dscale_e small rhs else cq 0 in
  let m := if use_mult then mult else cq 1 in
  (EMul (ESub (if use_mult then EMul mult lhs else lhs) rhs) sc,
   (EMul m sc,                                           (* d/d lhs  = mult * scale *)
    ESub (EMul (ESub (EMul m lhs) rhs) dsc) sc,          (* d/d rhs  = (mult*lhs - rhs)*dscale - scale *)
    EMul lhs sc)).                                       (* d/d mult = lhs * scale *)

Definition eqc (N : nat) (normalize use_mult : bool) (rhs_vals : list Q) : inst :=
  let el e := eq_elem normalize use_mult (is_small (nth e rhs_vals 0%Q)) (EVar e) (EVar (N + e)) (EVar (2*N + e)) in
  mkinst
    (map (fun e => fst (el e)) (seq 0 N))
    (flat_map (fun e =>
        let d := snd (el e) in
        [((e, e), fst (fst d)); ((e, N + e), snd (fst d))] ++
        (if use_mult then [((e, 2*N + e), snd d)] else []))
      (seq 0 N)).

(* ------------------------------------------------------------------ LinearSystemComp
   A at 0 (size*size, or vs*size*size when vectorize_A), b next (vs*size), x next (vs*size);
   residual[i,j] = sum_k A[(i),j,k] x[i,k] - b[i,j] *)
Definition linsys (vs size : nat) (vecA : bool) : inst :=
  let mat := size * size in
  let full := vs * size in
  let bo := if vecA then vs * mat else mat in
  let xo := bo + full in
  mkinst
    (map (fun r => let i := r / size in let j := r mod size in
                   ESub (e_dot (evars ((if vecA then i * mat else 0) + j * size) size) (evars (xo + i * size) size))
                        (EVar (bo + r)))
         (seq 0 full))
    ((* wrt b: diagonal, -1 *)
     map (fun r => ((r, bo + r), cq (-1#1)%Q)) (seq 0 full) ++
     (* wrt A: rows repeat(arange(full), size); cols arange(mat*vs) | tile(arange(mat), vs); val tile(x, size).flat *)
     map (fun t => ((t / size, if vecA then t else t mod mat),
                    EVar (xo + (t / mat) * size + (t mod mat) mod size)))
         (seq 0 (full * size)) ++
     (* wrt x: cols tile(tile(arange(size), size), vs) + repeat(arange(vs), mat)*size; val A.flat | tile(A.flat, vs) *)
     map (fun t => ((t / size, xo + t mod size + (t / mat) * size),
                    EVar (if vecA then t else t mod mat)))
         (seq 0 (full * size))).

(* ------------------------------------------------------------------ evaluation (exact, over Q) *)

(* evalQ of the shared language extended with the exact square root of perfect-square rationals
   (the generated VectorMagnitude data is Pythagorean) *)
Definition qsqrt_exact (q : Q) : option Q :=
  let r := Qred q in
  let n := Qnum r in
  let d := Zpos (Qden r) in
  if (n <? 0)%Z then None
  else let sn := Z.sqrt n in let sd := Z.sqrt d in
       if ((sn * sn =? n) && (sd * sd =? d))%Z%bool then Some (sn # Z.to_pos sd) else None.

Fixpoint evalQx (rq : nat -> Q) (e : expr) : option Q :=
  match e with
  | ESqrt a => obind (evalQx rq a) qsqrt_exact
  | ENeg a => option_map Qopp (evalQx rq a)
  | EAdd a b => olift2 Qplus (evalQx rq a) (evalQx rq b)
  | ESub a b => olift2 Qminus (evalQx rq a) (evalQx rq b)
  | EMul a b => olift2 Qmult (evalQx rq a) (evalQx rq b)
  | EDiv a b =>
      match evalQx rq a, evalQx rq b with
      | Some u, Some v => if Qzero v then None else Some (u / v)%Q
      | _, _ => None
      end
  | EAbs a => option_map Qabs (evalQx rq a)
  | EPow a n =>
      match evalQx rq a with
      | Some u => if (n <? 0)%Z && Qzero u then None else Some (Qpower u n)
      | None => None
      end
  | _ => evalQ rq e
  end.

Definition oq (o : option Q) : val := match o with Some q => VQ q | None => VE 1 end.

(* dense jacobian: entry (i, j) = sum of the declared values at (i, j) *)
Definition dense_entry (rq : nat -> Q) (j : list ((nat * nat) * expr)) (r c : nat) : option Q :=
  fold_left (fun acc t => if (Nat.eqb (fst (fst t)) r && Nat.eqb (snd (fst t)) c)%bool
                          then olift2 Qplus acc (evalQx rq (snd t)) else acc) j (Some 0%Q).

(* |got - want| <= ulps * 2^-53 * max(|want|, mag); ulps = 0 demands exact equality.  [mag] bounds the
   magnitude of the intermediate terms (cancellation in (mult*lhs - rhs)*dscale - scale). *)
Definition close (ulps mag : Q) (got want : Q) : bool :=
  Qle_bool (Qabs (got - want)%Q)
           (ulps * (1 # 9007199254740992) * (if Qle_bool mag (Qabs want) then Qabs want else mag))%Q.
Definition oclose (ulps mag : Q) (o : option Q) (want : Q) : bool :=
  match o with Some g => close ulps mag g want | None => false end.

(* the implementation's outputs and dense jacobian (row-major, nrows x ncols) against the model *)
Definition check_inst (ulps mag : Q) (I : inst) (x : list Q) (iouts : list Q) (ncols : nat) (ijac : list Q) : val :=
  let rq := envQ_of_list x in
  let nrows := length (outs I) in
  VL [VB (Nat.eqb (length iouts) nrows && Nat.eqb (length ijac) (nrows * ncols));
      vzs (map (fun p => Z.of_nat (fst p))
               (filter (fun p => negb (oclose ulps mag (evalQx rq (fst (snd p))) (snd (snd p))))
                       (combine (seq 0 nrows) (combine (outs I) iouts))));
      vzs (map (fun p => Z.of_nat (fst p))
               (filter (fun p => negb (oclose ulps mag (dense_entry rq (jac I) (fst p / ncols) (fst p mod ncols)) (snd p)))
                       (combine (seq 0 (nrows * ncols)) ijac)))].

(* symbolic side: the pairs (D_j out_i , declared dense entry) whose equality as real functions is the
   statement "declared partials = exact derivative"; used by the generated per-instance goals *)
Definition decl_entry (j : list ((nat * nat) * expr)) (r c : nat) : expr :=
  e_sum (map snd (filter (fun t => (Nat.eqb (fst (fst t)) r && Nat.eqb (snd (fst t)) c)%bool) j)).
Definition jac_goals (I : inst) (ncols : nat) : list (expr * expr) :=
  flat_map (fun ir => map (fun c => (simp (D c (snd ir)), simp (decl_entry (jac I) (fst ir) c))) (seq 0 ncols))
           (combine (seq 0 (length (outs I))) (outs I)).
