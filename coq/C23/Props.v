(* C23 — property theorems (statements only; proofs by [exact] of lemmas in Proofs.v). *)
From Coq Require Import ZArith QArith Qround List Bool.
From OMV Require Import Base.Val C23.Model C23.Proofs.
Import ListNotations.
Open Scope Z_scope.

(* Every level of np.linspace(lo, hi, n) lies within [lo, hi]: all rational bounds lo <= hi, all n. *)
Theorem C23_linspace_in_bounds :
  forall lo hi n y, (lo <= hi)%Q -> In y (linspace lo hi n) -> (lo <= y)%Q /\ (y <= hi)%Q.
Proof. exact linspace_in_bounds. Qed.
Print Assumptions C23_linspace_in_bounds.

(* n levels, the first is lo and the last is exactly hi. *)
Theorem C23_linspace_endpoints :
  forall lo hi n, (2 <= n)%nat ->
    (exists y, nth_error (linspace lo hi n) 0 = Some y /\ (y == lo)%Q) /\
    nth_error (linspace lo hi n) (n - 1) = Some hi.
Proof. exact linspace_endpoints. Qed.
Print Assumptions C23_linspace_endpoints.

Theorem C23_linspace_length : forall lo hi n, List.length (linspace lo hi n) = n.
Proof. exact linspace_length. Qed.
Print Assumptions C23_linspace_length.

(* Whatever index design is used (any tuples), every value a level-table generator yields for a factor
   lies within that factor's bounds. *)
Theorem C23_case_in_bounds :
  forall fs idxs i f y,
    nth_error fs i = Some f -> (f_lo f <= f_hi f)%Q ->
    nth_error (case_of fs idxs) i = Some (Some y) ->
    (f_lo f <= y)%Q /\ (y <= f_hi f)%Q.
Proof. exact case_in_bounds. Qed.
Print Assumptions C23_case_in_bounds.

(* The full-factorial enumeration contains exactly the index tuples below the level counts, ... *)
Theorem C23_fullfact_complete :
  forall levels t, In t (fullfact levels) <-> Forall2 (fun i n => (i < n)%nat) t levels.
Proof. exact fullfact_spec. Qed.
Print Assumptions C23_fullfact_complete.

(* ... each exactly once, ... *)
Theorem C23_fullfact_nodup : forall levels, NoDup (fullfact levels).
Proof. exact fullfact_nodup. Qed.
Print Assumptions C23_fullfact_nodup.

(* ... so their number is the product of the level counts; *)
Theorem C23_fullfact_length :
  forall levels, List.length (fullfact levels) = fold_right Nat.mul 1%nat levels.
Proof. exact fullfact_length. Qed.
Print Assumptions C23_fullfact_length.

(* and a full-factorial case never reads a NaN cell of the level table. *)
Theorem C23_fullfact_cases_defined :
  forall fs c, In c (fullfact_cases fs) -> Forall (fun o => o <> None) c.
Proof. exact fullfact_cases_defined. Qed.
Print Assumptions C23_fullfact_cases_defined.

(* Latin hypercube: the affine map of a unit sample stays within the bounds ... *)
Theorem C23_lhs_map_in_bounds :
  forall lo hi s, (0 <= s)%Q -> (s <= 1)%Q -> (lo <= hi)%Q ->
    (lo <= lhs_map lo hi s)%Q /\ (lhs_map lo hi s <= hi)%Q.
Proof. exact lhs_map_in_bounds. Qed.
Print Assumptions C23_lhs_map_in_bounds.

(* ... and maps the stratum [a, b) of the unit interval into the corresponding stratum of the range. *)
Theorem C23_lhs_map_preserves_strata :
  forall lo hi a b s, (lo < hi)%Q -> (a <= s)%Q -> (s < b)%Q ->
    (lhs_map lo hi a <= lhs_map lo hi s)%Q /\ (lhs_map lo hi s < lhs_map lo hi b)%Q.
Proof. exact lhs_map_preserves_strata. Qed.
Print Assumptions C23_lhs_map_preserves_strata.

(* What the boolean stratification checker (run inside Coq on the real design matrix) establishes. *)
Theorem C23_stratified_spec :
  forall n col, stratified n col = true ->
    List.length col = n /\
    (forall s, In s col -> (0 <= s)%Q /\ (s < 1)%Q) /\
    (forall k, (k < n)%nat -> count_z (Z.of_nat k) (map (stratum n) col) = 1%nat).
Proof. exact stratified_spec. Qed.
Print Assumptions C23_stratified_spec.

Theorem C23_stratum_spec :
  forall n s, (inject_Z (stratum n s) <= qn n * s)%Q /\ (qn n * s < inject_Z (stratum n s + 1))%Q.
Proof. exact stratum_spec. Qed.
Print Assumptions C23_stratum_spec.
