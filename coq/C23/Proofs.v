(* C23 — proofs: level tables stay within bounds, the full-factorial enumeration is complete and
   duplicate-free, the Latin-hypercube map stays in bounds and preserves strata, the stratification
   checker means what it says. *)
From Coq Require Import ZArith QArith Qround List Bool Lia Lqa FinFun.
From OMV Require Import Base.Val C23.Model.
Import ListNotations.
Open Scope Z_scope.

(* ------------------------------------------------------------------ rationals *)

Lemma qn_nonneg : forall n, (0 <= qn n)%Q.
Proof. intros. unfold qn, Qle. simpl. lia. Qed.

Lemma qn_pos : forall n, (0 < n)%nat -> (0 < qn n)%Q.
Proof. intros. unfold qn, Qlt. simpl. lia. Qed.

Lemma qn_le : forall a b, (a <= b)%nat -> (qn a <= qn b)%Q.
Proof. intros. unfold qn, Qle. simpl. lia. Qed.

Lemma affine_between : forall lo hi a, (0 <= a)%Q -> (a <= 1)%Q -> (lo <= hi)%Q ->
  (lo <= lo + a * (hi - lo))%Q /\ (lo + a * (hi - lo) <= hi)%Q.
Proof. intros. split; nra. Qed.

(* ------------------------------------------------------------------ linspace *)

Lemma linspace_length : forall lo hi n, List.length (linspace lo hi n) = n.
Proof.
  intros. unfold linspace. destruct n as [|[|m]]; auto.
  rewrite map_length, seq_length. reflexivity.
Qed.

Lemma level_point_in_bounds : forall lo hi m j,
  (lo <= hi)%Q -> (0 < m)%nat -> (j <= m)%nat ->
  (lo <= lo + qn j * ((hi - lo) / qn m))%Q /\ (lo + qn j * ((hi - lo) / qn m) <= hi)%Q.
Proof.
  intros lo hi m j Hb Hm Hj.
  pose proof (qn_pos m Hm) as Pm. pose proof (qn_nonneg j) as Pj. pose proof (qn_le j m Hj) as Pjm.
  assert (E : (lo + qn j * ((hi - lo) / qn m) == lo + (qn j / qn m) * (hi - lo))%Q).
  { field. intro K. rewrite K in Pm. apply (Qlt_irrefl 0). exact Pm. }
  rewrite E.
  apply affine_between; auto.
  - apply Qle_shift_div_l; [exact Pm|]. rewrite Qmult_0_l. exact Pj.
  - apply Qle_shift_div_r; [exact Pm|]. rewrite Qmult_1_l. exact Pjm.
Qed.

(* every level lies within the bounds: all bounds with lo <= hi, all level counts *)
Theorem linspace_in_bounds : forall lo hi n y,
  (lo <= hi)%Q -> In y (linspace lo hi n) -> (lo <= y)%Q /\ (y <= hi)%Q.
Proof.
  intros lo hi n y Hb Hin. unfold linspace in Hin.
  destruct n as [|[|m]].
  - destruct Hin.
  - destruct Hin as [H|[]]. subst y. split; [apply Qle_refl | exact Hb].
  - apply in_map_iff in Hin. destruct Hin as [j [Hy Hj]]. apply in_seq in Hj.
    destruct (Nat.eqb j (S m)) eqn:E.
    + subst y. split; [exact Hb | apply Qle_refl].
    + subst y. apply level_point_in_bounds; auto; lia.
Qed.

(* the end points are exact *)
Theorem linspace_endpoints : forall lo hi n,
  (2 <= n)%nat ->
  (exists y, nth_error (linspace lo hi n) 0 = Some y /\ (y == lo)%Q) /\
  nth_error (linspace lo hi n) (n - 1) = Some hi.
Proof.
  intros lo hi n Hn. destruct n as [|[|m]]; try lia.
  unfold linspace. split.
  - eexists. split; [reflexivity|]. simpl. unfold qn. simpl. field.
    intro K. assert (P := qn_pos (S m) ltac:(lia)). unfold qn in P. rewrite K in P. apply (Qlt_irrefl 0); exact P.
  - replace (S (S m) - 1)%nat with (S m) by lia.
    rewrite nth_error_map. rewrite (nth_error_nth' _ 0%nat) by (rewrite seq_length; lia).
    rewrite seq_nth by lia. simpl. rewrite Nat.eqb_refl. reflexivity.
Qed.

(* ------------------------------------------------------------------ cases from a design *)

Lemma case_of_nth : forall fs idxs i f,
  nth_error fs i = Some f ->
  nth_error (case_of fs idxs) i = option_map (level_value f) (nth_error idxs i).
Proof.
  induction fs as [|g fr IH]; intros idxs i f H.
  - destruct i; discriminate.
  - destruct i as [|i'], idxs as [|k ir]; simpl in *; try reflexivity.
    + inversion H; subst. reflexivity.
    + apply IH; auto.
Qed.

(* every value a level-table generator yields for a factor lies within that factor's bounds,
   whatever the design (any index tuples) *)
Theorem case_in_bounds : forall fs idxs i f y,
  nth_error fs i = Some f -> (f_lo f <= f_hi f)%Q ->
  nth_error (case_of fs idxs) i = Some (Some y) ->
  (f_lo f <= y)%Q /\ (y <= f_hi f)%Q.
Proof.
  intros fs idxs i f y Hf Hb Hc. rewrite (case_of_nth _ _ _ _ Hf) in Hc.
  destruct (nth_error idxs i) as [k|]; [|discriminate]. simpl in Hc. inversion Hc as [Hl].
  unfold level_value in Hl. apply nth_error_In in Hl. eapply linspace_in_bounds; eauto.
Qed.

(* ------------------------------------------------------------------ full factorial *)

Theorem fullfact_spec : forall levels t,
  In t (fullfact levels) <-> Forall2 (fun i n => (i < n)%nat) t levels.
Proof.
  induction levels as [|n r IH]; intros t; simpl.
  - split; [intros [H|[]]; subst; constructor | intros H; inversion H; auto].
  - rewrite in_flat_map. split.
    + intros [t' [Ht' Hin]]. apply in_map_iff in Hin. destruct Hin as [i [Hi Hs]]. subst t.
      apply in_seq in Hs. constructor; [lia | apply IH; auto].
    + intros H. inversion H as [|i n' t' r' Hi Hr]; subst.
      exists t'. split; [apply IH; auto|]. apply in_map_iff. exists i. split; auto. apply in_seq. lia.
Qed.

Lemma NoDup_app_intro : forall A (a b : list A),
  NoDup a -> NoDup b -> (forall x, In x a -> In x b -> False) -> NoDup (a ++ b).
Proof.
  induction a as [|x a IH]; intros b Ha Hb Hd; simpl; auto.
  inversion Ha; subst. constructor.
  - intro K. apply in_app_or in K. destruct K; [contradiction | eapply Hd; [left; reflexivity | eauto]].
  - apply IH; auto. intros y Hy Hy'. eapply Hd; [right; eauto | eauto].
Qed.

Theorem fullfact_nodup : forall levels, NoDup (fullfact levels).
Proof.
  induction levels as [|n r IH]; simpl.
  - constructor; [intros [] | constructor].
  - induction IH as [|t l Hnin Hnd IHl]; simpl; [constructor|].
    apply NoDup_app_intro; auto.
    + apply FinFun.Injective_map_NoDup; [intros a b E; inversion E; auto | apply seq_NoDup].
    + intros x Hx Hx'. apply in_map_iff in Hx. destruct Hx as [i [Hi _]]. subst x.
      apply in_flat_map in Hx'. destruct Hx' as [t' [Ht' Hin]].
      apply in_map_iff in Hin. destruct Hin as [j [Hj _]]. inversion Hj; subst. contradiction.
Qed.

Lemma flat_map_const_length : forall A B (f : A -> list B) (l : list A) k,
  (forall a, List.length (f a) = k) -> List.length (flat_map f l) = (k * List.length l)%nat.
Proof.
  induction l as [|a l IH]; intros k H; simpl; [lia|].
  rewrite app_length, H, (IH k H). lia.
Qed.

Theorem fullfact_length : forall levels, List.length (fullfact levels) = fold_right Nat.mul 1%nat levels.
Proof.
  induction levels as [|n r IH]; simpl; [reflexivity|].
  rewrite (flat_map_const_length _ _ _ _ n).
  - rewrite IH. reflexivity.
  - intros a. rewrite map_length, seq_length. reflexivity.
Qed.

Lemma linspace_defined : forall lo hi n i, (i < n)%nat -> nth_error (linspace lo hi n) i <> None.
Proof.
  intros. apply nth_error_Some. rewrite linspace_length. auto.
Qed.

(* a full-factorial case never picks a NaN cell of the level table *)
Theorem fullfact_cases_defined : forall fs c,
  In c (fullfact_cases fs) -> Forall (fun o => o <> None) c.
Proof.
  intros fs c Hc. unfold fullfact_cases, cases_of in Hc. apply in_map_iff in Hc.
  destruct Hc as [t [Hc Ht]]. subst c. apply fullfact_spec in Ht.
  revert t Ht. induction fs as [|f fr IH]; intros t Ht; simpl in *.
  - constructor.
  - inversion Ht as [|i n t' r' Hi Hr]; subst. simpl. constructor.
    + unfold level_value. apply linspace_defined. auto.
    + apply IH; auto.
Qed.

(* ------------------------------------------------------------------ Latin hypercube *)

Theorem lhs_map_in_bounds : forall lo hi s,
  (0 <= s)%Q -> (s <= 1)%Q -> (lo <= hi)%Q -> (lo <= lhs_map lo hi s)%Q /\ (lhs_map lo hi s <= hi)%Q.
Proof. intros. unfold lhs_map. apply affine_between; auto. Qed.

(* the map is increasing, so the image of the stratum [a, b) of the unit interval is the stratum
   [lo + a (hi - lo), lo + b (hi - lo)) of the variable's range *)
Theorem lhs_map_preserves_strata : forall lo hi a b s,
  (lo < hi)%Q -> (a <= s)%Q -> (s < b)%Q ->
  (lhs_map lo hi a <= lhs_map lo hi s)%Q /\ (lhs_map lo hi s < lhs_map lo hi b)%Q.
Proof. intros. unfold lhs_map. split; nra. Qed.

Theorem stratum_spec : forall n s,
  (inject_Z (stratum n s) <= qn n * s)%Q /\ (qn n * s < inject_Z (stratum n s + 1))%Q.
Proof. intros. unfold stratum. split; [apply Qfloor_le | apply Qlt_floor]. Qed.

(* what the boolean checker establishes about a column of a design matrix *)
Theorem stratified_spec : forall n col,
  stratified n col = true ->
  List.length col = n /\
  (forall s, In s col -> (0 <= s)%Q /\ (s < 1)%Q) /\
  (forall k, (k < n)%nat -> count_z (Z.of_nat k) (map (stratum n) col) = 1%nat).
Proof.
  intros n col H. unfold stratified in H.
  apply andb_true_iff in H. destruct H as [H H3]. apply andb_true_iff in H. destruct H as [H1 H2].
  split; [apply Nat.eqb_eq; auto|]. split.
  - intros s Hs. rewrite forallb_forall in H2. specialize (H2 s Hs).
    apply andb_true_iff in H2. destruct H2 as [A B]. apply Qle_bool_iff in A. split; auto.
    apply negb_true_iff in B. apply Qnot_le_lt. intro K. apply Qle_bool_iff in K. congruence.
  - intros k Hk. rewrite forallb_forall in H3. apply Nat.eqb_eq. apply H3. apply in_seq. lia.
Qed.

Example stratified_example : stratified 2 [3 # 4; 1 # 4]%Q = true /\ stratified 2 [1 # 8; 1 # 4]%Q = false.
Proof. split; reflexivity. Qed.

Example fullfact_example : fullfact [3; 2]%nat = [[0;0];[1;0];[2;0];[0;1];[1;1];[2;1]]%nat.
Proof. reflexivity. Qed.
