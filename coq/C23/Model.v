(* C23 — model of the DOE case generators (definitions only; proofs in Proofs.v).

   openmdao/drivers/doe_generators.py (_pyDOE_Generator.__call__, FullFactorialGenerator,
   LatinHypercubeGenerator.__call__) and the same logic in drivers/sampling/pyDOE_generators.py:
     * the level table  values[row, 0:levels] = np.linspace(lower, upper, num=levels)  per scalar factor
       (one row per element of every design variable), NaN beyond the factor's own number of levels;
     * a case = values[row][design[row]] for every row of the design's index tuple;
     * the full-factorial design itself (own enumeration, first factor fastest, compared with pyDOE's);
     * the Latin-hypercube map  lower + sample * (upper - lower)  and the stratification of a design matrix.
   Arithmetic over Q (the harness chooses bounds / level counts for which binary64 is exact). *)
From Coq Require Import ZArith QArith Qround List Bool String.
From OMV Require Import Base.Val.
Import ListNotations.
Open Scope Z_scope.

Definition qn (n : nat) : Q := inject_Z (Z.of_nat n).

(* np.linspace(lo, hi, num=n): start + arange(n) * step, the last point set to hi *)
Definition linspace (lo hi : Q) (n : nat) : list Q :=
  match n with
  | O => []
  | S O => [lo]
  | S m => let step := ((hi - lo) / qn m)%Q in
           map (fun j => if Nat.eqb j m then hi else (lo + qn j * step)%Q) (seq 0 n)
  end.

(* one scalar factor: bounds and its number of levels *)
Record factor := mkf { f_lo : Q; f_hi : Q; f_lev : nat }.

(* values[row][idx]; None = NaN (index beyond the factor's levels) *)
Definition level_value (f : factor) (idx : nat) : option Q := nth_error (linspace (f_lo f) (f_hi f) (f_lev f)) idx.

Fixpoint case_of (fs : list factor) (idxs : list nat) : list (option Q) :=
  match fs, idxs with
  | f :: fr, i :: ir => level_value f i :: case_of fr ir
  | _, _ => []
  end.

Definition cases_of (fs : list factor) (design : list (list nat)) : list (list (option Q)) :=
  map (case_of fs) design.

(* full factorial index design: every tuple, the first factor varying fastest *)
Fixpoint fullfact (levels : list nat) : list (list nat) :=
  match levels with
  | [] => [[]]
  | n :: r => flat_map (fun t => map (fun i => i :: t) (seq 0 n)) (fullfact r)
  end.

Definition fullfact_cases (fs : list factor) : list (list (option Q)) :=
  cases_of fs (fullfact (map f_lev fs)).

(* Latin hypercube: affine map of a unit sample, stratum of a unit sample *)
Definition lhs_map (lo hi s : Q) : Q := (lo + s * (hi - lo))%Q.

Definition stratum (n : nat) (s : Q) : Z := Qfloor (qn n * s).

Definition count_z (k : Z) (l : list Z) : nat := List.length (List.filter (Z.eqb k) l).

(* one sample in each of the n strata of [0, 1) *)
Definition stratified (n : nat) (col : list Q) : bool :=
  Nat.eqb (List.length col) n &&
  forallb (fun s => Qle_bool 0 s && negb (Qle_bool 1 s)) col &&
  forallb (fun k => Nat.eqb (count_z (Z.of_nat k) (map (stratum n) col)) 1) (seq 0 n).

Fixpoint column (j : nat) (m : list (list Q)) : list Q :=
  match m with
  | [] => []
  | r :: t => match nth_error r j with Some x => x :: column j t | None => column j t end
  end.

Definition lhs_ok (n ncols : nat) (m : list (list Q)) : bool :=
  forallb (fun r => Nat.eqb (List.length r) ncols) m &&
  forallb (fun j => stratified n (column j m)) (seq 0 ncols).

Fixpoint lhs_case (los his row : list Q) : list Q :=
  match los, his, row with
  | lo :: lr, hi :: hr, s :: sr => lhs_map lo hi s :: lhs_case lr hr sr
  | _, _, _ => []
  end.

(* ------------------------------------------------------------------ rendering *)

Definition v_oq (o : option Q) : val := match o with Some q => VQ q | None => VS "nan"%string end.
Definition v_case (c : list (option Q)) : val := VL (map v_oq c).
Definition v_design (d : list (list nat)) : val := VL (map (fun t => VL (map (fun i => VZ (Z.of_nat i)) t)) d).

(* level-table generators: the cases for a given (external or own) design *)
Definition v_cases (fs : list factor) (design : list (list nat)) : val := VL (map v_case (cases_of fs design)).

(* full factorial: own design and its cases *)
Definition v_fullfact (fs : list factor) : val :=
  VL [v_design (fullfact (map f_lev fs)); VL (map v_case (fullfact_cases fs))].

(* Latin hypercube: stratification verdict of the real design matrix and the mapped cases *)
Definition v_lhs (n : nat) (los his : list Q) (m : list (list Q)) : val :=
  VL [VB (lhs_ok n (List.length los) m); VL (map (fun r => VL (map VQ (lhs_case los his r))) m)].
