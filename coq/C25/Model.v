(* C25 — KS aggregation.  Model of openmdao/components/ks_comp.py (KSfunction, KSComp) and
   openmdao/jax_funcs/ks.py (ks_max, ks_min).  Definitions only.

   Real-valued model (lists of reals, Coq standard-library exp / ln).  The only non-analytic
   ingredient, the extremal element, has an executable rational twin (maxlQ / minlQ) used by
   the generated correspondence goals. *)
From Coq Require Import Reals QArith Qreals Qminmax ZArith List Bool.
Import ListNotations.
Open Scope R_scope.

(* ------------------------------------------------------------------ list helpers *)

Fixpoint sumR (l : list R) : R :=
  match l with [] => 0 | x :: l' => x + sumR l' end.

(* np.max / np.min over the last axis (0 on the empty list, which the code never sees:
   width >= 1) *)
Definition maxl (l : list R) : R :=
  match l with [] => 0 | x :: l' => fold_left Rmax l' x end.
Definition minl (l : list R) : R :=
  match l with [] => 0 | x :: l' => fold_left Rmin l' x end.

Definition maxlQ (l : list Q) : Q :=
  match l with [] => 0%Q | x :: l' => fold_left Qmax l' x end.
Definition minlQ (l : list Q) : Q :=
  match l with [] => 0%Q | x :: l' => fold_left Qmin l' x end.

(* the list g with its i-th entry replaced by t *)
Fixpoint set_nth (i : nat) (t : R) (l : list R) : list R :=
  match l, i with
  | [], _ => []
  | _ :: l', O => t :: l'
  | x :: l', S i' => x :: set_nth i' t l'
  end.

(* ------------------------------------------------------------------ KSfunction *)

(* _compute_values: g_max, exponents = exp(rho * (g - g_max)), summation *)
Definition exponents (rho m : R) (g : list R) : list R :=
  map (fun x => exp (rho * (x - m))) g.

(* KSfunction.compute:  g_max + 1.0 / rho * log(summation) *)
Definition KS (rho : R) (g : list R) : R :=
  let m := maxl g in m + 1 / rho * ln (sumR (exponents rho m g)).

(* KSfunction.derivatives(...)[0]:  dKS_dsum * dsum_dg
   with dsum_dg = rho * exponents, dKS_dsum = 1 / (rho * summation) *)
Definition KS_dg (rho : R) (g : list R) : list R :=
  let m := maxl g in
  let ex := exponents rho m g in
  let s := sumR ex in
  map (fun e => 1 / (rho * s) * (rho * e)) ex.

(* reference semantics: the unshifted log-sum-exp and the softmax weights *)
Definition LSE (rho : R) (g : list R) : R :=
  1 / rho * ln (sumR (map (fun x => exp (rho * x)) g)).
Definition softmax (rho : R) (g : list R) : list R :=
  let s := sumR (map (fun x => exp (rho * x)) g) in map (fun x => exp (rho * x) / s) g.

(* ------------------------------------------------------------------ KSComp (one row) *)

(* con_val = inputs['g'] - upper; negated for lower_flag; negated for minimum *)
Definition con_val (minimum lower_flag : bool) (upper : R) (g : list R) : list R :=
  let c := map (fun x => x - upper) g in
  let c := if lower_flag then map Ropp c else c in
  if minimum then map Ropp c else c.

(* KSComp.compute *)
Definition kscomp_out (minimum lower_flag : bool) (upper rho : R) (g : list R) : R :=
  let ks := KS rho (con_val minimum lower_flag upper g) in
  if minimum then - ks else ks.

(* KSComp.compute_partials: derivs negated for lower_flag only *)
Definition kscomp_partials (minimum lower_flag : bool) (upper rho : R) (g : list R) : list R :=
  let d := KS_dg rho (con_val minimum lower_flag upper g) in
  if lower_flag then map Ropp d else d.

(* vec_size rows are aggregated independently *)
Definition kscomp_out_rows mn lw up rho (G : list (list R)) : list R :=
  map (kscomp_out mn lw up rho) G.
Definition kscomp_partials_rows mn lw up rho (G : list (list R)) : list R :=
  flat_map (kscomp_partials mn lw up rho) G.

(* declared sparsity pattern of d KS / d g (setup): entry k of the flattened partials is
   (row k / width, column k) *)
Definition ks_rows (vec_size width : nat) : list nat :=
  flat_map (fun r => repeat r width) (seq 0 vec_size).
Definition ks_cols (vec_size width : nat) : list nat := seq 0 (vec_size * width).

(* ------------------------------------------------------------------ jax_funcs/ks.py *)

Definition jax_ks_max (rho : R) (x : list R) : R :=
  let m := maxl x in
  m + 1 / rho * ln (sumR (map (fun v => exp (rho * (v - m))) x)).

Definition jax_ks_min (rho : R) (x : list R) : R :=
  let m := minl x in
  m - 1 / rho * ln (sumR (map (fun v => exp (rho * (m - v))) x)).

(* the gradients jax.grad must return (proved to be the derivatives in Proofs.v) *)
Definition jax_ks_max_grad (rho : R) (x : list R) : list R :=
  let m := maxl x in
  let s := sumR (map (fun v => exp (rho * (v - m))) x) in
  map (fun v => exp (rho * (v - m)) / s) x.
Definition jax_ks_min_grad (rho : R) (x : list R) : list R :=
  let m := minl x in
  let s := sumR (map (fun v => exp (rho * (m - v))) x) in
  map (fun v => exp (rho * (m - v)) / s) x.

(* ------------------------------------------------------------------ dKS / drho *)
(* KSfunction.derivatives(...)[1] as written in the code:
   dKS_dsum * dsum_drho  with  dsum_drho = sum(g_diff * exponents),  dKS_dsum = 1 / (rho * summation) *)
Definition KS_drho_code (rho : R) (g : list R) : R :=
  let m := maxl g in
  1 / (rho * sumR (exponents rho m g)) * sumR (map (fun x => (x - m) * exp (rho * (x - m))) g).

(* the derivative of KSfunction.compute with respect to rho (proved in ProofsRho.v) *)
Definition KS_drho_true (rho : R) (g : list R) : R :=
  KS_drho_code rho g - ln (sumR (exponents rho (maxl g) g)) / (rho * rho).
