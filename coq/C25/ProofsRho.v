(* C25 — the derivative of the KS value with respect to rho, and the second return value of
   KSfunction.derivatives (which omits the term - ln(summation) / rho^2). *)
From Coq Require Import Reals List Lia Lra.
From Coquelicot Require Import Coquelicot.
From OMV Require Import Expr.Expr Expr.ExprProofs C25.Model C25.Proofs C25.ProofsTie.
Import ListNotations.
Open Scope R_scope.

Lemma dsum_rho m g rho :
  is_derive (fun r => sumR (map (fun x => exp (r * (x - m))) g)) rho
            (sumR (map (fun x => (x - m) * exp (rho * (x - m))) g)).
Proof.
  induction g as [|x l IH]; cbn [map sumR].
  - apply @is_derive_const.
  - apply @is_derive_plus; [|exact IH]. auto_derive. trivial. ring.
Qed.

Theorem ks_drho rho g :
  g <> [] -> 0 < rho -> is_derive (fun r => KS r g) rho (KS_drho_true rho g).
Proof.
  intros Hg Hr. unfold KS, KS_drho_true, KS_drho_code, exponents. cbv zeta.
  set (m := maxl g).
  set (S := fun r => sumR (map (fun x => exp (r * (x - m))) g)).
  set (S' := sumR (map (fun x => (x - m) * exp (rho * (x - m))) g)).
  assert (HS : 0 < S rho) by (apply (exponents_pos rho m g Hg)).
  assert (HdS : is_derive S rho S') by apply dsum_rho.
  assert (Hln : is_derive (fun r => ln (S r)) rho (/ S rho * S')).
  { apply (is_derive_comp1 ln S). now apply is_derive_ln. exact HdS. }
  assert (Hinv : is_derive (fun r : R => 1 / r) rho (- 1 / (rho * rho))).
  { auto_derive. lra. field. lra. }
  evar_last. apply @is_derive_plus. apply @is_derive_const.
  apply (Derive.is_derive_mult (fun r => 1 / r) (fun r => ln (S r)) rho _ _ Hinv Hln).
  unfold plus, zero; simpl. fold (S rho). field. split; lra.
Qed.

(* the code's second return value is NOT that derivative as soon as two entries are aggregated *)
Theorem ks_drho_code_refuted :
  exists rho g, g <> [] /\ 0 < rho /\ ~ is_derive (fun r => KS r g) rho (KS_drho_code rho g).
Proof.
  exists 1, [0; 0]. split; [discriminate|]. split; [lra|]. intros H.
  assert (Hg : [0; 0] <> ([] : list R)) by discriminate.
  generalize (ks_drho 1 [0; 0] Hg Rlt_0_1). intros Ht.
  generalize (is_derive_unique _ _ _ H) (is_derive_unique _ _ _ Ht). intros E1 E2.
  rewrite E1 in E2. unfold KS_drho_true in E2.
  assert (Hs : sumR (exponents 1 (maxl [0; 0]) [0; 0]) = 2).
  { unfold exponents, maxl. cbn [fold_left map sumR]. rewrite Rmax_left by lra.
    replace (1 * (0 - 0)) with 0 by ring. rewrite exp_0. ring. }
  rewrite Hs in E2.
  assert (0 < ln 2) by (rewrite <- ln_1; apply ln_increasing; lra).
  assert (ln 2 / (1 * 1) = 0) by lra.
  unfold Rdiv in H1. rewrite Rmult_1_r, Rinv_1, Rmult_1_r in H1. lra.
Qed.

(* with a single aggregated entry (width 1) the two coincide: summation = 1 *)
Lemma ks_drho_width1 rho x : KS_drho_true rho [x] = KS_drho_code rho [x].
Proof.
  unfold KS_drho_true, exponents, maxl. cbn [fold_left map sumR].
  replace (rho * (x - x)) with 0 by ring. rewrite exp_0, Rplus_0_r, ln_1. unfold Rdiv. ring.
Qed.
