(* C25 — proofs about the KS model (Model.v). *)
From Coq Require Import Reals QArith Qreals Qminmax ZArith List Bool Lia Lra.
From Coquelicot Require Import Coquelicot.
From OMV Require Import Expr.Expr Expr.ExprProofs C25.Model.
Import ListNotations.
Open Scope R_scope.

(* ------------------------------------------------------------------ max / min of a list *)

Lemma fold_max_ge_init l a : a <= fold_left Rmax l a.
Proof.
  revert a; induction l as [|b l IH]; intros a; simpl. lra.
  eapply Rle_trans; [apply (Rmax_l a b) | apply IH].
Qed.

Lemma fold_max_ge_in l a y : In y l -> y <= fold_left Rmax l a.
Proof.
  revert a; induction l as [|b l IH]; intros a H; simpl in *. tauto.
  destruct H as [H|H].
  - subst. eapply Rle_trans; [apply (Rmax_r a y) | apply fold_max_ge_init].
  - now apply IH.
Qed.

Lemma fold_max_in l a : fold_left Rmax l a = a \/ In (fold_left Rmax l a) l.
Proof.
  revert a; induction l as [|b l IH]; intros a; simpl. now left.
  destruct (IH (Rmax a b)) as [H|H].
  - rewrite H. unfold Rmax. destruct (Rle_dec a b); [right; now left | now left].
  - right; now right.
Qed.

Lemma maxl_ge g y : In y g -> y <= maxl g.
Proof.
  destruct g as [|x l]; simpl. tauto.
  intros [H|H]. subst. apply fold_max_ge_init. now apply fold_max_ge_in.
Qed.

Lemma maxl_in g : g <> [] -> In (maxl g) g.
Proof.
  destruct g as [|x l]; [congruence|]. intros _. simpl.
  destruct (fold_max_in l x) as [H|H]; [left; now rewrite H | now right].
Qed.

(* a monotone map commutes with the maximum, an antitone one turns min into max *)
Lemma fold_max_mono (f : R -> R) l a :
  (forall u v, u <= v -> f u <= f v) ->
  fold_left Rmax (map f l) (f a) = f (fold_left Rmax l a).
Proof.
  intros Hf. revert a; induction l as [|b l IH]; intros a; simpl. reflexivity.
  rewrite <- IH. f_equal.
  destruct (Rle_dec a b) as [H|H].
  - rewrite (Rmax_right a b H). apply Rmax_right. now apply Hf.
  - assert (b <= a) by lra. rewrite (Rmax_left a b H0). apply Rmax_left. now apply Hf.
Qed.

Lemma fold_max_anti (f : R -> R) l a :
  (forall u v, u <= v -> f v <= f u) ->
  fold_left Rmax (map f l) (f a) = f (fold_left Rmin l a).
Proof.
  intros Hf. revert a; induction l as [|b l IH]; intros a; simpl. reflexivity.
  rewrite <- IH. f_equal.
  destruct (Rle_dec a b) as [H|H].
  - rewrite (Rmin_left a b H). apply Rmax_left. now apply Hf.
  - assert (b <= a) by lra. rewrite (Rmin_right a b H0). apply Rmax_right. now apply Hf.
Qed.

Lemma fold_min_anti (f : R -> R) l a :
  (forall u v, u <= v -> f v <= f u) ->
  fold_left Rmin (map f l) (f a) = f (fold_left Rmax l a).
Proof.
  intros Hf. revert a; induction l as [|b l IH]; intros a; simpl. reflexivity.
  rewrite <- IH. f_equal.
  destruct (Rle_dec a b) as [H|H].
  - rewrite (Rmax_right a b H). apply Rmin_right. now apply Hf.
  - assert (b <= a) by lra. rewrite (Rmax_left a b H0). apply Rmin_left. now apply Hf.
Qed.

Lemma maxl_map_mono (f : R -> R) g :
  g <> [] -> (forall u v, u <= v -> f u <= f v) -> maxl (map f g) = f (maxl g).
Proof. destruct g; [congruence|]. intros _ Hf. simpl. now apply fold_max_mono. Qed.

Lemma maxl_map_anti (f : R -> R) g :
  g <> [] -> (forall u v, u <= v -> f v <= f u) -> maxl (map f g) = f (minl g).
Proof. destruct g; [congruence|]. intros _ Hf. simpl. now apply fold_max_anti. Qed.

Lemma minl_map_anti (f : R -> R) g :
  g <> [] -> (forall u v, u <= v -> f v <= f u) -> minl (map f g) = f (maxl g).
Proof. destruct g; [congruence|]. intros _ Hf. simpl. now apply fold_min_anti. Qed.

Lemma maxl_map_opp g : g <> [] -> maxl (map Ropp g) = - minl g.
Proof. intros. apply maxl_map_anti; auto. intros; lra. Qed.

Lemma minl_le g y : In y g -> minl g <= y.
Proof.
  intros H. assert (Hg : g <> []) by (destruct g; [destruct H | congruence]).
  assert (- y <= maxl (map Ropp g)) by (apply maxl_ge; now apply in_map).
  rewrite maxl_map_opp in H0 by assumption. lra.
Qed.

Lemma minl_in g : g <> [] -> In (minl g) g.
Proof.
  intros Hg. assert (Hm : map Ropp g <> []) by (destruct g; [congruence | discriminate]).
  generalize (maxl_in _ Hm). rewrite maxl_map_opp by assumption.
  intros H. apply in_map_iff in H. destruct H as [y [E Hy]].
  replace (minl g) with y by lra. assumption.
Qed.

(* executable twin of the extremal element on rational data *)
Lemma Q2R_Qmax a b : Q2R (Qmax a b) = Rmax (Q2R a) (Q2R b).
Proof.
  destruct (Q.max_spec a b) as [[H E]|[H E]]; rewrite (Qeq_eqR _ _ E).
  - symmetry. apply Rmax_right. apply Qle_Rle. now apply Qlt_le_weak.
  - symmetry. apply Rmax_left. now apply Qle_Rle.
Qed.

Lemma Q2R_Qmin a b : Q2R (Qmin a b) = Rmin (Q2R a) (Q2R b).
Proof.
  destruct (Q.min_spec a b) as [[H E]|[H E]]; rewrite (Qeq_eqR _ _ E).
  - symmetry. apply Rmin_left. apply Qle_Rle. now apply Qlt_le_weak.
  - symmetry. apply Rmin_right. now apply Qle_Rle.
Qed.

Lemma maxl_map_Q2R l : maxl (map Q2R l) = Q2R (maxlQ l).
Proof.
  destruct l as [|a l]; simpl. unfold Q2R; simpl; field.
  revert a; induction l as [|b l IH]; intros a; simpl. reflexivity.
  rewrite <- Q2R_Qmax. apply IH.
Qed.

Lemma minl_map_Q2R l : minl (map Q2R l) = Q2R (minlQ l).
Proof.
  destruct l as [|a l]; simpl. unfold Q2R; simpl; field.
  revert a; induction l as [|b l IH]; intros a; simpl. reflexivity.
  rewrite <- Q2R_Qmin. apply IH.
Qed.

(* ------------------------------------------------------------------ sums *)

Lemma sumR_map_nonneg {A} (f : A -> R) l : (forall x, 0 <= f x) -> 0 <= sumR (map f l).
Proof. intros H. induction l; simpl. lra. generalize (H a). lra. Qed.

Lemma sumR_map_scal {A} (f : A -> R) k l : sumR (map (fun x => k * f x) l) = k * sumR (map f l).
Proof. induction l; simpl. ring. rewrite IHl. ring. Qed.

Lemma sumR_map_div {A} (f : A -> R) k l : sumR (map (fun x => f x / k) l) = sumR (map f l) / k.
Proof. induction l; simpl. unfold Rdiv; ring. rewrite IHl. unfold Rdiv; ring. Qed.

Lemma sum_exp_pos rho g : g <> [] -> 0 < sumR (map (fun x => exp (rho * x)) g).
Proof.
  destruct g as [|x l]; [congruence|]. intros _. simpl.
  generalize (exp_pos (rho * x)).
  generalize (sumR_map_nonneg (fun x => exp (rho * x)) l (fun x => Rlt_le _ _ (exp_pos _))). lra.
Qed.

Lemma sum_exp_term_le rho g y : In y g -> exp (rho * y) <= sumR (map (fun x => exp (rho * x)) g).
Proof.
  induction g as [|x l IH]; simpl. tauto.
  intros [H|H].
  - subst.
    generalize (sumR_map_nonneg (fun x => exp (rho * x)) l (fun x => Rlt_le _ _ (exp_pos _))). lra.
  - generalize (IH H) (exp_pos (rho * x)). lra.
Qed.

Lemma exponents_ge1 rho m g : In m g -> 1 <= sumR (exponents rho m g).
Proof.
  unfold exponents. induction g as [|x l IH]; simpl. tauto.
  intros [H|H].
  - subst. replace (rho * (m - m)) with 0 by ring. rewrite exp_0.
    generalize (sumR_map_nonneg (fun x => exp (rho * (x - m))) l
                  (fun x => Rlt_le _ _ (exp_pos _))). lra.
  - generalize (IH H) (exp_pos (rho * (x - m))). lra.
Qed.

Lemma exponents_le_n rho m g :
  0 < rho -> (forall y, In y g -> y <= m) -> sumR (exponents rho m g) <= INR (length g).
Proof.
  intros Hr. unfold exponents. induction g as [|x l IH]; intros H.
  - simpl. lra.
  - cbn [map sumR length]. rewrite S_INR.
    assert (exp (rho * (x - m)) <= 1).
    { rewrite <- exp_0. destruct (Req_dec (rho * (x - m)) 0) as [E|E].
      rewrite E. lra. left. apply exp_increasing.
      assert (x <= m) by (apply H; now left). nra. }
    assert (sumR (map (fun x0 => exp (rho * (x0 - m))) l) <= INR (length l)).
    { apply IH. intros y Hy. apply H. now right. }
    lra.
Qed.

Lemma exponents_shift rho m g :
  sumR (exponents rho m g) = exp (- rho * m) * sumR (map (fun x => exp (rho * x)) g).
Proof.
  unfold exponents. rewrite <- sumR_map_scal. f_equal. apply map_ext. intros x.
  rewrite <- exp_plus. f_equal. ring.
Qed.

(* ------------------------------------------------------------------ bracket *)

Theorem ks_lower rho g : g <> [] -> 0 < rho -> maxl g <= KS rho g.
Proof.
  intros Hg Hr. unfold KS. cbv zeta.
  assert (H1 : 1 <= sumR (exponents rho (maxl g) g)) by (apply exponents_ge1; now apply maxl_in).
  assert (0 <= ln (sumR (exponents rho (maxl g) g))).
  { rewrite <- ln_1. apply ln_le; lra. }
  assert (0 < 1 / rho) by (apply Rdiv_lt_0_compat; lra).
  nra.
Qed.

Theorem ks_upper rho g :
  g <> [] -> 0 < rho -> KS rho g <= maxl g + ln (INR (length g)) / rho.
Proof.
  intros Hg Hr. unfold KS. cbv zeta.
  assert (H1 : 1 <= sumR (exponents rho (maxl g) g)) by (apply exponents_ge1; now apply maxl_in).
  assert (H2 : sumR (exponents rho (maxl g) g) <= INR (length g)).
  { apply exponents_le_n; auto. intros y Hy. now apply maxl_ge. }
  assert (ln (sumR (exponents rho (maxl g) g)) <= ln (INR (length g))) by (apply ln_le; lra).
  assert (0 < / rho) by (now apply Rinv_0_lt_compat).
  unfold Rdiv. nra.
Qed.

(* ------------------------------------------------------------------ shift invariance *)

Theorem ks_shift_invariant rho g m :
  g <> [] -> rho <> 0 -> m + 1 / rho * ln (sumR (exponents rho m g)) = LSE rho g.
Proof.
  intros Hg Hr. unfold LSE. rewrite exponents_shift.
  rewrite ln_mult by (try apply exp_pos; now apply sum_exp_pos).
  rewrite ln_exp. field. assumption.
Qed.

Corollary KS_eq_LSE rho g : g <> [] -> rho <> 0 -> KS rho g = LSE rho g.
Proof. intros. unfold KS. cbv zeta. now apply ks_shift_invariant. Qed.

(* ------------------------------------------------------------------ gradient *)

Lemma set_nth_length i t g : length (set_nth i t g) = length g.
Proof. revert i; induction g; intros [|i]; simpl; auto. Qed.

Lemma set_nth_nonempty i t g : g <> [] -> set_nth i t g <> [].
Proof. destruct g; [congruence|]. destruct i; simpl; discriminate. Qed.

Lemma set_nth_same i g d : set_nth i (nth i g d) g = g.
Proof.
  revert i; induction g as [|x l IH]; intros [|i]; simpl; auto. now rewrite IH.
Qed.

Lemma map_set_nth (f : R -> R) i t g : map f (set_nth i t g) = set_nth i (f t) (map f g).
Proof. revert i; induction g as [|x l IH]; intros [|i]; simpl; auto. now rewrite IH. Qed.

Lemma nth_map0 (f : R -> R) i g : (i < length g)%nat -> nth i (map f g) 0 = f (nth i g 0).
Proof.
  intros H. rewrite (nth_indep (map f g) 0 (f 0)) by now rewrite map_length.
  apply map_nth.
Qed.

Lemma nonempty_of_lt {A} i (g : list A) : (i < length g)%nat -> g <> [].
Proof. destruct g; simpl; [lia | discriminate]. Qed.

Lemma dsum_exp rho g i t0 :
  (i < length g)%nat ->
  is_derive (fun t => sumR (map (fun x => exp (rho * x)) (set_nth i t g))) t0
            (rho * exp (rho * t0)).
Proof.
  revert i; induction g as [|x l IH]; intros i Hi; simpl in Hi. lia.
  destruct i as [|i]; cbn [set_nth map sumR].
  - auto_derive. trivial. ring.
  - evar_last. apply @is_derive_plus. apply @is_derive_const. apply IH. lia.
    unfold plus, zero; simpl. ring.
Qed.

Lemma dLSE rho g i t0 :
  (i < length g)%nat -> rho <> 0 ->
  is_derive (fun t => LSE rho (set_nth i t g)) t0
            (exp (rho * t0) / sumR (map (fun x => exp (rho * x)) (set_nth i t0 g))).
Proof.
  intros Hi Hr. unfold LSE.
  assert (Hp : 0 < sumR (map (fun x => exp (rho * x)) (set_nth i t0 g))).
  { apply sum_exp_pos. apply set_nth_nonempty. now apply (nonempty_of_lt i). }
  evar_last.
  apply is_derive_scal.
  apply (is_derive_comp1 ln (fun t => sumR (map (fun x => exp (rho * x)) (set_nth i t g)))).
  apply is_derive_ln. exact Hp. now apply dsum_exp.
  field. split; lra.
Qed.

Lemma KS_dg_softmax rho g : g <> [] -> rho <> 0 -> KS_dg rho g = softmax rho g.
Proof.
  intros Hg Hr. unfold KS_dg, softmax. cbv zeta. unfold exponents at 2. rewrite map_map.
  apply map_ext. intros x. rewrite exponents_shift.
  generalize (sum_exp_pos rho g Hg). intros Hp.
  replace (rho * (x - maxl g)) with (- rho * maxl g + rho * x) by ring.
  rewrite exp_plus. generalize (exp_pos (- rho * maxl g)). intros He.
  field. repeat split; lra.
Qed.

Theorem ks_grad rho g i :
  (i < length g)%nat -> 0 < rho ->
  is_derive (fun t => KS rho (set_nth i t g)) (nth i g 0) (nth i (KS_dg rho g) 0).
Proof.
  intros Hi Hr. assert (Hg : g <> []) by now apply (nonempty_of_lt i).
  assert (Hr0 : rho <> 0) by lra.
  apply is_derive_ext with (f := fun t => LSE rho (set_nth i t g)).
  { intros t. symmetry. apply KS_eq_LSE; auto. now apply set_nth_nonempty. }
  evar_last. apply dLSE; auto.
  rewrite set_nth_same. rewrite KS_dg_softmax by assumption.
  unfold softmax. cbv zeta.
  rewrite (nth_map0 (fun x => exp (rho * x) / sumR (map (fun x0 => exp (rho * x0)) g))) by assumption.
  reflexivity.
Qed.

Theorem ks_grad_sum rho g : g <> [] -> 0 < rho -> sumR (KS_dg rho g) = 1.
Proof.
  intros Hg Hr. rewrite KS_dg_softmax by (auto; lra). unfold softmax. cbv zeta.
  rewrite (sumR_map_div (fun x => exp (rho * x))).
  generalize (sum_exp_pos rho g Hg). intros. field. lra.
Qed.

Theorem ks_grad_range rho g w : g <> [] -> 0 < rho -> In w (KS_dg rho g) -> 0 < w <= 1.
Proof.
  intros Hg Hr. rewrite KS_dg_softmax by (auto; lra). unfold softmax. cbv zeta.
  intros H. apply in_map_iff in H. destruct H as [y [E Hy]]. subst w.
  generalize (sum_exp_pos rho g Hg) (sum_exp_term_le rho g y Hy) (exp_pos (rho * y)).
  intros Hp Hle He. split.
  - now apply Rdiv_lt_0_compat.
  - apply (Rmult_le_reg_r (sumR (map (fun x => exp (rho * x)) g))); auto.
    unfold Rdiv. rewrite Rmult_assoc, Rinv_l by lra. lra.
Qed.

(* derivative along an affine reparametrisation of the i-th entry *)
Lemma ks_grad_affine rho c i a b t0 :
  (i < length c)%nat -> 0 < rho -> nth i c 0 = a * t0 + b ->
  is_derive (fun t => KS rho (set_nth i (a * t + b) c)) t0 (nth i (KS_dg rho c) 0 * a).
Proof.
  intros Hi Hr E.
  apply (is_derive_comp1 (fun u => KS rho (set_nth i u c)) (fun t => a * t + b)).
  - rewrite <- E. now apply ks_grad.
  - auto_derive. trivial. ring.
Qed.

(* ------------------------------------------------------------------ KSComp *)

Lemma con_val_length mn lw up g : length (con_val mn lw up g) = length g.
Proof. unfold con_val. destruct mn, lw; now rewrite ?map_length. Qed.

Lemma con_val_nonempty mn lw up g : g <> [] -> con_val mn lw up g <> [].
Proof.
  intros H E. apply H. apply length_zero_iff_nil.
  rewrite <- (con_val_length mn lw up g), E. reflexivity.
Qed.

(* con_val is the entrywise affine map x |-> s * (x - upper), s = +-1 *)
Definition con_sign (mn lw : bool) : R := if xorb mn lw then -1 else 1.

Lemma con_val_map mn lw up g :
  con_val mn lw up g = map (fun x => con_sign mn lw * x + - con_sign mn lw * up) g.
Proof.
  unfold con_val, con_sign. destruct mn, lw; cbn [xorb]; rewrite ?map_map;
    apply map_ext; intros; ring.
Qed.

Theorem kscomp_grad mn lw up rho g i :
  (i < length g)%nat -> 0 < rho ->
  is_derive (fun t => kscomp_out mn lw up rho (set_nth i t g)) (nth i g 0)
            (nth i (kscomp_partials mn lw up rho g) 0).
Proof.
  intros Hi Hr.
  set (s := con_sign mn lw).
  set (c := con_val mn lw up g).
  assert (Hc : (i < length c)%nat) by (unfold c; now rewrite con_val_length).
  assert (Hn : nth i c 0 = s * nth i g 0 + - s * up).
  { unfold c. rewrite con_val_map. now rewrite (nth_map0 (fun x => s * x + - s * up)). }
  assert (HD : is_derive (fun t => KS rho (con_val mn lw up (set_nth i t g))) (nth i g 0)
                         (nth i (KS_dg rho c) 0 * s)).
  { apply is_derive_ext with (f := fun t => KS rho (set_nth i (s * t + - s * up) c)).
    - intros t. f_equal. unfold c. rewrite !con_val_map.
      now rewrite (map_set_nth (fun x => s * x + - s * up)).
    - now apply ks_grad_affine. }
  assert (Hd : (i < length (KS_dg rho c))%nat).
  { unfold KS_dg. cbv zeta. unfold exponents. now rewrite !map_length. }
  unfold kscomp_out, kscomp_partials. cbv zeta. fold c.
  destruct mn, lw; unfold s, con_sign in HD; cbn [xorb] in HD.
  - (* minimum, lower_flag *)
    evar_last. apply @is_derive_opp. exact HD.
    rewrite (nth_map0 Ropp) by assumption. unfold opp; simpl. ring.
  - (* minimum *)
    evar_last. apply @is_derive_opp. exact HD. unfold opp; simpl. ring.
  - (* lower_flag *)
    evar_last. exact HD. rewrite (nth_map0 Ropp) by assumption. ring.
  - evar_last. exact HD. ring.
Qed.

(* the four brackets, stated on the original constraint values g *)
Lemma maxl_shift up g : g <> [] -> maxl (map (fun x => x - up) g) = maxl g - up.
Proof. intros. apply (maxl_map_mono (fun x => x - up)); auto. intros; lra. Qed.

Lemma con_val_ff up g : con_val false false up g = map (fun x => x - up) g.
Proof. reflexivity. Qed.

Theorem kscomp_bracket_max up rho g :
  g <> [] -> 0 < rho ->
  maxl g - up <= kscomp_out false false up rho g <= maxl g - up + ln (INR (length g)) / rho.
Proof.
  intros Hg Hr. unfold kscomp_out. cbv zeta. rewrite con_val_ff.
  assert (Hm : map (fun x => x - up) g <> []) by (destruct g; [congruence | discriminate]).
  generalize (ks_lower rho _ Hm Hr) (ks_upper rho _ Hm Hr).
  rewrite map_length, maxl_shift by assumption. lra.
Qed.

Theorem kscomp_bracket_min up rho g :
  g <> [] -> 0 < rho ->
  minl g - up - ln (INR (length g)) / rho <= kscomp_out true false up rho g <= minl g - up.
Proof.
  intros Hg Hr. unfold kscomp_out, con_val. cbv zeta.
  assert (Hm : map (fun x => x - up) g <> []) by (destruct g; [congruence | discriminate]).
  assert (Hm' : map Ropp (map (fun x => x - up) g) <> [])
    by (destruct g; [congruence | discriminate]).
  generalize (ks_lower rho _ Hm' Hr) (ks_upper rho _ Hm' Hr).
  rewrite !map_length. rewrite map_map.
  rewrite (maxl_map_anti (fun x => - (x - up))) by (auto; intros; lra). lra.
Qed.

Theorem kscomp_bracket_lower up rho g :
  g <> [] -> 0 < rho ->
  up - minl g <= kscomp_out false true up rho g <= up - minl g + ln (INR (length g)) / rho.
Proof.
  intros Hg Hr. unfold kscomp_out, con_val. cbv zeta.
  assert (Hm' : map Ropp (map (fun x => x - up) g) <> [])
    by (destruct g; [congruence | discriminate]).
  generalize (ks_lower rho _ Hm' Hr) (ks_upper rho _ Hm' Hr).
  rewrite !map_length. rewrite map_map.
  rewrite (maxl_map_anti (fun x => - (x - up))) by (auto; intros; lra). lra.
Qed.

(* both flags: the documented "negative of the aggregated max" *)
Theorem kscomp_bracket_both up rho g :
  g <> [] -> 0 < rho ->
  - (maxl g - up) - ln (INR (length g)) / rho <= kscomp_out true true up rho g <= - (maxl g - up).
Proof.
  intros Hg Hr. unfold kscomp_out, con_val. cbv zeta.
  assert (Hm' : map Ropp (map Ropp (map (fun x => x - up) g)) <> [])
    by (destruct g; [congruence | discriminate]).
  generalize (ks_lower rho _ Hm' Hr) (ks_upper rho _ Hm' Hr).
  rewrite !map_length. rewrite !map_map.
  rewrite (maxl_map_mono (fun x => - - (x - up))) by (auto; intros; lra). lra.
Qed.

(* ------------------------------------------------------------------ declared pattern *)

Lemma ks_rows_length v w : length (ks_rows v w) = (v * w)%nat.
Proof.
  unfold ks_rows. generalize 0%nat. induction v; intros s; simpl. reflexivity.
  rewrite app_length, repeat_length, IHv. reflexivity.
Qed.

Lemma ks_rows_nth_gen v w s k :
  (0 < w)%nat -> (k < v * w)%nat ->
  nth k (flat_map (fun r => repeat r w) (seq s v)) 0%nat = (s + k / w)%nat.
Proof.
  intros Hw. revert s k. induction v; intros s k Hk; simpl in *. lia.
  destruct (Nat.lt_ge_cases k w) as [H|H].
  - rewrite app_nth1 by now rewrite repeat_length.
    rewrite Nat.div_small by assumption.
    rewrite Nat.add_0_r.
    rewrite (nth_indep _ 0%nat s) by now rewrite repeat_length.
    apply nth_repeat.
  - rewrite app_nth2 by now rewrite repeat_length.
    rewrite repeat_length. rewrite IHv by lia.
    replace k with ((k - w) + 1 * w)%nat at 2 by lia.
    rewrite Nat.div_add by lia. lia.
Qed.

Theorem ks_pattern v w k :
  (0 < w)%nat -> (k < v * w)%nat ->
  nth k (ks_rows v w) 0%nat = (k / w)%nat /\ nth k (ks_cols v w) 0%nat = k.
Proof.
  intros Hw Hk. split.
  - unfold ks_rows. now rewrite ks_rows_nth_gen.
  - unfold ks_cols. now rewrite seq_nth.
Qed.

(* ------------------------------------------------------------------ jax ks_max / ks_min *)

Lemma jax_ks_max_eq rho x : jax_ks_max rho x = KS rho x.
Proof. reflexivity. Qed.

Lemma jax_ks_min_eq rho x : x <> [] -> jax_ks_min rho x = - KS rho (map Ropp x).
Proof.
  intros Hx. unfold jax_ks_min, KS, exponents. cbv zeta.
  rewrite maxl_map_opp by assumption. rewrite map_map.
  replace (map (fun x0 => exp (rho * (- x0 - - minl x))) x)
    with (map (fun v => exp (rho * (minl x - v))) x)
    by (apply map_ext; intros; f_equal; ring).
  ring.
Qed.

Theorem jax_ks_max_bracket rho x :
  x <> [] -> 0 < rho ->
  maxl x <= jax_ks_max rho x <= maxl x + ln (INR (length x)) / rho.
Proof. intros. rewrite jax_ks_max_eq. split; [now apply ks_lower | now apply ks_upper]. Qed.

Theorem jax_ks_min_bracket rho x :
  x <> [] -> 0 < rho ->
  minl x - ln (INR (length x)) / rho <= jax_ks_min rho x <= minl x.
Proof.
  intros Hx Hr. rewrite jax_ks_min_eq by assumption.
  assert (Hm : map Ropp x <> []) by (destruct x; [congruence | discriminate]).
  generalize (ks_lower rho _ Hm Hr) (ks_upper rho _ Hm Hr).
  rewrite map_length, maxl_map_opp by assumption. lra.
Qed.

Lemma jax_ks_max_grad_eq rho x : x <> [] -> rho <> 0 -> jax_ks_max_grad rho x = KS_dg rho x.
Proof.
  intros Hx Hr. unfold jax_ks_max_grad, KS_dg, exponents. cbv zeta. rewrite map_map.
  apply map_ext. intros v.
  assert (0 < sumR (map (fun v0 => exp (rho * (v0 - maxl x))) x)).
  { fold (exponents rho (maxl x) x). rewrite exponents_shift.
    apply Rmult_lt_0_compat. apply exp_pos. now apply sum_exp_pos. }
  field. split; lra.
Qed.

Theorem jax_ks_max_grad_correct rho x i :
  (i < length x)%nat -> 0 < rho ->
  is_derive (fun t => jax_ks_max rho (set_nth i t x)) (nth i x 0)
            (nth i (jax_ks_max_grad rho x) 0).
Proof.
  intros Hi Hr. rewrite jax_ks_max_grad_eq by (try lra; now apply (nonempty_of_lt i)).
  now apply ks_grad.
Qed.

Lemma jax_ks_min_grad_eq rho x :
  x <> [] -> rho <> 0 -> jax_ks_min_grad rho x = KS_dg rho (map Ropp x).
Proof.
  intros Hx Hr. unfold jax_ks_min_grad, KS_dg, exponents. cbv zeta.
  rewrite maxl_map_opp by assumption. rewrite !map_map.
  replace (map (fun x0 => exp (rho * (- x0 - - minl x))) x)
    with (map (fun v => exp (rho * (minl x - v))) x)
    by (apply map_ext; intros; f_equal; ring).
  apply map_ext. intros v.
  assert (0 < sumR (map (fun v0 => exp (rho * (minl x - v0))) x)).
  { destruct x as [|a l]; [congruence|]. cbn [map sumR].
    generalize (exp_pos (rho * (minl (a :: l) - a))).
    generalize (sumR_map_nonneg (fun v0 => exp (rho * (minl (a :: l) - v0))) l
                  (fun x => Rlt_le _ _ (exp_pos _))). lra. }
  replace (rho * (- v - - minl x)) with (rho * (minl x - v)) by ring.
  field. split; lra.
Qed.

Theorem jax_ks_min_grad_correct rho x i :
  (i < length x)%nat -> 0 < rho ->
  is_derive (fun t => jax_ks_min rho (set_nth i t x)) (nth i x 0)
            (nth i (jax_ks_min_grad rho x) 0).
Proof.
  intros Hi Hr. assert (Hx : x <> []) by now apply (nonempty_of_lt i).
  rewrite jax_ks_min_grad_eq by (auto; lra).
  apply is_derive_ext with
    (f := fun t => - KS rho (set_nth i (-1 * t + 0) (map Ropp x))).
  { intros t. rewrite jax_ks_min_eq by now apply set_nth_nonempty.
    rewrite (map_set_nth Ropp). do 3 f_equal. ring. }
  evar_last. apply @is_derive_opp.
  apply ks_grad_affine; auto. now rewrite map_length.
  rewrite (nth_map0 Ropp) by assumption. ring.
  unfold opp; simpl. ring.
Qed.

(* ------------------------------------------------------------------ non-vacuity *)

Example ks_premises_satisfiable :
  exists (rho : R) (g : list R), g <> [] /\ 0 < rho /\ (1 < length g)%nat.
Proof. exists 50, [1; 2]. repeat split; try lra; try discriminate. simpl; lia. Qed.
