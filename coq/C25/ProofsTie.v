(* C25 — lemmas and tactics used by the generated correspondence goals (work/C25_*/ks_*.v).
   By shift invariance the shifted log-sum-exp may be evaluated with ANY shift m; the goals use
   the (rational) extremum computed by the harness, so that every exponential is <= 1 and the
   Interval tactic needs no case analysis on Rmax. *)
From Coq Require Import Reals QArith Qreals ZArith List Bool Lia Lra.
From Coquelicot Require Import Coquelicot.
From Interval Require Import Tactic.
From OMV Require Import Expr.Expr Expr.ExprProofs C25.Model C25.Proofs.
Import ListNotations.
Open Scope R_scope.

Lemma KS_shift_any rho g m :
  g <> [] -> rho <> 0 -> KS rho g = m + 1 / rho * ln (sumR (exponents rho m g)).
Proof.
  intros Hg Hr. rewrite KS_eq_LSE by assumption. symmetry. now apply ks_shift_invariant.
Qed.

Lemma exponents_pos rho m g : g <> [] -> 0 < sumR (exponents rho m g).
Proof.
  intros Hg. rewrite exponents_shift. apply Rmult_lt_0_compat. apply exp_pos.
  now apply sum_exp_pos.
Qed.

Lemma KS_dg_shift_any rho g m :
  g <> [] -> rho <> 0 ->
  KS_dg rho g = map (fun x => exp (rho * (x - m)) / sumR (exponents rho m g)) g.
Proof.
  intros Hg Hr. rewrite KS_dg_softmax by assumption. unfold softmax. cbv zeta.
  apply map_ext. intros x. rewrite exponents_shift.
  generalize (sum_exp_pos rho g Hg) (exp_pos (- rho * m)). intros Hp He.
  replace (rho * (x - m)) with (- rho * m + rho * x) by ring. rewrite exp_plus.
  field. split; lra.
Qed.

Definition sgn (b : bool) : R := if b then -1 else 1.

Lemma kscomp_out_shift mn lw up rho g m :
  g <> [] -> rho <> 0 ->
  kscomp_out mn lw up rho g =
  sgn mn * (m + 1 / rho * ln (sumR (exponents rho m (con_val mn lw up g)))).
Proof.
  intros Hg Hr. unfold kscomp_out. cbv zeta.
  rewrite (KS_shift_any rho _ m) by (auto; now apply con_val_nonempty).
  destruct mn; unfold sgn; ring.
Qed.

Lemma kscomp_partials_shift mn lw up rho g m :
  g <> [] -> rho <> 0 ->
  kscomp_partials mn lw up rho g =
  map (fun c => sgn lw * (exp (rho * (c - m)) / sumR (exponents rho m (con_val mn lw up g))))
      (con_val mn lw up g).
Proof.
  intros Hg Hr. unfold kscomp_partials. cbv zeta.
  rewrite (KS_dg_shift_any rho _ m) by (auto; now apply con_val_nonempty).
  destruct lw; unfold sgn.
  - rewrite map_map. apply map_ext. intros; ring.
  - apply map_ext. intros; ring.
Qed.

Lemma jax_ks_max_shift rho x m :
  x <> [] -> rho <> 0 ->
  jax_ks_max rho x = m + 1 / rho * ln (sumR (map (fun v => exp (rho * (v - m))) x)).
Proof. intros. rewrite jax_ks_max_eq. now apply KS_shift_any. Qed.

Lemma jax_ks_min_shift rho x m :
  x <> [] -> rho <> 0 ->
  jax_ks_min rho x = m - 1 / rho * ln (sumR (map (fun v => exp (rho * (m - v))) x)).
Proof.
  intros Hx Hr. rewrite jax_ks_min_eq by assumption.
  assert (Hm : map Ropp x <> []) by (destruct x; [congruence | discriminate]).
  rewrite (KS_shift_any rho _ (- m)) by assumption.
  unfold exponents. rewrite map_map.
  replace (map (fun x0 => exp (rho * (- x0 - - m))) x)
    with (map (fun v => exp (rho * (m - v))) x)
    by (apply map_ext; intros; f_equal; ring).
  ring.
Qed.

Lemma jax_ks_max_grad_shift rho x m :
  x <> [] -> rho <> 0 ->
  jax_ks_max_grad rho x =
  map (fun v => exp (rho * (v - m)) / sumR (map (fun v0 => exp (rho * (v0 - m))) x)) x.
Proof.
  intros. rewrite jax_ks_max_grad_eq by assumption. now apply KS_dg_shift_any.
Qed.

Lemma jax_ks_min_grad_shift rho x m :
  x <> [] -> rho <> 0 ->
  jax_ks_min_grad rho x =
  map (fun v => exp (rho * (m - v)) / sumR (map (fun v0 => exp (rho * (m - v0))) x)) x.
Proof.
  intros Hx Hr. rewrite jax_ks_min_grad_eq by assumption.
  assert (Hm : map Ropp x <> []) by (destruct x; [congruence | discriminate]).
  rewrite (KS_dg_shift_any rho _ (- m)) by assumption.
  unfold exponents. rewrite !map_map.
  replace (map (fun x0 => exp (rho * (- x0 - - m))) x)
    with (map (fun v => exp (rho * (m - v))) x)
    by (apply map_ext; intros; f_equal; ring).
  apply map_ext. intros v. do 2 f_equal. ring.
Qed.

(* the same with the sum named, so that the goals of one row share one enclosure of the sum *)
Lemma kscomp_out_shiftS mn lw up rho g m S :
  S = sumR (exponents rho m (con_val mn lw up g)) ->
  g <> [] -> rho <> 0 ->
  kscomp_out mn lw up rho g = sgn mn * (m + 1 / rho * ln S).
Proof. intros ->. apply kscomp_out_shift. Qed.

Lemma kscomp_partials_shiftS mn lw up rho g m S :
  S = sumR (exponents rho m (con_val mn lw up g)) ->
  g <> [] -> rho <> 0 ->
  kscomp_partials mn lw up rho g =
  map (fun c => sgn lw * (exp (rho * (c - m)) / S)) (con_val mn lw up g).
Proof. intros ->. apply kscomp_partials_shift. Qed.

(* --- tactics for the generated goals --- *)
Ltac q_nonzero := unfold Q2R; cbn [Qnum Qden]; lra.

Ltac ks_expose :=
  unfold con_val, exponents, sgn;
  cbn [map sumR nth];
  unfold Q2R; cbn [Qnum Qden].

Ltac ks_sum_bounds S :=
  unfold S; ks_expose; split; first [ interval | interval with (i_prec 100) ].
Ltac ks_closeS S := clearbody S; ks_expose; first [ interval | interval with (i_prec 100) ].
Ltac ks_close := ks_expose; first [ interval | interval with (i_prec 90) ].
