(* C25 — property theorems (statements only; proofs by [exact] of lemmas in Proofs.v). *)
From Coq Require Import Reals QArith Qreals List.
From Coquelicot Require Import Coquelicot.
From OMV Require Import C25.Model C25.Proofs C25.ProofsRho.
Import ListNotations.
Open Scope R_scope.

(* KSfunction.compute brackets the maximum: for every non-empty list and every rho > 0 *)
Theorem C25_ks_lower : forall rho g, g <> [] -> 0 < rho -> maxl g <= KS rho g.
Proof. exact ks_lower. Qed.
Print Assumptions C25_ks_lower.

Theorem C25_ks_upper : forall rho g,
  g <> [] -> 0 < rho -> KS rho g <= maxl g + ln (INR (length g)) / rho.
Proof. exact ks_upper. Qed.
Print Assumptions C25_ks_upper.

(* the shift by the maximum (or by any m) does not change the value: it is the log-sum-exp *)
Theorem C25_ks_shift_invariant : forall rho g m,
  g <> [] -> rho <> 0 -> m + 1 / rho * ln (sumR (exponents rho m g)) = LSE rho g.
Proof. exact ks_shift_invariant. Qed.
Print Assumptions C25_ks_shift_invariant.

(* KSfunction.derivatives()[0] is the gradient of KSfunction.compute, entry by entry *)
Theorem C25_ks_grad : forall rho g i,
  (i < length g)%nat -> 0 < rho ->
  is_derive (fun t => KS rho (set_nth i t g)) (nth i g 0) (nth i (KS_dg rho g) 0).
Proof. exact ks_grad. Qed.
Print Assumptions C25_ks_grad.

Theorem C25_ks_grad_is_softmax : forall rho g, g <> [] -> rho <> 0 -> KS_dg rho g = softmax rho g.
Proof. exact KS_dg_softmax. Qed.
Print Assumptions C25_ks_grad_is_softmax.

Theorem C25_ks_grad_sum : forall rho g, g <> [] -> 0 < rho -> sumR (KS_dg rho g) = 1.
Proof. exact ks_grad_sum. Qed.
Print Assumptions C25_ks_grad_sum.

Theorem C25_ks_grad_range : forall rho g w,
  g <> [] -> 0 < rho -> In w (KS_dg rho g) -> 0 < w <= 1.
Proof. exact ks_grad_range. Qed.
Print Assumptions C25_ks_grad_range.

(* KSComp.compute_partials is the derivative of KSComp.compute for all four combinations of
   minimum / lower_flag, every upper, every rho > 0, every row length *)
Theorem C25_kscomp_grad : forall mn lw up rho g i,
  (i < length g)%nat -> 0 < rho ->
  is_derive (fun t => kscomp_out mn lw up rho (set_nth i t g)) (nth i g 0)
            (nth i (kscomp_partials mn lw up rho g) 0).
Proof. exact kscomp_grad. Qed.
Print Assumptions C25_kscomp_grad.

Theorem C25_kscomp_bracket_max : forall up rho g,
  g <> [] -> 0 < rho ->
  maxl g - up <= kscomp_out false false up rho g <= maxl g - up + ln (INR (length g)) / rho.
Proof. exact kscomp_bracket_max. Qed.
Print Assumptions C25_kscomp_bracket_max.

Theorem C25_kscomp_bracket_min : forall up rho g,
  g <> [] -> 0 < rho ->
  minl g - up - ln (INR (length g)) / rho <= kscomp_out true false up rho g <= minl g - up.
Proof. exact kscomp_bracket_min. Qed.
Print Assumptions C25_kscomp_bracket_min.

Theorem C25_kscomp_bracket_lower : forall up rho g,
  g <> [] -> 0 < rho ->
  up - minl g <= kscomp_out false true up rho g <= up - minl g + ln (INR (length g)) / rho.
Proof. exact kscomp_bracket_lower. Qed.
Print Assumptions C25_kscomp_bracket_lower.

Theorem C25_kscomp_bracket_both : forall up rho g,
  g <> [] -> 0 < rho ->
  - (maxl g - up) - ln (INR (length g)) / rho <= kscomp_out true true up rho g <= - (maxl g - up).
Proof. exact kscomp_bracket_both. Qed.
Print Assumptions C25_kscomp_bracket_both.

(* declared rows / cols: entry k of the flattened partials is d KS[k / width] / d g[k] *)
Theorem C25_ks_pattern : forall v w k,
  (0 < w)%nat -> (k < v * w)%nat ->
  nth k (ks_rows v w) 0%nat = (k / w)%nat /\ nth k (ks_cols v w) 0%nat = k.
Proof. exact ks_pattern. Qed.
Print Assumptions C25_ks_pattern.

(* jax ks_max / ks_min *)
Theorem C25_jax_ks_max_bracket : forall rho x,
  x <> [] -> 0 < rho -> maxl x <= jax_ks_max rho x <= maxl x + ln (INR (length x)) / rho.
Proof. exact jax_ks_max_bracket. Qed.
Print Assumptions C25_jax_ks_max_bracket.

Theorem C25_jax_ks_min_bracket : forall rho x,
  x <> [] -> 0 < rho -> minl x - ln (INR (length x)) / rho <= jax_ks_min rho x <= minl x.
Proof. exact jax_ks_min_bracket. Qed.
Print Assumptions C25_jax_ks_min_bracket.

Theorem C25_jax_ks_max_grad : forall rho x i,
  (i < length x)%nat -> 0 < rho ->
  is_derive (fun t => jax_ks_max rho (set_nth i t x)) (nth i x 0) (nth i (jax_ks_max_grad rho x) 0).
Proof. exact jax_ks_max_grad_correct. Qed.
Print Assumptions C25_jax_ks_max_grad.

Theorem C25_jax_ks_min_grad : forall rho x i,
  (i < length x)%nat -> 0 < rho ->
  is_derive (fun t => jax_ks_min rho (set_nth i t x)) (nth i x 0) (nth i (jax_ks_min_grad rho x) 0).
Proof. exact jax_ks_min_grad_correct. Qed.
Print Assumptions C25_jax_ks_min_grad.

(* the executable rational extremum used by the correspondence goals is the model's *)
Theorem C25_extremum_rational : forall l,
  maxl (map Q2R l) = Q2R (maxlQ l) /\ minl (map Q2R l) = Q2R (minlQ l).
Proof. intro l. split; [exact (maxl_map_Q2R l) | exact (minl_map_Q2R l)]. Qed.
Print Assumptions C25_extremum_rational.

(* derivative of KSfunction.compute with respect to rho, for every non-empty list and rho > 0 *)
Theorem C25_ks_drho : forall rho g,
  g <> [] -> 0 < rho -> is_derive (fun r => KS r g) rho (KS_drho_true rho g).
Proof. exact ks_drho. Qed.
Print Assumptions C25_ks_drho.

(* KSfunction.derivatives()[1] as written (KS_drho_code) omits - ln(summation) / rho^2: it is not that
   derivative (witness: two equal entries, rho = 1); see props/C25/FINDINGS.md *)
Theorem C25_ks_drho_code_refuted :
  exists rho g, g <> [] /\ 0 < rho /\ ~ is_derive (fun r => KS r g) rho (KS_drho_code rho g).
Proof. exact ks_drho_code_refuted. Qed.
Print Assumptions C25_ks_drho_code_refuted.
