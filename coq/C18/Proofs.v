(* C18 — proofs about the statement-trace model (Model.v). *)
From Coq Require Import ZArith List Bool Arith Lia.
From OMV Require Import Base.Val Base.Tactics C18.Model.
Import ListNotations.
Open Scope Z_scope.

Definition prefix {A} (a b : list A) : Prop := exists r, b = a ++ r.

Lemma prefix_refl {A} (a : list A) : prefix a a.
Proof. exists []. now rewrite app_nil_r. Qed.

Lemma prefix_trans {A} (a b c : list A) : prefix a b -> prefix b c -> prefix a c.
Proof. intros [r ->] [s ->]. exists (r ++ s). now rewrite app_assoc. Qed.

Lemma prefix_app {A} (a r : list A) : prefix a (a ++ r).
Proof. now exists r. Qed.

Lemma prefix_nth {A} (a b : list A) i x : prefix a b -> nth_error a i = Some x -> nth_error b i = Some x.
Proof.
  intros [r ->] H. rewrite nth_error_app1; auto.
  apply nth_error_Some. congruence.
Qed.

Lemma prefix_nil {A} (b : list A) : prefix [] b.
Proof. now exists b. Qed.

Lemma prefix_of_nil {A} (a : list A) : prefix a [] -> a = [].
Proof. intros [r H]. destruct a; auto. discriminate. Qed.

(* ------------------------------------------------------------------ small facts *)

Lemma ctable_eqb_eq a b : ctable_eqb a b = true <-> a = b.
Proof. destruct a, b; cbv; split; intros; try reflexivity; try discriminate. Qed.

Lemma ctable_eqb_refl a : ctable_eqb a a = true.
Proof. now apply ctable_eqb_eq. Qed.

Lemma upd_same f t v : upd f t v t = v.
Proof. unfold upd. now rewrite ctable_eqb_refl. Qed.

Lemma upd_other f t v u : t <> u -> upd f t v u = f u.
Proof.
  intros H. unfold upd. destruct (ctable_eqb t u) eqn:E; auto.
  apply ctable_eqb_eq in E. contradiction.
Qed.

Lemma has_cons n m l : has n l = true -> has n (m :: l) = true.
Proof. unfold has. cbn. intros ->. apply orb_true_r. Qed.

Lemma has_incl n l l' : incl l l' -> has n l = true -> has n l' = true.
Proof.
  unfold has. intros I H. apply existsb_exists in H as [x [Hx E]].
  apply existsb_exists. exists x. split; auto.
Qed.

(* ------------------------------------------------------------------ growth of the committed database *)

(* d' has everything d has: tables, metadata level, rows and listed cases as prefixes *)
Definition ext (d d' : db) : Prop :=
  incl (tabs d) (tabs d') /\ (meta d <= meta d')%nat /\
  (forall t, prefix (rows d t) (rows d' t)) /\ prefix (globals d) (globals d').

Lemma ext_refl d : ext d d.
Proof. repeat split; auto using incl_refl, prefix_refl. Qed.

Lemma ext_trans a b c : ext a b -> ext b c -> ext a c.
Proof.
  intros (I1 & M1 & R1 & G1) (I2 & M2 & R2 & G2). repeat split.
  - eapply incl_tran; eauto.
  - lia.
  - intros t. eapply prefix_trans; eauto.
  - eapply prefix_trans; eauto.
Qed.

Lemma apply_ext x d : ext d (apply x d).
Proof.
  destruct x; try apply ext_refl; unfold ext; cbn [apply tabs meta rows globals].
  - repeat split; auto using incl_refl, prefix_refl, incl_tl.
  - repeat split; auto using incl_refl, prefix_refl. lia.
  - repeat split; auto using incl_refl, prefix_refl. destruct (1 <=? meta d)%nat; lia.
  - repeat split; auto using incl_refl, prefix_refl.
    intros u. unfold upd. destruct (ctable_eqb t u) eqn:E.
    + apply ctable_eqb_eq in E. subst. apply prefix_app.
    + apply prefix_refl.
  - repeat split; auto using incl_refl, prefix_refl. apply prefix_app.
Qed.

Lemma ext_opens d d' : ext d d' -> opens d = true -> opens d' = true.
Proof.
  intros (I & M & _ & _). unfold opens. rewrite !andb_true_iff.
  intros [Hm Ht]. split.
  - apply Nat.leb_le in Hm. apply Nat.leb_le. lia.
  - rewrite forallb_forall in *. intros n Hn. eapply has_incl; eauto.
Qed.

Lemma ext_read d d' g p : ext d d' -> read_case d g = Some p -> read_case d' g = Some p.
Proof.
  intros (_ & _ & R & _). unfold read_case.
  destruct (snd g <=? 0); auto.
  destruct (nth_error (rows d (fst g)) (Z.to_nat (snd g - 1))) eqn:E; try discriminate.
  rewrite (prefix_nth _ _ _ _ (R (fst g)) E). auto.
Qed.

(* ------------------------------------------------------------------ the invariant *)

Definition ids_ok (d : db) : Prop :=
  forall t i x, nth_error (rows d t) i = Some x -> fst x = Z.of_nat i + 1.

Definition all_readable (d : db) : Prop :=
  forall g, In g (globals d) -> exists p, read_case d g = Some p.

Definition empty_cases (d : db) : Prop := globals d = [] /\ forall t, rows d t = [].

Record Inv (w : wst) : Prop := mkInv {
  i_ext : ext (comm (w_st w)) (view (w_st w));
  i_ids_c : ids_ok (comm (w_st w));
  i_ids_v : ids_ok (view (w_st w));
  i_read_c : all_readable (comm (w_st w));
  i_read_v : all_readable (view (w_st w));
  i_await : forall t r, w_await w = Some (t, r) ->
              pend (w_st w) <> None /\ opens (comm (w_st w)) = true /\
              exists p, read_case (view (w_st w)) (t, r) = Some p;
  i_noaw : pend (w_st w) = None -> w_await w = None;
  i_start : opens (comm (w_st w)) = false -> empty_cases (view (w_st w)) /\ empty_cases (comm (w_st w))
}.

Lemma inv0 : Inv w0.
Proof.
  constructor; cbn.
  - apply ext_refl.
  - intros t i x H. destruct i; discriminate.
  - intros t i x H. destruct i; discriminate.
  - intros g [].
  - intros g [].
  - intros t r H. discriminate.
  - auto.
  - intros _. repeat split; auto.
Qed.

Lemma ids_ok_apply x d : ids_ok d -> ids_ok (apply x d).
Proof.
  intros H. destruct x; cbn; auto.
  intros u i x Hn. cbn in Hn. unfold upd in Hn.
  destruct (ctable_eqb t u) eqn:E.
  - apply ctable_eqb_eq in E. subst u.
    destruct (Nat.lt_ge_cases i (length (rows d t))) as [L | L].
    + rewrite nth_error_app1 in Hn by auto. eapply H; eauto.
    + rewrite nth_error_app2 in Hn by auto.
      destruct (i - length (rows d t))%nat eqn:D.
      * cbn in Hn. inversion Hn. subst x. cbn. unfold next_id. lia.
      * cbn in Hn. destruct n; discriminate.
  - eapply H; eauto.
Qed.

Lemma read_case_apply x d g p : read_case d g = Some p -> read_case (apply x d) g = Some p.
Proof. apply ext_read, apply_ext. Qed.

Lemma read_new_case d t p : ids_ok d ->
  read_case (apply (SInsertCase t p) d) (t, next_id (rows d t)) = Some p.
Proof.
  intros H. unfold read_case. cbn [fst snd].
  assert (next_id (rows d t) <=? 0 = false) as -> by (unfold next_id; lia).
  cbn [apply rows]. rewrite upd_same.
  assert (Z.to_nat (next_id (rows d t) - 1) = length (rows d t)) as -> by (unfold next_id; lia).
  rewrite nth_error_app2 by lia. rewrite Nat.sub_diag. cbn.
  now rewrite Z.eqb_refl.
Qed.

Lemma all_readable_apply x d :
  (forall t r, x <> SInsertGlobal t r) -> all_readable d -> all_readable (apply x d).
Proof.
  intros Hx H g Hg.
  assert (In g (globals d)) as Hg'.
  { destruct x; cbn in Hg; auto. exfalso. eapply Hx; eauto. }
  destruct (H g Hg') as [p Hp]. exists p. now apply read_case_apply.
Qed.

Lemma empty_cases_apply x d :
  (forall t p, x <> SInsertCase t p) -> (forall t r, x <> SInsertGlobal t r) ->
  empty_cases d -> empty_cases (apply x d).
Proof.
  intros H1 H2 [G R]. destruct x; cbn; try (split; assumption).
  - exfalso. eapply H1; eauto.
  - exfalso. eapply H2; eauto.
Qed.

Lemma opens_false_ext d d' : ext d d' -> opens d' = false -> opens d = false.
Proof.
  intros E H. destruct (opens d) eqn:O; auto.
  rewrite (ext_opens _ _ E O) in H. discriminate.
Qed.

Lemma globals_apply_global t r d : globals (apply (SInsertGlobal t r) d) = globals d ++ [(t, r)].
Proof. reflexivity. Qed.

Lemma globals_apply_other x d :
  (forall t r, x <> SInsertGlobal t r) -> globals (apply x d) = globals d.
Proof. intros H. destruct x; cbn; auto. exfalso. eapply H; eauto. Qed.

Lemma rows_apply_other x d :
  (forall t p, x <> SInsertCase t p) -> rows (apply x d) = rows d.
Proof. intros H. destruct x; cbn; auto. exfalso. eapply H; eauto. Qed.

Lemma opens_apply x d : opens d = true -> opens (apply x d) = true.
Proof. apply ext_opens, apply_ext. Qed.

Lemma apply_ctl_id x d :
  match x with SBegin | SCommit | SRollback | SIndex | SInsertAux _ | SOther => apply x d = d | _ => True end.
Proof. destruct x; auto. Qed.

(* statements that write data (everything but transaction control) *)
Definition is_write (x : stmt) : bool :=
  match x with SBegin | SCommit | SRollback => false | _ => true end.

Lemma exec_write x s : is_write x = true ->
  exec x s = match pend s with
             | Some p => mkst (comm s) (Some (apply x p))
             | None => mkst (apply x (comm s)) None
             end.
Proof. destruct x; cbn; intros; try discriminate; reflexivity. Qed.

(* a write that is neither a case nor a global INSERT keeps the invariant *)
Lemma inv_plain_write x w :
  is_write x = true ->
  (forall t p, x <> SInsertCase t p) -> (forall t r, x <> SInsertGlobal t r) ->
  Inv w -> Inv (mkw (exec x (w_st w)) (w_await w)).
Proof.
  intros W H1 H2 I. rewrite (exec_write _ _ W).
  destruct w as [[c pd] aw]. destruct I as [Iext Iidc Iidv Irc Irv Iaw Inoaw Istart].
  cbn [w_st w_await comm pend view] in *.
  destruct pd as [p|]; cbn [w_st w_await comm pend view] in *.
  - constructor; cbn [w_st w_await comm pend view]; auto.
    + eapply ext_trans; eauto. apply apply_ext.
    + apply ids_ok_apply; auto.
    + apply all_readable_apply; auto.
    + intros t r E. destruct (Iaw t r E) as (A & B & [q C]). repeat split; auto.
      * discriminate.
      * exists q. now apply read_case_apply.
    + intros E; discriminate.
    + intros O. destruct (Istart O) as [A B]. split; auto. apply empty_cases_apply; auto.
  - constructor; cbn [w_st w_await comm pend view]; auto using ext_refl.
    + apply ids_ok_apply; auto.
    + apply ids_ok_apply; auto.
    + apply all_readable_apply; auto.
    + apply all_readable_apply; auto.
    + intros t r E. rewrite (Inoaw eq_refl) in E. discriminate.
    + intros O. assert (opens c = false) as Oc.
      { eapply opens_false_ext; [apply (apply_ext x) | exact O]. }
      destruct (Istart Oc) as [A B]. split; apply empty_cases_apply; auto.
Qed.

Lemma exec_ext x s : ext (comm s) (comm (exec x s)) \/ (exists p, pend s = Some p /\ comm (exec x s) = p).
Proof.
  destruct s as [c pd].
  destruct x; destruct pd as [p|]; cbn [exec comm pend];
    try (left; apply ext_refl); try (left; apply apply_ext).
  right. eauto.
Qed.

(* one checked step preserves the invariant and only extends the committed database *)
Lemma wf_step_inv x w w' :
  wf_step x w = Some w' -> Inv w ->
  Inv w' /\ ext (comm (w_st w)) (comm (w_st w')) /\ w_st w' = exec x (w_st w).
Proof.
  unfold wf_step. destruct (step_ok x w) eqn:OK; try discriminate.
  intros H I. inversion H; subst w'; clear H. cbn [w_st w_await].
  split; [| split; [| reflexivity]].
  2: { destruct (exec_ext x (w_st w)) as [E | (p & Hp & E)]; auto.
       rewrite E. pose proof (i_ext _ I) as X. unfold view in X. now rewrite Hp in X. }
  destruct x; cbn [next_await];
    try (apply inv_plain_write; [reflexivity | intros; discriminate | intros; discriminate | exact I]).
  - (* SBegin *)
    destruct w as [[c pd] aw]. destruct I as [Iext Iidc Iidv Irc Irv Iaw Inoaw Istart].
    cbn [step_ok next_await exec w_st w_await comm pend view] in *.
    destruct pd; cbn in OK; try discriminate. cbn [w_st w_await comm pend view] in *.
    constructor; cbn [w_st w_await comm pend view]; auto using ext_refl;
      try (intros t r E; rewrite (Inoaw eq_refl) in E; discriminate); try (intros E; discriminate).
  - (* SCommit *)
    destruct w as [[c pd] aw]. destruct I as [Iext Iidc Iidv Irc Irv Iaw Inoaw Istart].
    cbn [step_ok next_await exec w_st w_await comm pend view] in *.
    destruct pd as [p|]; cbn in OK; try discriminate.
    destruct aw; cbn in OK; try discriminate. cbn [w_st w_await comm pend view] in *.
    constructor; cbn [w_st w_await comm pend view]; auto using ext_refl.
    + intros t r E. discriminate.
    + intros O. destruct (opens c) eqn:Oc.
      * rewrite (ext_opens _ _ Iext Oc) in O. discriminate.
      * destruct (Istart eq_refl) as [A _]. split; auto.
  - (* SRollback *)
    destruct w as [[c pd] aw]. destruct I as [Iext Iidc Iidv Irc Irv Iaw Inoaw Istart].
    cbn [step_ok next_await exec w_st w_await comm pend view] in *.
    constructor; cbn [w_st w_await comm pend view]; auto using ext_refl.
    + intros t r E. discriminate.
    + intros O. destruct (Istart O) as [_ B]. split; exact B.
  - (* SInsertCase *)
    destruct w as [[c pd] aw]. destruct I as [Iext Iidc Iidv Irc Irv Iaw Inoaw Istart].
    cbn [step_ok next_await w_st w_await comm pend view] in *.
    destruct pd as [p|]; cbn in OK; try discriminate.
    destruct aw; cbn in OK; try discriminate.
    rewrite !andb_true_iff in OK. destruct OK as [Oc Ht].
    rewrite exec_write by reflexivity. cbn [w_st w_await comm pend view] in *.
    constructor; cbn [w_st w_await comm pend view].
    + eapply ext_trans; eauto. apply apply_ext.
    + exact Iidc.
    + apply ids_ok_apply; auto.
    + exact Irc.
    + apply all_readable_apply; auto. intros; discriminate.
    + intros t' r E. inversion E; subst t' r. repeat split; auto; try discriminate.
      exists payload. apply read_new_case; auto.
    + intros E; discriminate.
    + intros O. rewrite Oc in O. discriminate.
  - (* SInsertGlobal *)
    destruct w as [[c pd] aw]. destruct I as [Iext Iidc Iidv Irc Irv Iaw Inoaw Istart].
    cbn [step_ok next_await w_st w_await comm pend view] in *.
    destruct pd as [p|]; cbn in OK; try discriminate.
    destruct aw as [[t' r']|]; cbn in OK; try discriminate.
    rewrite andb_true_iff in OK. destruct OK as [Et Er].
    apply ctable_eqb_eq in Et. apply Z.eqb_eq in Er. subst t' r'.
    rewrite exec_write by reflexivity. cbn [w_st w_await comm pend view] in *.
    destruct (Iaw t r eq_refl) as (_ & Oc & [q Hq]).
    constructor; cbn [w_st w_await comm pend view].
    + eapply ext_trans; eauto. apply apply_ext.
    + exact Iidc.
    + apply ids_ok_apply; auto.
    + exact Irc.
    + intros g Hg. rewrite globals_apply_global in Hg. apply in_app_or in Hg as [Hg | [<- | []]].
      * destruct (Irv g Hg) as [p' Hp']. exists p'. now apply read_case_apply.
      * exists q. now apply read_case_apply.
    + intros ? ? E; discriminate.
    + intros E; discriminate.
    + intros O. rewrite Oc in O. discriminate.
Qed.

Lemma wf_run_inv t : forall w w',
  wf_run t w = Some w' -> Inv w ->
  Inv w' /\ ext (comm (w_st w)) (comm (w_st w')) /\ w_st w' = run t (w_st w).
Proof.
  induction t as [| x r IH]; cbn; intros w w' H I.
  - inversion H; subst. split; [assumption | split; [apply ext_refl | reflexivity]].
  - destruct (wf_step x w) as [w1|] eqn:S; try discriminate.
    destruct (wf_step_inv _ _ _ S I) as (I1 & E1 & R1).
    destruct (IH _ _ H I1) as (I2 & E2 & R2).
    split; [assumption | split].
    + eapply ext_trans; eauto.
    + rewrite R2, R1. reflexivity.
Qed.

Lemma wf_run_app a b : forall w,
  wf_run (a ++ b) w = match wf_run a w with Some w1 => wf_run b w1 | None => None end.
Proof.
  induction a as [| x r IH]; cbn; intros w; auto.
  destruct (wf_step x w); auto.
Qed.

(* a well-formed trace splits at every k into a checked prefix and a checked rest *)
Lemma wf_split t k :
  wf_trace t = true ->
  exists wk wend,
    wf_run (firstn k t) w0 = Some wk /\ wf_run (skipn k t) wk = Some wend /\
    wf_run t w0 = Some wend.
Proof.
  unfold wf_trace. intros H.
  assert (exists wend, wf_run t w0 = Some wend) as [wend R0].
  { destruct (wf_run t w0); [eauto | discriminate]. }
  clear H. pose proof R0 as R.
  rewrite <- (firstn_skipn k t) in R. rewrite wf_run_app in R.
  destruct (wf_run (firstn k t) w0) as [wk|] eqn:Rk; try discriminate.
  exists wk, wend. split; [reflexivity | split; [exact R | exact R0]].
Qed.

Lemma crash_facts t k :
  wf_trace t = true ->
  ext (db_after_crash t k) (db_after t) /\ all_readable (db_after_crash t k) /\
  (opens (db_after_crash t k) = false -> empty_cases (db_after_crash t k)).
Proof.
  intros H. destruct (wf_split t k H) as (wk & wend & Rk & Rr & Rt).
  destruct (wf_run_inv _ _ _ Rk inv0) as (Ik & _ & Sk).
  destruct (wf_run_inv _ _ _ Rr Ik) as (_ & Er & _).
  destruct (wf_run_inv _ _ _ Rt inv0) as (_ & _ & St).
  unfold db_after_crash, db_after. cbn [w_st w0] in Sk, St. rewrite <- Sk, <- St.
  split; [exact Er | split; [apply (i_read_c _ Ik) |]].
  intros O. apply (i_start _ Ik O).
Qed.

(* ------------------------------------------------------------------ the theorems *)

(* For every well-formed trace and every crash point: whenever the reader can open the crashed file,
   it can open the complete one, it lists a prefix of the complete listing, and every listed case is
   read from its row, with the content the complete file has for it. *)
Theorem crash_prefix : forall (t : list stmt) (k : nat) (v : list (ctable * Z)),
  wf_trace t = true ->
  reader_view (db_after_crash t k) = Some v ->
  exists vf, reader_view (db_after t) = Some vf /\ prefix v vf /\
    forall g, In g v -> exists p, read_case (db_after_crash t k) g = Some p /\
                                  read_case (db_after t) g = Some p.
Proof.
  intros t k v H. destruct (crash_facts t k H) as (E & R & _).
  unfold reader_view. destruct (opens (db_after_crash t k)) eqn:O; try discriminate.
  intros V. inversion V; subst v. rewrite (ext_opens _ _ E O).
  exists (globals (db_after t)). split; auto. split.
  - apply E.
  - intros g Hg. destruct (R g Hg) as [p Hp]. exists p. split; auto. eapply ext_read; eauto.
Qed.

(* The crashed file fails to open only while the recorder has not finished starting: no case row and no
   global_iterations row has been committed, and the same holds at every earlier crash point. *)
Lemma firstn_firstn_le {A} (l : list A) j k : (j <= k)%nat -> firstn j (firstn k l) = firstn j l.
Proof. intros. rewrite firstn_firstn. f_equal. lia. Qed.

Lemma wf_firstn t k : wf_trace t = true -> exists wk, wf_run (firstn k t) w0 = Some wk /\ Inv wk.
Proof.
  intros H. destruct (wf_split t k H) as (wk & wend & Rk & _ & _).
  exists wk. split; auto. apply (wf_run_inv _ _ _ Rk inv0).
Qed.

Lemma crash_monotone t j k :
  wf_trace t = true -> (j <= k)%nat -> ext (db_after_crash t j) (db_after_crash t k).
Proof.
  intros H L. destruct (wf_firstn t k H) as (wk & Rk & Ik).
  assert (firstn k t = firstn j t ++ skipn j (firstn k t)) as Sp.
  { rewrite <- (firstn_firstn_le t j k L). now rewrite firstn_skipn. }
  rewrite Sp, wf_run_app in Rk.
  destruct (wf_run (firstn j t) w0) as [wj|] eqn:Rj; try discriminate.
  destruct (wf_run_inv _ _ _ Rj inv0) as (Ij & _ & Sj).
  destruct (wf_run_inv _ _ _ Rk Ij) as (_ & E & Sk).
  unfold db_after_crash. rewrite Sp.
  assert (forall a b s, run (a ++ b) s = run b (run a s)) as RA.
  { induction a; cbn; auto. }
  rewrite RA. cbn in Sj. rewrite <- Sj, <- Sk. exact E.
Qed.

Theorem unreadable_only_before_start : forall (t : list stmt) (k : nat),
  wf_trace t = true ->
  reader_view (db_after_crash t k) = None ->
  forall j, (j <= k)%nat ->
    reader_view (db_after_crash t j) = None /\
    globals (db_after_crash t j) = [] /\ forall tb, rows (db_after_crash t j) tb = [].
Proof.
  intros t k H V j L.
  assert (opens (db_after_crash t k) = false) as Ok.
  { unfold reader_view in V. destruct (opens (db_after_crash t k)); congruence. }
  assert (opens (db_after_crash t j) = false) as Oj.
  { eapply opens_false_ext; [apply crash_monotone; eauto | exact Ok]. }
  destruct (crash_facts t j H) as (_ & _ & S). destruct (S Oj) as [G R].
  unfold reader_view. rewrite Oj. auto.
Qed.

(* The metadata is committed before the first case: at every case INSERT of a well-formed trace the file,
   as committed so far, already opens. *)
Theorem started_before_first_case : forall (t : list stmt) (i : nat) (tb : ctable) (p : Z),
  wf_trace t = true ->
  nth_error t i = Some (SInsertCase tb p) ->
  reader_view (db_after_crash t i) <> None.
Proof.
  intros t i tb p H N.
  destruct (wf_firstn t (S i) H) as (w' & R' & _).
  assert (firstn (S i) t = firstn i t ++ [SInsertCase tb p]) as Sp.
  { clear - N. revert t N. induction i; intros [| x t] N; cbn in *; try discriminate.
    - now inversion N.
    - f_equal. now apply IHi. }
  rewrite Sp, wf_run_app in R'.
  destruct (wf_run (firstn i t) w0) as [wi|] eqn:Ri; try discriminate.
  destruct (wf_run_inv _ _ _ Ri inv0) as (_ & _ & Si).
  cbn in R'. unfold wf_step in R'.
  destruct (step_ok (SInsertCase tb p) wi) eqn:OK; try discriminate.
  cbn in OK. rewrite !andb_true_iff in OK. destruct OK as [[_ O] _].
  unfold reader_view, db_after_crash. cbn in Si. rewrite <- Si, O. discriminate.
Qed.

(* ------------------------------------------------------------------ the independent specification *)

Lemma globals_apply_not_global x d :
  (forall t r, x <> SInsertGlobal t r) -> globals (apply x d) = globals d.
Proof. intros H. destruct x; cbn; auto. exfalso. eapply H; eauto. Qed.

(* holds for every trace, well-formed or not *)
Lemma committed_globals_run t : forall s pg,
  globals (view s) = globals (comm s) ++ pg ->
  (pend s = None -> pg = []) ->
  globals (comm (run t s)) =
  globals (comm s) ++ committed_globals_from t (negb (is_none (pend s))) pg.
Proof.
  induction t as [| x r IH]; intros s pg Hv Hn.
  - cbn. now rewrite app_nil_r.
  - destruct s as [c pd]. cbn [run].
    destruct x; cbn [exec committed_globals_from]; destruct pd as [p|];
      cbn [pend comm view negb is_none] in *;
      try (specialize (Hn eq_refl); subst pg);
      try match goal with
      | |- globals (comm (run r (mkst ?c (Some (apply ?x ?p))))) = _ ++ committed_globals_from r true ?pg' =>
          apply (IH (mkst c (Some (apply x p))) pg'); cbn [pend comm view];
          [ first [ rewrite globals_apply_not_global by (intros; discriminate); assumption
                  | rewrite globals_apply_global, Hv; now rewrite app_assoc ]
          | intros E; discriminate ]
      | |- globals (comm (run r (mkst (apply ?x ?c) None))) = _ ++ committed_globals_from r false [] =>
          rewrite (IH (mkst (apply x c) None) []); cbn [pend comm view negb is_none];
          [ rewrite globals_apply_not_global by (intros; discriminate); reflexivity
          | now rewrite app_nil_r | auto ]
      end.
    + (* begin inside a transaction: ignored *)
      apply (IH (mkst c (Some p)) pg); auto; intros E; discriminate.
    + (* begin *)
      rewrite (IH (mkst c (Some c)) []); cbn [pend comm view negb is_none]; auto;
        try (now rewrite app_nil_r); intros E; discriminate.
    + (* commit *)
      rewrite (IH (mkst p None) []); cbn [pend comm view negb is_none]; auto;
        try (now rewrite app_nil_r). rewrite Hv. now rewrite app_assoc.
    + (* commit outside a transaction: ignored *)
      rewrite (IH (mkst c None) []); cbn [pend comm view negb is_none]; auto; now rewrite app_nil_r.
    + (* rollback *)
      rewrite (IH (mkst c None) []); cbn [pend comm view negb is_none]; auto; now rewrite app_nil_r.
    + rewrite (IH (mkst c None) []); cbn [pend comm view negb is_none]; auto; now rewrite app_nil_r.
    + (* autocommitted global INSERT *)
      rewrite (IH (mkst (apply (SInsertGlobal t r0) c) None) []); cbn [pend comm view negb is_none]; auto;
        try (now rewrite app_nil_r). rewrite globals_apply_global. now rewrite <- app_assoc.
Qed.

(* what the crashed file lists is exactly the global_iterations INSERTs whose COMMIT lies in the prefix *)
Theorem crash_view_is_committed : forall (t : list stmt) (k : nat),
  globals (db_after_crash t k) = committed_globals (firstn k t).
Proof.
  intros t k. unfold db_after_crash, committed_globals.
  rewrite (committed_globals_run (firstn k t) st0 []); cbn; auto.
Qed.

(* ------------------------------------------------------------------ non-vacuity and the excluded shapes *)

Definition setup_trace : list stmt :=
  [SCreate NGlobal; SCreate (NCase TDriver); SCreate NDeriv; SIndex; SCreate (NCase TProblem); SIndex;
   SCreate (NCase TSystem); SIndex; SCreate (NCase TSolver); SIndex; SCreate NMeta;
   SBegin; SInsertMeta; SCreate NDrvMeta; SCreate NSysMeta; SCreate NSolMeta; SCommit;
   SBegin; SUpdateMeta; SCommit].

Definition example_trace : list stmt :=
  setup_trace ++
  [SBegin; SInsertAux NSysMeta; SCommit;
   SBegin; SInsertCase TSystem 1; SInsertGlobal TSystem 1; SCommit;
   SBegin; SInsertCase TDriver 2; SInsertGlobal TDriver 1; SCommit;
   SBegin; SInsertCase TSystem 3; SInsertGlobal TSystem 2; SCommit].

Example example_wf : wf_trace example_trace = true.
Proof. vm_compute. reflexivity. Qed.

Example example_views :
  map (fun k => reader_view (db_after_crash example_trace k)) [0; 19; 20; 26; 27; 31; 35]%nat =
  [None; None; Some []; Some []; Some [(TSystem, 1)]; Some [(TSystem, 1); (TDriver, 1)];
   Some [(TSystem, 1); (TDriver, 1); (TSystem, 2)]].
Proof. vm_compute. reflexivity. Qed.

(* what the checker excludes: the global_iterations row committed in a transaction of its own before the
   case row -- a crash between the two lists a case that cannot be read *)
Definition split_trace : list stmt :=
  setup_trace ++ [SBegin; SInsertGlobal TDriver 1; SCommit; SBegin; SInsertCase TDriver 1; SCommit].

Example split_trace_rejected : wf_trace split_trace = false.
Proof. vm_compute. reflexivity. Qed.

Example split_trace_breaks_reader :
  exists k v g, reader_view (db_after_crash split_trace k) = Some v /\ In g v /\
                read_case (db_after_crash split_trace k) g = None.
Proof. exists 23%nat, [(TDriver, 1)], (TDriver, 1). vm_compute. repeat split; auto. Qed.

(* and: a case recorded before the metadata was written leaves a file that lists nothing and does not open *)
Definition late_meta_trace : list stmt :=
  firstn 17 setup_trace ++ [SBegin; SInsertCase TDriver 1; SInsertGlobal TDriver 1; SCommit;
                            SBegin; SUpdateMeta; SCommit].

Example late_meta_rejected : wf_trace late_meta_trace = false.
Proof. vm_compute. reflexivity. Qed.

Example late_meta_loses_case :
  reader_view (db_after_crash late_meta_trace 21) = None /\
  globals (db_after_crash late_meta_trace 21) = [(TDriver, 1)].
Proof. vm_compute. split; reflexivity. Qed.
