(* C18 — model of the SQL statement stream of openmdao/recorders/sqlite_recorder.py and of what
   openmdao/recorders/sqlite_reader.py sees in the file after a crash (definitions only).

   A recording is a trace of SQL statements on one connection (Python's sqlite3 in its default
   transaction mode: DDL runs in autocommit unless a transaction is open, an implicit BEGIN is sent
   before the first INSERT/UPDATE, `with connection` sends COMMIT).  A crash after the first k
   statements leaves the effect of the transactions committed among them: SQLite's atomic commit is
   the stated assumption, it is what [exec]/[db_after_crash] encode.

   [wf_trace] is the boolean checker applied (inside Coq) to the statement stream captured from the
   real recorder on every run; [reader_view]/[read_case] model SqliteCaseReader. *)
From Coq Require Import ZArith List Bool Arith.
From OMV Require Import Base.Val.
Import ListNotations.
Open Scope Z_scope.

(* ------------------------------------------------------------------ alphabet *)

Inductive ctable := TDriver | TSystem | TSolver | TProblem.

Inductive tname :=
| NGlobal                 (* global_iterations *)
| NCase (t : ctable)      (* driver_iterations / system_iterations / solver_iterations / problem_cases *)
| NDeriv                  (* driver_derivatives *)
| NMeta                   (* metadata *)
| NDrvMeta | NSysMeta | NSolMeta.

Inductive stmt :=
| SBegin | SCommit | SRollback
| SCreate (n : tname)                    (* CREATE TABLE *)
| SIndex                                 (* CREATE INDEX: invisible to the reader *)
| SInsertMeta                            (* INSERT INTO metadata (format version; maps NULL) *)
| SUpdateMeta                            (* UPDATE metadata SET abs2prom, prom2abs, abs2meta, var_settings, conns *)
| SInsertCase (t : ctable) (payload : Z) (* INSERT INTO <case table>; row id assigned by SQLite; payload = counter column *)
| SInsertGlobal (t : ctable) (r : Z)     (* INSERT INTO global_iterations(record_type, rowid, source) *)
| SInsertAux (n : tname)                 (* row of driver_metadata / system_metadata / solver_metadata / driver_derivatives *)
| SOther.                                (* anything the harness does not recognise *)

Definition ctable_code (t : ctable) : Z :=
  match t with TDriver => 0 | TSystem => 1 | TSolver => 2 | TProblem => 3 end.
Definition ctable_eqb (a b : ctable) : bool := ctable_code a =? ctable_code b.

Definition tname_code (n : tname) : Z :=
  match n with
  | NGlobal => 10 | NCase t => ctable_code t | NDeriv => 11 | NMeta => 12
  | NDrvMeta => 13 | NSysMeta => 14 | NSolMeta => 15
  end.
Definition tname_eqb (a b : tname) : bool := tname_code a =? tname_code b.
Definition has (n : tname) (l : list tname) : bool := existsb (tname_eqb n) l.

(* ------------------------------------------------------------------ database contents *)

Record db := mkdb {
  tabs : list tname;                  (* tables that exist *)
  meta : nat;                         (* 0: no metadata row, 1: row with NULL maps, 2: maps written *)
  rows : ctable -> list (Z * Z);      (* (row id, payload) of each case table, in id order *)
  globals : list (ctable * Z)         (* global_iterations rows (record_type, rowid), in id order *)
}.

Definition db0 : db := mkdb [] 0 (fun _ => []) [].

(* SQLite assigns max(rowid)+1; rows are never deleted in this alphabet *)
Definition next_id (l : list (Z * Z)) : Z := Z.of_nat (length l) + 1.

Definition upd (f : ctable -> list (Z * Z)) (t : ctable) (v : list (Z * Z)) : ctable -> list (Z * Z) :=
  fun u => if ctable_eqb t u then v else f u.

Definition apply (x : stmt) (d : db) : db :=
  match x with
  | SCreate n => mkdb (n :: tabs d) (meta d) (rows d) (globals d)
  | SInsertMeta => mkdb (tabs d) (Nat.max (meta d) 1) (rows d) (globals d)
  | SUpdateMeta => mkdb (tabs d) (if (1 <=? meta d)%nat then Nat.max (meta d) 2 else meta d) (rows d) (globals d)
  | SInsertCase t p =>
      mkdb (tabs d) (meta d) (upd (rows d) t (rows d t ++ [(next_id (rows d t), p)])) (globals d)
  | SInsertGlobal t r => mkdb (tabs d) (meta d) (rows d) (globals d ++ [(t, r)])
  | _ => d
  end.

(* ------------------------------------------------------------------ transactions and crashes *)

Record st := mkst { comm : db; pend : option db }.
Definition st0 : st := mkst db0 None.

Definition view (s : st) : db := match pend s with Some p => p | None => comm s end.

Definition exec (x : stmt) (s : st) : st :=
  match x with
  | SBegin => match pend s with None => mkst (comm s) (Some (comm s)) | Some _ => s end
  | SCommit => match pend s with Some p => mkst p None | None => s end
  | SRollback => mkst (comm s) None
  | _ => match pend s with
         | Some p => mkst (comm s) (Some (apply x p))
         | None => mkst (apply x (comm s)) None            (* autocommit *)
         end
  end.

Fixpoint run (t : list stmt) (s : st) : st :=
  match t with [] => s | x :: r => run r (exec x s) end.

(* what is in the file when the process dies after the first k statements (an open transaction is
   rolled back by SQLite when the file is next opened) *)
Definition db_after_crash (t : list stmt) (k : nat) : db := comm (run (firstn k t) st0).
Definition db_after (t : list stmt) : db := comm (run t st0).

(* ------------------------------------------------------------------ the reader *)

Definition required : list tname :=
  [NGlobal; NMeta; NDrvMeta; NSysMeta; NSolMeta;
   NCase TDriver; NCase TSystem; NCase TSolver; NCase TProblem; NDeriv].

(* SqliteCaseReader.__init__ + list_cases succeed *)
Definition opens (d : db) : bool :=
  (2 <=? meta d)%nat && forallb (fun n => has n (tabs d)) required.

Definition reader_view (d : db) : option (list (ctable * Z)) :=
  if opens d then Some (globals d) else None.

(* the reader resolves a listed (table, rowid) as the (rowid-1)-th key of the table in id order *)
Definition read_case (d : db) (g : ctable * Z) : option Z :=
  if snd g <=? 0 then None else
  match nth_error (rows d (fst g)) (Z.to_nat (snd g - 1)) with
  | Some (i, p) => if i =? snd g then Some p else None
  | None => None
  end.

(* ------------------------------------------------------------------ the checker *)

Record wst := mkw { w_st : st; w_await : option (ctable * Z) }.
Definition w0 : wst := mkw st0 None.

Definition is_none {A} (o : option A) : bool := match o with None => true | Some _ => false end.

Definition aux_table (n : tname) : bool :=
  match n with NDeriv | NDrvMeta | NSysMeta | NSolMeta => true | _ => false end.

Definition step_ok (x : stmt) (w : wst) : bool :=
  let s := w_st w in
  let v := view s in
  match x with
  | SBegin => is_none (pend s)
  | SCommit => negb (is_none (pend s)) && is_none (w_await w)
  | SRollback => negb (is_none (pend s))      (* `with connection` after an exception (duplicate viewer data) *)
  | SCreate n => negb (has n (tabs v))
  | SIndex => true
  | SInsertMeta => has NMeta (tabs v) && (meta v =? 0)%nat
  | SUpdateMeta => (1 <=? meta v)%nat
  | SInsertCase t _ =>
      negb (is_none (pend s)) && is_none (w_await w) && opens (comm s) && has (NCase t) (tabs v)
  | SInsertGlobal t r =>
      negb (is_none (pend s)) &&
      match w_await w with
      | Some (t', r') => ctable_eqb t t' && (r =? r')
      | None => false
      end
  | SInsertAux n => aux_table n && has n (tabs v)
  | SOther => false
  end.

Definition next_await (x : stmt) (w : wst) : option (ctable * Z) :=
  match x with
  | SInsertCase t _ => Some (t, next_id (rows (view (w_st w)) t))
  | SInsertGlobal _ _ => None
  | SRollback => None
  | _ => w_await w
  end.

Definition wf_step (x : stmt) (w : wst) : option wst :=
  if step_ok x w then Some (mkw (exec x (w_st w)) (next_await x w)) else None.

Fixpoint wf_run (t : list stmt) (w : wst) : option wst :=
  match t with
  | [] => Some w
  | x :: r => match wf_step x w with Some w' => wf_run r w' | None => None end
  end.

(* every case INSERT and its global_iterations INSERT lie in one transaction (the global row names
   the id the case row was given), the metadata is committed before the first case, nothing is
   unrecognised, and the trace ends outside a transaction *)
Definition wf_trace (t : list stmt) : bool :=
  match wf_run t w0 with
  | Some w => is_none (pend (w_st w)) && is_none (w_await w)
  | None => false
  end.

(* the recorder's counter column is the position of the case in global_iterations (used by the
   reader's hierarchy queries, see C17) *)
Fixpoint counters_ok_from (n : Z) (t : list stmt) : bool :=
  match t with
  | [] => true
  | SInsertCase _ p :: r => (p =? n + 1) && counters_ok_from (n + 1) r
  | _ :: r => counters_ok_from n r
  end.
Definition counters_ok (t : list stmt) : bool := counters_ok_from 0 t.

(* ------------------------------------------------------------------ independent specification *)

(* the listed cases after a crash, computed directly from the statements: the global_iterations
   INSERTs whose COMMIT lies within the prefix *)
Fixpoint committed_globals_from (t : list stmt) (intxn : bool) (pg : list (ctable * Z)) : list (ctable * Z) :=
  match t with
  | [] => []
  | SBegin :: r => if intxn then committed_globals_from r true pg else committed_globals_from r true []
  | SCommit :: r => if intxn then pg ++ committed_globals_from r false [] else committed_globals_from r false []
  | SRollback :: r => committed_globals_from r false []
  | SInsertGlobal tb i :: r =>
      if intxn then committed_globals_from r true (pg ++ [(tb, i)])
      else (tb, i) :: committed_globals_from r false []
  | _ :: r => committed_globals_from r intxn pg
  end.
Definition committed_globals (t : list stmt) : list (ctable * Z) := committed_globals_from t false [].

(* ------------------------------------------------------------------ evaluation for the harness *)

Definition enc_case (d : db) (g : ctable * Z) : val :=
  VL [VZ (ctable_code (fst g)); VZ (snd g); vopt VZ (read_case d g)].

Definition enc_view (d : db) : val :=
  match reader_view d with
  | None => VN
  | Some v => VL (map (enc_case d) v)
  end.

Fixpoint vals_eqb (a b : list val) : bool :=
  match a, b with
  | [], [] => true
  | x :: a', y :: b' => val_eqb x y && vals_eqb a' b'
  | _, _ => false
  end.

(* a crash view is printed as its length when it is literally the first cases of the full view *)
Definition enc_crash (full : list val) (d : db) : val :=
  match enc_view d with
  | VL l => if vals_eqb l (firstn (length l) full) then VZ (Z.of_nat (length l)) else VL l
  | v => v
  end.

Definition c18_run (t : list stmt) (ks : list nat) : val :=
  let full := match enc_view (db_after t) with VL l => l | _ => [] end in
  VL [VB (wf_trace t); VB (counters_ok t); enc_view (db_after t);
      VL (map (fun k => enc_crash full (db_after_crash t k)) ks);
      VB (vals_eqb (map (fun g => VL [VZ (ctable_code (fst g)); VZ (snd g)]) (committed_globals t))
                   (map (fun g => VL [VZ (ctable_code (fst g)); VZ (snd g)]) (globals (db_after t))))].
