(* C18 — property theorems (statements only; proofs by [exact] of lemmas in Proofs.v).

   A recording is the SQL statement stream of one recorder connection; [wf_trace] is the boolean
   checker that is run, inside Coq, on the stream captured from the real SqliteRecorder on every run
   (each case INSERT and its global_iterations INSERT lie in one transaction, the global row names the
   id the case row was given, the metadata is committed before the first case).  [db_after_crash t k]
   is the file left by a process death after the first k statements, under SQLite's atomic commit. *)
From Coq Require Import ZArith List.
From OMV Require Import Base.Val C18.Model C18.Proofs.
Import ListNotations.
Open Scope Z_scope.

(* Crash at ANY point k of ANY well-formed trace: if the reader opens the crashed file then it opens
   the complete one, what it lists is a prefix of the complete listing, and every listed case is
   resolved to its own row -- with the content the complete file holds for it. *)
Theorem C18_crash_prefix :
  forall (t : list stmt) (k : nat) (v : list (ctable * Z)),
    wf_trace t = true ->
    reader_view (db_after_crash t k) = Some v ->
    exists vf, reader_view (db_after t) = Some vf /\ prefix v vf /\
      forall g, In g v -> exists p, read_case (db_after_crash t k) g = Some p /\
                                    read_case (db_after t) g = Some p.
Proof. exact crash_prefix. Qed.
Print Assumptions C18_crash_prefix.

(* The only crashed files the reader cannot open are those of a recorder that had not finished
   starting: nothing was recorded yet, and no earlier crash point opens either. *)
Theorem C18_unreadable_only_before_start :
  forall (t : list stmt) (k : nat),
    wf_trace t = true ->
    reader_view (db_after_crash t k) = None ->
    forall j, (j <= k)%nat ->
      reader_view (db_after_crash t j) = None /\
      globals (db_after_crash t j) = [] /\ forall tb, rows (db_after_crash t j) tb = [].
Proof. exact unreadable_only_before_start. Qed.
Print Assumptions C18_unreadable_only_before_start.

(* The metadata is committed before the first case: from the position of any case INSERT on, the
   crashed file opens. *)
Theorem C18_started_before_first_case :
  forall (t : list stmt) (i : nat) (tb : ctable) (p : Z),
    wf_trace t = true ->
    nth_error t i = Some (SInsertCase tb p) ->
    reader_view (db_after_crash t i) <> None.
Proof. exact started_before_first_case. Qed.
Print Assumptions C18_started_before_first_case.

(* Later crash points only add: tables, metadata, rows and listed cases grow as prefixes. *)
Theorem C18_crash_monotone :
  forall (t : list stmt) (j k : nat),
    wf_trace t = true -> (j <= k)%nat -> ext (db_after_crash t j) (db_after_crash t k).
Proof. exact crash_monotone. Qed.
Print Assumptions C18_crash_monotone.

(* Exactness of the prefix (for every trace, well-formed or not): the crashed file lists exactly the
   global_iterations INSERTs whose COMMIT lies among the first k statements -- an independent,
   database-free reading of the statement stream. *)
Theorem C18_crash_view_is_committed :
  forall (t : list stmt) (k : nat),
    globals (db_after_crash t k) = committed_globals (firstn k t).
Proof. exact crash_view_is_committed. Qed.
Print Assumptions C18_crash_view_is_committed.
