"""Helpers for the implementation-side scripts (run with /venv python, PYTHONPATH=/repo)."""
import json
import sys
import traceback
from fractions import Fraction


def q(x):
    """Exact rational of an int / float / Fraction as the canonical JSON form {"q":[n,d]}."""
    import numpy as np
    if isinstance(x, (np.integer,)):
        x = int(x)
    if isinstance(x, (np.floating,)):
        x = float(x)
    fr = Fraction(x)
    return {'q': [fr.numerator, fr.denominator]}


def qs(xs):
    return [q(v) for v in xs]


def err(code):
    return {'e': int(code)}


def ints(a):
    import numpy as np
    return [int(v) for v in np.asarray(a).ravel()]


def main(handler, setup=None):
    """handler(case) -> dict(res=<canonical>, ok=<bool>, msg=<str>, ...).  Exceptions escaping the
    handler are reported as a failed oracle with the traceback (fail closed)."""
    cases = json.load(open(sys.argv[1]))
    if setup:
        setup()
    out = []
    for c in cases:
        try:
            r = handler(c)
        except Exception:
            r = {'res': '__none__', 'ok': False, 'sig': 'harness-exception',
                 'msg': 'harness exception: ' + traceback.format_exc()[-1500:]}
        out.append(r)
    with open(sys.argv[2], 'w') as f:
        json.dump(out, f)
