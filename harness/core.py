"""Shared machinery of the /verif checks.

One check = Coq build + proof gate (Print Assumptions) + correspondence between the model's
executable definitions (evaluated by vm_compute inside coqc) and the real implementation in
/repo (run in a fresh subprocess) + property oracle on the implementation + search / decision.

Nothing in here knows about a particular property; see props/CXX/check.py.
"""
import concurrent.futures as cf
import fcntl
import hashlib
import json
import os
import random
import re
import shutil
import subprocess
import sys
import time
from fractions import Fraction

VERIF = os.path.dirname(os.path.dirname(os.path.abspath(__file__)))
REPO = os.environ.get('VERIF_REPO', '/repo')
PY = os.environ.get('VERIF_PY', '/venv/bin/python')
COQ = os.path.join(VERIF, 'coq')
NCPU = int(os.environ.get('VERIF_NCPU', '16'))
GUARD = 'OPENMDAO_VERIF'

ALLOWED_AXIOM_PREFIXES = (
    # standard-library axioms (named in DESIGN.md section 7); nothing declared by this development
    'ClassicalDedekindReals.sig_forall_dec', 'ClassicalDedekindReals.sig_not_dec',
    'FunctionalExtensionality.functional_extensionality_dep',
    'Classical_Prop.classic', 'ClassicalEpsilon.constructive_indefinite_description',
    'ProofIrrelevance.proof_irrelevance', 'Eqdep.Eq_rect_eq.eq_rect_eq', 'JMeq.JMeq_eq',
    'ClassicalFacts', 'PropExtensionality.propositional_extensionality',
    'Rdefinitions', 'Raxioms', 'Rtrigo', 'Reals',
    # primitive objects (not axioms of ours; Print Assumptions lists them)
    'PrimFloat.', 'Uint63.', 'PrimInt63.', 'FloatOps.', 'Sint63.', 'PrimString.', 'PArray.',
    'Float64', 'SpecFloat',
)

FORBIDDEN = re.compile(
    r'\b(Admitted|admit|Axiom|Axioms|Parameter|Parameters|Conjecture|Conjectures)\b'
    r'|Unset\s+Guard|bypass_check|Admit\s+Obligations|type-in-type|impredicative-set'
    r'|Unset\s+Universe\s+Checking|Unset\s+Positivity')


# --------------------------------------------------------------------------- utilities

def seed_from_env(default=20260921):
    try:
        return int(os.environ.get('VERIF_SEED', default))
    except ValueError:
        return default


def workdir(pid, tier):
    d = os.path.join(VERIF, 'work', '%s_%s%s' % (pid, tier, os.environ.get('VERIF_WORK_TAG', '')))
    shutil.rmtree(d, ignore_errors=True)
    os.makedirs(d, exist_ok=True)
    return d


def sh(cmd, timeout=600, cwd=None, env=None):
    """Run a command; returns (rc, stdout+stderr). rc=124 on timeout."""
    try:
        p = subprocess.run(cmd, shell=isinstance(cmd, str), cwd=cwd, env=env, timeout=timeout,
                           stdout=subprocess.PIPE, stderr=subprocess.STDOUT)
        return p.returncode, p.stdout.decode('utf-8', 'replace')
    except subprocess.TimeoutExpired as e:
        out = e.stdout.decode('utf-8', 'replace') if e.stdout else ''
        return 124, out + '\n[timeout after %ss]' % timeout


def strip_coq_comments(txt):
    out, depth, i, n = [], 0, 0, len(txt)
    while i < n:
        if txt.startswith('(*', i):
            depth += 1
            i += 2
        elif txt.startswith('*)', i) and depth > 0:
            depth -= 1
            i += 2
        else:
            if depth == 0:
                out.append(txt[i])
            i += 1
    return ''.join(out)


# --------------------------------------------------------------------------- Coq build

class BuildLock:
    def __enter__(self):
        os.makedirs(os.path.join(VERIF, 'work'), exist_ok=True)
        self.f = open(os.path.join(VERIF, 'work', '.build.lock'), 'w')
        fcntl.flock(self.f, fcntl.LOCK_EX)
        return self

    def __exit__(self, *a):
        fcntl.flock(self.f, fcntl.LOCK_UN)
        self.f.close()


def coq_sources():
    res = []
    for root, dirs, files in os.walk(COQ):
        for f in sorted(files):
            if f.endswith('.v'):
                res.append(os.path.relpath(os.path.join(root, f), VERIF))
    return sorted(res)


def write_if_changed(path, text):
    try:
        with open(path) as f:
            if f.read() == text:
                return False
    except OSError:
        pass
    os.makedirs(os.path.dirname(path), exist_ok=True)
    with open(path, 'w') as f:
        f.write(text)
    return True


def coq_project():
    """(Re)generate _CoqProject and Makefile.coq when the file list changed."""
    txt = '-Q coq OMV\n' + '\n'.join(coq_sources()) + '\n'
    changed = write_if_changed(os.path.join(VERIF, '_CoqProject'), txt)
    mk = os.path.join(VERIF, 'Makefile.coq')
    if changed or not os.path.exists(mk):
        rc, out = sh('coq_makefile -f _CoqProject -o Makefile.coq', cwd=VERIF, timeout=120)
        if rc != 0:
            raise RuntimeError('coq_makefile failed: ' + out)


def coq_make(targets, timeout=1500):
    """Full .vo build (never -vos) of the given targets (paths relative to /verif)."""
    with BuildLock():
        coq_project()
        cmd = 'make -f Makefile.coq -j%d %s' % (NCPU, ' '.join(targets))
        rc, out = sh(cmd, cwd=VERIF, timeout=timeout)
    return rc == 0, cmd, out


def coq_make_all(timeout=3600):
    with BuildLock():
        coq_project()
        cmd = 'make -f Makefile.coq -k -j%d' % NCPU
        rc, out = sh(cmd, cwd=VERIF, timeout=timeout)
    return rc == 0, cmd, out


def forbidden_scan(rel_dirs):
    """No Admitted/admit/Axiom/Parameter/... anywhere in the given coq sub-directories."""
    hits = []
    for d in rel_dirs:
        base = os.path.join(COQ, d)
        for root, _, files in os.walk(base):
            for f in files:
                if f.endswith('.v'):
                    p = os.path.join(root, f)
                    src = strip_coq_comments(open(p).read())
                    for m in FORBIDDEN.finditer(src):
                        hits.append('%s: %s' % (os.path.relpath(p, VERIF), m.group(0)))
                    # a Variable / Hypothesis / Context outside a Section declares an axiom
                    depth = 0
                    for ln in src.splitlines():
                        st = ln.strip()
                        if re.match(r'^Section\s+\w+\s*\.', st):
                            depth += 1
                        elif re.match(r'^End\s+\w+\s*\.', st) and depth > 0:
                            depth -= 1
                        elif re.match(r'^(Variables?|Hypothes[ie]s|Context)\b', st) and depth == 0:
                            hits.append('%s: %s outside a Section' % (os.path.relpath(p, VERIF), st[:40]))
    return hits


def parse_assumptions(src, out):
    """Pair every `Print Assumptions X.` of a Props file with its output block."""
    names = re.findall(r'Print\s+Assumptions\s+([\w.]+)\s*\.', strip_coq_comments(src))
    blocks, cur = [], None
    for line in out.splitlines():
        if line.startswith('Closed under the global context'):
            if cur is not None:
                blocks.append(cur)
            blocks.append([])
            cur = None
        elif line.startswith('Axioms:'):
            if cur is not None:
                blocks.append(cur)
            cur = []
        elif cur is not None:
            m = re.match(r'^([A-Za-z_][\w.\']*)\s*(:|$)', line)
            if m:
                cur.append(m.group(1))
    if cur is not None:
        blocks.append(cur)
    return names, blocks


def coq_props(pid, wd, props_rel=None, timeout=900):
    """Compile coq/<pid>/Props.v (always, so that its Print Assumptions output is fresh).

    Returns dict(ok, theorems=[{name, axioms, allowed}], cmd, log)."""
    props_rel = props_rel or os.path.join('coq', pid, 'Props.v')
    src_path = os.path.join(VERIF, props_rel)
    src = open(src_path).read()
    vo = os.path.join(wd, 'Props.vo')
    cmd = 'coqc -Q coq OMV -o %s %s' % (vo, props_rel)
    rc, out = sh(cmd, cwd=VERIF, timeout=timeout)
    names, blocks = parse_assumptions(src, out)
    thms = []
    ok = (rc == 0) and len(names) == len(blocks) and len(names) > 0
    n_thm = len(re.findall(r'^\s*(Theorem|Lemma|Corollary)\s', strip_coq_comments(src), re.M))
    if n_thm != len(names):
        ok = False
        out += '\n[props] %d theorems but %d Print Assumptions' % (n_thm, len(names))
    for i, nme in enumerate(names):
        ax = blocks[i] if i < len(blocks) else ['<missing>']
        bad = [a for a in ax if not a.startswith(ALLOWED_AXIOM_PREFIXES)]
        if bad:
            ok = False
        thms.append({'name': nme, 'axioms': ax, 'disallowed': bad})
    return {'ok': ok, 'theorems': thms, 'cmd': cmd, 'log': out[-4000:], 'rc': rc}


def proof_gate(pid, wd, extra_dirs=('Base',), targets=None):
    """Build the property's Coq files, scan for forbidden commands, check every theorem's axioms."""
    d = os.path.join(COQ, pid)
    srcs = sorted(f for f in os.listdir(d) if f.endswith('.v'))
    if targets is None:
        targets = ['coq/%s/%so' % (pid, f) for f in srcs if f != 'Props.v']
    ok, cmd, log = coq_make(targets)
    res = {'build_ok': ok, 'build_cmd': cmd, 'build_log': log[-3000:] if not ok else ''}
    hits = forbidden_scan([''])     # the whole development: properties import each other's models (C04 <- C05, ...)
    res['forbidden'] = hits
    if ok:
        pr = coq_props(pid, wd)
    else:
        pr = {'ok': False, 'theorems': [], 'cmd': '', 'log': 'build failed', 'rc': 1}
    res['props'] = pr
    res['ok'] = ok and not hits and pr['ok']
    broken = []
    if not ok:
        m = re.findall(r'File "\./([^"]+)", line (\d+)', log)
        broken = ['%s:%s' % x for x in m[:5]] or ['build']
    if hits:
        broken += hits
    if ok and not pr['ok']:
        broken += [t['name'] for t in pr['theorems'] if t['disallowed']] or ['Props.v']
    res['broken'] = broken
    axioms = sorted({a for t in pr['theorems'] for a in t['axioms']})
    res['axioms'] = axioms
    return res


# --------------------------------------------------------------------------- values

def to_val(x):
    """Canonical JSON result -> Gallina literal of type Val.val."""
    if x is None:
        return 'VN'
    if isinstance(x, bool):
        return '(VB %s)' % ('true' if x else 'false')
    if isinstance(x, int):
        return '(VZ (%d))' % x
    if isinstance(x, Fraction):
        return '(VQ ((%d) # %d))' % (x.numerator, x.denominator)
    if isinstance(x, float):
        raise TypeError('float in canonical value; convert with Fraction first')
    if isinstance(x, str):
        return '(VS "%s")' % x.replace('"', '""')
    if isinstance(x, (list, tuple)):
        return '(VL [%s])' % '; '.join(to_val(e) for e in x)
    if isinstance(x, dict):
        if 'q' in x:
            n, d = x['q']
            return '(VQ ((%d) # %d))' % (int(n), int(d))
        if 'e' in x:
            return '(VE (%d))' % int(x['e'])
        if 's' in x:
            return to_val(str(x['s']))
    raise TypeError('cannot render %r' % (x,))


def zlist(xs):
    return '[%s]' % '; '.join('(%d)' % int(v) for v in xs)


def qlit(fr):
    fr = Fraction(fr)
    return '((%d) # %d)' % (fr.numerator, fr.denominator)


def qlist(xs):
    return '[%s]' % '; '.join(qlit(v) for v in xs)


def natlit(n):
    return '%d%%nat' % int(n)


def optlit(x, f=lambda v: '(%d)' % int(v)):
    return 'None' if x is None else '(Some %s)' % f(x)


def boollit(b):
    return 'true' if b else 'false'


# --------------------------------------------------------------------------- model evaluation

def _coqc_file(path, timeout):
    rc, out = sh('coqc -Q %s OMV %s' % (COQ, path), cwd=os.path.dirname(path), timeout=timeout)
    return rc, out


def coq_mismatches(wd, imports, got_terms, want_terms, shard=400, tol=None, timeout=900,
                   prelude='', tag='cases'):
    """Evaluate the model on every case inside coqc (vm_compute) and return the indices where
    the model's value differs from the implementation's canonical value.

    got_terms[i] : Gallina term of type val (the model applied to case i)
    want_terms[i]: Gallina literal of type val (what the implementation returned)
    Returns (bad_indices, errors, cmds)."""
    assert len(got_terms) == len(want_terms)
    files = []
    for k in range(0, len(got_terms), shard):
        g, w = got_terms[k:k + shard], want_terms[k:k + shard]
        path = os.path.join(wd, '%s_%d.v' % (tag, k // shard))
        cmp = 'mismatches' if tol is None else '(mismatches_tol %s)' % qlit(tol)
        with open(path, 'w') as f:
            f.write('From Coq Require Import ZArith QArith List String.\nImport ListNotations.\n')
            f.write('From OMV Require Import Base.Val %s.\n' % ' '.join(imports))
            f.write('Open Scope Z_scope. Open Scope string_scope.\n' + prelude + '\n')
            f.write('Definition got : list val := [\n%s\n].\n' % ';\n'.join(g))
            f.write('Definition want : list val := [\n%s\n].\n' % ';\n'.join(w))
            f.write('Eval vm_compute in (%s got want).\n' % cmp)
        files.append((k, path))
    bad, errors = [], []
    with cf.ThreadPoolExecutor(max_workers=NCPU) as ex:
        futs = {ex.submit(_coqc_file, p, timeout): (k, p) for k, p in files}
        for fu in cf.as_completed(futs):
            k, p = futs[fu]
            rc, out = fu.result()
            m = re.search(r'=\s*\[(.*?)\]', out, re.S)
            if rc != 0 or not m:
                errors.append({'file': p, 'rc': rc, 'log': out[-1500:]})
                continue
            for tok in re.findall(r'\d+', m.group(1)):
                bad.append(k + int(tok))
    cmd = 'coqc -Q coq OMV work/.../%s_<k>.v  (Eval vm_compute in mismatches got want; %d files)' % (
        tag, len(files))
    return sorted(bad), errors, cmd


def coq_show(wd, imports, terms, prelude='', timeout=300, tag='show'):
    """Raw printed model values of a few terms (diagnostics for the replay file)."""
    path = os.path.join(wd, '%s.v' % tag)
    with open(path, 'w') as f:
        f.write('From Coq Require Import ZArith QArith List String.\nImport ListNotations.\n')
        f.write('From OMV Require Import Base.Val %s.\n' % ' '.join(imports))
        f.write('Open Scope Z_scope. Open Scope string_scope.\n' + prelude + '\n')
        for t in terms:
            f.write('Eval vm_compute in (%s).\n' % t)
    rc, out = _coqc_file(path, timeout)
    return out[-6000:]


def coq_script(wd, name, text, timeout=900):
    """Compile an arbitrary generated .v file in the work directory; returns (rc, output)."""
    path = os.path.join(wd, name)
    with open(path, 'w') as f:
        f.write(text)
    return _coqc_file(path, timeout)


# --------------------------------------------------------------------------- implementation side

def impl_env():
    env = dict(os.environ)
    env['PYTHONPATH'] = REPO + os.pathsep + os.path.join(VERIF, 'harness')
    env['PYTHONHASHSEED'] = '0'
    env['OPENMDAO_REPORTS'] = '0'
    env['OPENMDAO_WORKDIR'] = ''
    env[GUARD] = '1'
    env['OMP_NUM_THREADS'] = '1'
    env['OPENBLAS_NUM_THREADS'] = '1'
    env['JAX_PLATFORMS'] = 'cpu'
    env.pop('OPENMDAO_NO_RELEVANCE', None)
    return env


def run_impl(script, cases, wd, tag='impl', timeout=1500, jobs=1, extra_env=None):
    """Run the real implementation (fresh subprocesses of /venv python, PYTHONPATH=/repo) on the cases.

    script: path relative to /verif; invoked as  python script cases.json out.json
    Returns (results or None, log)."""
    jobs = max(1, min(jobs, NCPU, (len(cases) + 49) // 50 or 1))
    chunks = [cases[i::jobs] for i in range(jobs)]
    env = impl_env()
    if extra_env:
        env.update(extra_env)
    procs = []
    for j, ch in enumerate(chunks):
        cin = os.path.join(wd, '%s_in_%d.json' % (tag, j))
        cout = os.path.join(wd, '%s_out_%d.json' % (tag, j))
        with open(cin, 'w') as f:
            json.dump(ch, f)
        sub = os.path.join(wd, 'cwd_%s_%d' % (tag, j))
        os.makedirs(sub, exist_ok=True)
        p = subprocess.Popen([PY, os.path.join(VERIF, script), cin, cout], cwd=sub, env=env,
                             stdout=subprocess.PIPE, stderr=subprocess.STDOUT)
        procs.append((p, cout, sub))
    outs, logs, ok = [], [], True
    t0 = time.time()
    for p, cout, sub in procs:
        try:
            so, _ = p.communicate(timeout=max(1, timeout - (time.time() - t0)))
        except subprocess.TimeoutExpired:
            p.kill()
            so, _ = p.communicate()
            ok = False
            logs.append('[impl timeout]')
        logs.append(so.decode('utf-8', 'replace')[-3000:])
        if p.returncode != 0 or not os.path.exists(cout):
            ok = False
            outs.append(None)
        else:
            with open(cout) as f:
                outs.append(json.load(f))
        shutil.rmtree(sub, ignore_errors=True)
    if not ok:
        return None, '\n'.join(logs)
    res = [None] * len(cases)
    for j, o in enumerate(outs):
        if len(o) != len(chunks[j]):
            return None, 'impl returned %d results for %d cases\n%s' % (len(o), len(chunks[j]), '\n'.join(logs))
        res[j::jobs] = o
    return res, '\n'.join(logs)


# --------------------------------------------------------------------------- findings / evidence / verdict

def load_known(pid):
    p = os.path.join(VERIF, 'known_findings.json')
    try:
        data = json.load(open(p))
    except OSError:
        return []
    return [f for f in data.get('findings', []) if f.get('property') == pid]


def load_corpus(pid):
    d = os.path.join(VERIF, 'corpus', pid)
    out = []
    if os.path.isdir(d):
        for f in sorted(os.listdir(d)):
            if f.endswith('.json'):
                data = json.load(open(os.path.join(d, f)))
                out.extend(data if isinstance(data, list) else [data])
    return out


def write_replay(pid, obj):
    d = os.path.join(VERIF, 'replays')
    os.makedirs(d, exist_ok=True)
    h = hashlib.sha1(json.dumps(obj, sort_keys=True, default=str).encode()).hexdigest()[:10]
    p = os.path.join(d, '%s_%s.json' % (pid, h))
    with open(p, 'w') as f:
        json.dump(obj, f, indent=1, default=str)
    return p


def write_evidence(pid, ev):
    d = os.environ.get('VERIF_EVIDENCE_DIR') or os.path.join(VERIF, 'evidence')
    os.makedirs(d, exist_ok=True)
    with open(os.path.join(d, '%s.json' % pid), 'w') as f:
        json.dump(ev, f, indent=1, default=str)


class Verdict:
    """Collects what a run saw and turns it into evidence, output lines and the exit code."""

    def __init__(self, pid, tier, seed, level='proof'):
        self.pid, self.tier, self.seed, self.level = pid, tier, seed, level
        self.t0 = time.time()
        self.known = load_known(pid)
        self.known_hit = {}
        self.violations = []          # replay objects with a failing input
        self.broken = []              # names of proof obligations / correspondences that no longer check
        self.cov = {'evaluations': 0, 'distinct_nontrivial': 0, 'rule': '', 'samples': [],
                    'obligations': 0, 'discharged': 0, 'checker_cmd': '', 'trusted_base': [],
                    'distribution': {}, 'correspondences': []}
        self.assumptions = []
        self._distinct = set()

    # -- coverage bookkeeping
    def count_case(self, case, nontrivial=True, kind=None):
        self.cov['evaluations'] += 1
        if nontrivial:
            self._distinct.add(hashlib.sha1(json.dumps(case, sort_keys=True, default=str).encode()).digest())
        if kind is not None:
            self.cov['distribution'][kind] = self.cov['distribution'].get(kind, 0) + 1
        if len(self.cov['samples']) < 6 and (self.cov['evaluations'] % 97 == 1):
            self.cov['samples'].append(case)

    def add_proof(self, gate):
        n = len(gate['props']['theorems'])
        self.cov['obligations'] += max(n, 1)
        good = [t for t in gate['props']['theorems'] if not t['disallowed']]
        self.cov['discharged'] += len(good) if gate['ok'] else 0
        self.cov['checker_cmd'] = (gate['build_cmd'] + ' && ' + gate['props']['cmd']).strip()
        self.cov['theorems'] = [t['name'] for t in gate['props']['theorems']]
        tb = ['Coq 8.16.1 kernel + vm_compute (no native_compute)']
        prim = ('PrimFloat.', 'Uint63.', 'PrimInt63.', 'Sint63.', 'FloatOps.', 'PArray.', 'PrimString.')
        tb += [('primitive (kernel type/operation, not an axiom): ' if a.startswith(prim) else 'axiom: ') + a
               for a in gate['axioms']]
        if not gate['axioms']:
            tb.append('Print Assumptions: all property theorems closed under the global context')
        self.cov['trusted_base'] = tb
        if not gate['ok']:
            self.broken += ['proof:' + b for b in gate['broken']]
            self.cov['proof_log'] = (gate['build_log'] or gate['props']['log'])[-2000:]

    def add_correspondence(self, name, n_cases, n_mismatch, exactness, cmd=''):
        self.cov['correspondences'].append({'name': name, 'cases': n_cases, 'mismatches': n_mismatch,
                                            'exactness': exactness, 'cmd': cmd})

    # -- findings
    def failing(self, signature, case, msg, extra=None):
        """A concrete input on which the property fails on the real implementation."""
        for k in self.known:
            if k.get('signature') == signature:
                self.known_hit.setdefault(k['id'], (k, case, msg))
                return 'known'
        self.violations.append({'property': self.pid, 'kind': 'failing-input', 'signature': signature,
                                'case': case, 'message': msg, 'extra': extra})
        return 'new'

    def broke(self, what):
        self.broken.append(what)

    # -- finish
    def finish(self):
        self.cov['distinct_nontrivial'] = len(self._distinct)
        wall = time.time() - self.t0
        lines = []
        for kid, (k, case, msg) in sorted(self.known_hit.items()):
            lines.append('KNOWN-FINDING: property=%s %s' % (self.pid, k.get('what', kid)))
        rc = 0
        nviol = 0
        if self.violations:
            v = self.violations[0]
            v['broken_obligations'] = self.broken
            v['other_failing'] = len(self.violations) - 1
            path = write_replay(self.pid, v)
            lines.append('VIOLATION property=%s replay=%s' % (self.pid, path))
            rc, nviol = 1, len(self.violations)
        elif self.broken:
            path = write_replay(self.pid, {'property': self.pid, 'kind': 'broken-obligation',
                                           'no_longer_checks': self.broken,
                                           'note': 'search found no failing input; the property is no longer shown to hold',
                                           'proof_log': self.cov.get('proof_log', ''),
                                           'detail': self.cov.get('broken_detail', '')})
            lines.append('VIOLATION property=%s replay=%s no-failing-input-found' % (self.pid, path))
            rc, nviol = 1, 1
        if not self.cov['samples']:
            self.cov['samples'] = ['(no cases)']
        ev = {'property_id': self.pid, 'tier': self.tier, 'seed': self.seed, 'level': self.level,
              'coverage': self.cov, 'assumptions': self.assumptions, 'wall_s': round(wall, 2),
              'violations': nviol, 'known_findings_hit': sorted(self.known_hit)}
        write_evidence(self.pid, ev)
        for ln in lines:
            print(ln)
        print('[%s %s] evaluations=%d distinct=%d obligations=%d/%d broken=%s wall=%.1fs -> exit %d' % (
            self.pid, self.tier, self.cov['evaluations'], self.cov['distinct_nontrivial'],
            self.cov['discharged'], self.cov['obligations'], self.broken[:3], wall, rc))
        sys.stdout.flush()
        return rc


# --------------------------------------------------------------------------- the standard flow

class Spec:
    """Override in props/CXX/check.py.  Everything except pid/imports/gen/got_term has a default."""
    pid = None
    imports = []                  # e.g. ['C05.Model']
    impl_script = None            # 'props/C05/impl.py'
    exactness = 'E1'
    tol = None                    # Fraction -> mismatches_tol
    shard = 400
    impl_jobs = 8
    rule = ''
    assumptions = []
    prelude = ''

    def translate(self, wd):      # regenerate coq/<pid>/Gen*.v from /repo; return list of broken ties
        return []

    def gen(self, tier, rng):
        raise NotImplementedError

    def search_gen(self, tier, rng):  # extra cases for the failing-input search
        return self.gen('thorough' if tier == 'quick' else tier, rng)

    def got_term(self, case):
        raise NotImplementedError

    def want_term(self, case, res):
        return to_val(res['res'])

    def signature(self, case, res):
        return res.get('sig') or json.dumps(case, sort_keys=True)

    def nontrivial(self, case, res):
        return True

    def kind(self, case, res):
        return res.get('kind') if isinstance(res, dict) else None

    def shrink(self, case):       # yield smaller candidate cases
        return []

    def compare_case(self, case, res):   # False: skip the model comparison for this case (oracle only)
        return res.get('res', '__none__') != '__none__'


def _oracle_pass(spec, v, cases, results, wd):
    new = 0
    for c, r in zip(cases, results):
        v.count_case(c, spec.nontrivial(c, r), spec.kind(c, r))
        if not r.get('ok', True):
            if v.failing(spec.signature(c, r), c, r.get('msg', '')) == 'new':
                new += 1
    return new


def _shrink(spec, case, wd, v):
    """Greedy shrink of a failing input through the real implementation's oracle."""
    cur = case
    for _ in range(30):
        cands = list(spec.shrink(cur))[:40]
        if not cands:
            break
        res, _ = run_impl(spec.impl_script, cands, wd, tag='shrink', jobs=1, timeout=300)
        if res is None:
            break
        nxt = None
        for c, r in zip(cands, res):
            if not r.get('ok', True) and not any(k.get('signature') == spec.signature(c, r) for k in v.known):
                nxt = c
                break
        if nxt is None:
            break
        cur = nxt
    return cur


def standard_check(spec, tier):
    seed = seed_from_env()
    rng = random.Random(seed * 1000003 + sum(map(ord, spec.pid)))
    wd = workdir(spec.pid, tier)
    v = Verdict(spec.pid, tier, seed)
    v.cov['rule'] = spec.rule
    v.assumptions = list(spec.assumptions)

    # 1. translators (regenerated model parts)
    try:
        for b in spec.translate(wd) or []:
            v.broke('translate:' + b)
    except Exception as e:      # fail closed
        v.broke('translate:%s' % e)

    # 2. proofs
    gate = proof_gate(spec.pid, wd)
    v.add_proof(gate)

    # 3. cases: corpus first, then generated
    cases = load_corpus(spec.pid) + list(spec.gen(tier, rng))
    results, log = run_impl(spec.impl_script, cases, wd, jobs=spec.impl_jobs)
    if results is None:
        v.broke('correspondence:implementation-run-failed')
        v.cov['broken_detail'] = log[-3000:]
        return v.finish()
    _oracle_pass(spec, v, cases, results, wd)

    # 4. model vs implementation
    idx = [i for i in range(len(cases)) if spec.compare_case(cases[i], results[i])]
    got = [spec.got_term(cases[i]) for i in idx]
    want = [spec.want_term(cases[i], results[i]) for i in idx]
    model_ok, _, mlog = coq_make(['coq/%s/Model.vo' % spec.pid]) if os.path.exists(
        os.path.join(COQ, spec.pid, 'Model.v')) else (True, '', '')
    bad, errors, cmd = coq_mismatches(wd, spec.imports, got, want, shard=spec.shard, tol=spec.tol,
                                      prelude=spec.prelude)
    v.add_correspondence('model-vs-implementation', len(idx), len(bad), spec.exactness, cmd)
    if errors:
        v.broke('correspondence:model-evaluation-failed')
        v.cov['broken_detail'] = json.dumps(errors[:2])[-3000:]
    if bad:
        v.broke('correspondence:model-vs-implementation (%d of %d cases differ)' % (len(bad), len(idx)))
        show = [idx[b] for b in bad[:3]]
        v.cov['broken_detail'] = json.dumps(
            {'first_mismatching_cases': [cases[i] for i in show],
             'implementation': [results[i].get('res') for i in show],
             'model': coq_show(wd, spec.imports, [spec.got_term(cases[i]) for i in show], spec.prelude)})[-6000:]

    # 5. search for a failing input when a proof or the correspondence broke
    if v.broken and not v.violations:
        rng2 = random.Random(seed + 77)
        extra = [cases[idx[b]] for b in bad[:200]] + list(spec.search_gen(tier, rng2))
        res2, log2 = run_impl(spec.impl_script, extra, wd, tag='search', jobs=spec.impl_jobs)
        if res2 is not None:
            _oracle_pass(spec, v, extra, res2, wd)
    if v.violations:
        v.violations[0]['case'] = _shrink(spec, v.violations[0]['case'], wd, v)
    return v.finish()
